#!/bin/sh
# MANIFEST.setup_cmd: regenerate the constants from /repo, build the Lean library (proof check), warm caches.
HERE="$(cd "$(dirname "$0")" && pwd)"
cd "$HERE" || exit 2
export PYTHONPATH="$HERE/harness:/repo/src"
/venv/bin/python -c "
import sys; sys.path.insert(0,'harness')
import framework as F
F.setup_paths()
ok,msg,t,stale=F.translate_constants()
print('constants:', ('ok' if not stale else 'ok, not re-extracted: '+', '.join(stale)) if ok else msg)
" || exit 1
cd lean && lake build 2>&1 | tail -5
