#!/bin/sh
# MANIFEST.setup_cmd: regenerate the constants from /repo, build the Lean library (proof check), warm caches.
HERE="$(cd "$(dirname "$0")" && pwd)"
cd "$HERE" || exit 2
export PYTHONPATH="$HERE/harness:/repo/src"
/venv/bin/python -c "
import sys; sys.path.insert(0,'harness')
import framework as F
F.setup_paths()
ok,msg,t,stale=F.translate_constants()
print('constants:', ('ok' if not stale else 'ok, not re-extracted: '+', '.join(stale)) if ok else msg)
# regenerate the translated source functions (secondary tie) so that the library builds against what /repo says now
import ties, pyfn2lean
for pid, spec in sorted(ties.SPECS.items()):
    try:
        res = pyfn2lean.generate(F.SRC, spec['items'], F.LEAN / 'IblVerif' / 'Generated' / f'Src{pid}.lean', pid)
        bad = [k for k, (ok, m, _) in res.items() if not ok]
        print('tie source', pid, 'ok' if not bad else 'not translated: ' + ', '.join(bad))
    except Exception as e:
        print('tie source', pid, 'translator raised', type(e).__name__, e)
" || exit 1
cd lean && lake build 2>&1 | tail -5
