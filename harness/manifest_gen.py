"""Regenerates MANIFEST.json from the property modules present in harness/props (run by hand, committed)."""
import importlib, json, sys
from pathlib import Path
HERE = Path(__file__).resolve().parent
sys.path.insert(0, str(HERE)); sys.path.insert(0, '/repo/src')
ALL = [f'C{i:02d}' for i in range(1, 21)]
PENDING_REASON = 'no check registered yet: model, theorems and correspondence for this property are still being built (DESIGN.md §6 gives the plan); not claimed until they run clean'

def main():
    import ties
    checks, na = [], []
    for pid in ALL:
        f = HERE / 'props' / f'{pid.lower()}.py'
        if not f.exists():
            na.append({'property_id': pid, 'reason': PENDING_REASON}); continue
        m = importlib.import_module(f'props.{pid.lower()}')
        checks.append({
            'property_id': pid,
            'quick_cmd': f'./check {pid} quick',
            'thorough_cmd': f'./check {pid} thorough',
            'evidence_file': f'evidence/{pid}.json',
            'replay_cmd_template': f'./check {pid} --replay {{path}}',
            'engine': 'lean4-proof+correspondence',
            'level_claimed': {'category': 'proof', 'text': m.LEVEL_TEXT, 'design_ref': f'DESIGN.md §6 {pid}'},
            'level_note': m.LEVEL_NOTE,
            'technique': m.TECHNIQUE + (('; translator tie re-checked every run: ' + ties.SPECS[pid]['covers'] + ' regenerated from the source text by harness/pyfn2lean.py and proved equal to the model (lean/IblVerif/Tie/' + pid + '.lean)') if pid in ties.SPECS else ''),
        })
    man = {
        'version': 1,
        'setup_cmd': './setup.sh',
        'hooks': {'guard': 'IBL_NEUROPIXEL_VERIF', 'enable': 'no hooks in /repo; checks import /repo/src in-process and set IBL_NEUROPIXEL_VERIF=1 (unused by the code)',
                  'baseline_off_cmd': 'cd /repo && /venv/bin/python -m pytest -ra -q -p no:cacheprovider --timeout=900 --continue-on-collection-errors',
                  'source_commits': [], 'add_only': True},
        'engines': [{'name': 'lean4-proof+correspondence', 'path': 'lean/ + harness/',
                     'serves_properties': [c['property_id'] for c in checks],
                     'kind_free_text': 'Lean 4 theorems about hand-written executable models (lake build + #print axioms audit), tied to /repo by a differential correspondence run (real code in-process vs lean --run driver) by constants re-extracted from the source on every run and, for the integer / decision / event-order skeleton of the anchored functions of every property (harness/tiespecs, ties.py), by Lean definitions re-translated from the source text on every run with theorems translated = model (DESIGN §12); failing-input search by direct oracles on a break'}],
        'checks': checks,
        'not_applicable': na,
        'notes': 'fix: commits in /repo and known findings are listed in known_findings.txt; see DESIGN.md §7.',
    }
    (HERE.parent / 'MANIFEST.json').write_text(json.dumps(man, indent=1) + '\n')
    print(len(checks), 'checks;', len(na), 'not claimed')
main()
