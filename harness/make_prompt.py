"""
Generates the prompt given to an independent sub-agent for one property (only the property text + its own scratch worktree,
nothing from /verif):   /venv/bin/python harness/make_prompt.py <neutral|seed> <Cxx> <worktree-root>
The templates are the committed examples harness/prompts/neutral_example.txt / seeder_round_e_example.txt (written for C17);
the C17-specific parts are replaced by the text of the requested property from properties.jsonl.
"""
import json
import sys
from pathlib import Path

VERIF = Path(__file__).resolve().parents[1]


def prop_block(p):
    anch = '; '.join(f"{a['name']} [{a['where']}]" for a in p['anchors'].get('mechanism', []))
    return ("  id: %s\n  title: %s\n  statement: %s\n  quantified over: %s\n  anchored in: %s"
            % (p['id'], p['title'], p['statement'], p['quantifier']['text'], anch))


def main(kind, pid, root):
    props = {}
    for l in (VERIF / 'properties.jsonl').read_text().splitlines():
        if l.strip():
            d = json.loads(l)
            props[d['id']] = d
    p = props[pid]
    name = {'neutral': 'neutral_example.txt', 'neutral2': 'neutral_round2_example.txt', 'seed': 'seeder_round_e_example.txt', 'seed_f': 'seeder_round_f_example.txt', 'seed_g': 'seeder_round_g_example.txt', 'seed_i': 'seeder_round_i_example.txt'}[kind]
    tmpl = (VERIF / 'harness' / 'prompts' / name).read_text()
    old_root = {'neutral': '/tmp/neutral/C17', 'neutral2': '/tmp/neutral2/C17', 'seed': '/tmp/seed_e/C17', 'seed_f': '/tmp/seed_f/C17', 'seed_g': '/tmp/seed_g/C17', 'seed_i': '/tmp/seed_i/C17'}[kind]
    start = tmpl.index('  id: C17')
    end = tmpl.index('\n\nYOUR TASK')
    text = tmpl[:start] + prop_block(p) + tmpl[end:]
    return text.replace(old_root, f'{root}/{pid}').replace('/tmp/neutral_tmp_C17', f'/tmp/neutral_tmp_{pid}').replace('/tmp/neutral2_tmp_C17', f'/tmp/neutral2_tmp_{pid}')


if __name__ == '__main__':
    print(main(*sys.argv[1:]), end='')
