"""
Framework shared by all property checks (see DESIGN.md §2).

A property module `harness/props/cXX.py` declares

    ID            'C17'
    DRIVER        name of lean/Drivers/<DRIVER>.lean (line protocol), or None
    LEAN_TARGETS  lake targets that must build (the property file and what it imports)
    THEOREMS      fully qualified names of the property theorems (audited with #print axioms)
    RULE          how cases are generated / what makes one non-trivial
    ASSUMPTIONS   list of strings
    TRUSTED       list of strings (trusted base for this property, beyond the common one)
    correspondence(ctx)     runs the real code and the Lean model on the same inputs (ctx.lean),
                            reports each case with ctx.case(...) and each disagreement with ctx.mismatch(...)
    search(ctx, reasons)    failing-input search with a direct oracle on the real code; returns a
                            replay dict {input, expected, observed, how} or None
    replay(ctx, rep)        re-runs the oracle on a replay's input; returns True when it still fails
    known_findings(ctx)     optional: {key: callable returning True when the listed input still fails}

and `run_property` does the rest: constants translator, lake build, audit, correspondence, known
findings, failing-input search, evidence, verdict.
"""
import collections
import fcntl
import hashlib
import importlib
import json
import os
import re
import signal
import subprocess
import sys
import time
import traceback
from pathlib import Path

VERIF = Path(__file__).resolve().parents[1]
LEAN = VERIF / 'lean'
REPO = Path(os.environ.get('IBL_REPO', '/repo'))
SRC = REPO / 'src'
EVIDENCE = Path(os.environ.get('VERIF_EVIDENCE_DIR') or VERIF / 'evidence')   # seeded_matrix redirects both so that runs
REPLAYS = Path(os.environ.get('VERIF_REPLAY_DIR') or VERIF / 'replays')      # against a mutated copy never touch the committed files
KNOWN_FILE = VERIF / 'known_findings.txt'
GUARD = 'IBL_NEUROPIXEL_VERIF'

ALLOWED_AXIOMS = {'propext', 'Classical.choice', 'Quot.sound'}
FORBIDDEN = re.compile(r'\bsorry\b|\badmit\b|^\s*axiom\s|native_decide|bv_decide|implemented_by|\bunsafe\s|maxHeartbeats\s+0\b|ofReduceBool')

COMMON_TRUSTED = [
    'Lean 4.33.0 kernel; axioms propext, Classical.choice, Quot.sound only (audited by #print axioms each run)',
    'Mathlib v4.33.0 as compiled under /opt/veriftools/mathlib4',
    'correspondence harness + generators (Python) and the constants translator harness/extract_consts.py',
    'line-protocol driver lean/Drivers/*.lean (parsing/printing only; calls the definitions the theorems are about)',
]


def setup_paths():
    os.environ.setdefault(GUARD, '1')
    for p in (str(SRC), str(VERIF / 'harness')):
        if p not in sys.path:
            sys.path.insert(0, p)


class Timeout(Exception):
    pass


def _alarm(signum, frame):
    raise Timeout()


# ---------------------------------------------------------------------------------------------
# Lean side
# ---------------------------------------------------------------------------------------------
class LakeLock:
    def __enter__(self):
        (LEAN / '.lake').mkdir(exist_ok=True)
        self.f = open(LEAN / '.lake' / 'verif.lock', 'w')
        fcntl.flock(self.f, fcntl.LOCK_EX)
        return self

    def __exit__(self, *a):
        fcntl.flock(self.f, fcntl.LOCK_UN)
        self.f.close()


def run_cmd(cmd, cwd=None, timeout=3600, input=None):
    p = subprocess.run(cmd, cwd=cwd, input=input, capture_output=True, text=True, timeout=timeout)
    return p.returncode, p.stdout, p.stderr


def translate_constants():
    """Regenerate lean/IblVerif/Generated/Constants.lean from /repo's current source.
    Returns (ok, message, table, stale): `stale` maps each constant that could not be re-extracted (source restructured)
    to the reason; its previous value is kept (see extract_consts.py)."""
    import extract_consts
    out = LEAN / 'IblVerif' / 'Generated' / 'Constants.lean'
    try:
        prev = out.read_text() if out.exists() else None
        text, table, stale = extract_consts.generate(SRC, prev)
    except Exception as e:  # nothing to fall back on: broken tie
        return False, f'translator failed: {type(e).__name__}: {e}', {}, {}
    with LakeLock():
        if not out.exists() or out.read_text() != text:
            out.parent.mkdir(parents=True, exist_ok=True)
            out.write_text(text)
    return True, '', table, stale


def lean_import_closure(targets):
    """files of this project reachable from the given modules through `import IblVerif.…` lines"""
    seen, todo = {}, list(targets)
    while todo:
        m = todo.pop()
        if m in seen or not m.startswith('IblVerif'):
            continue
        f = LEAN / (m.replace('.', '/') + '.lean')
        if not f.exists():
            continue
        txt = f.read_text()
        seen[m] = txt
        todo += re.findall(r'^import\s+(IblVerif[\w.]*)', txt, flags=re.M)
    return seen


def constants_used(mod, names):
    """which generated constants this property's theorems, driver or harness module mention"""
    skip = 'IblVerif.Generated.Constants'
    texts = [t for m, t in lean_import_closure(mod.LEAN_TARGETS).items() if m != skip]
    drv = LEAN / 'Drivers' / f'{mod.DRIVER}.lean' if getattr(mod, 'DRIVER', None) else None
    if drv and drv.exists():
        t = drv.read_text()
        texts.append(t)
        texts += [x for m, x in lean_import_closure(re.findall(r'^import\s+(IblVerif[\w.]*)', t, flags=re.M)).items() if m != skip]
    try:
        texts.append(Path(mod.__file__).read_text())
    except Exception:
        pass
    blob = '\n'.join(texts)
    return sorted(n for n in names if re.search(r'\b' + re.escape(n) + r'\b', blob))


def lake_build(targets):
    with LakeLock():
        rc, so, se = run_cmd(['lake', 'build'] + list(targets), cwd=LEAN, timeout=3000)
    log = so + se
    errs = [l for l in log.splitlines() if l.startswith('error:')]
    return rc == 0, errs, log


def strip_comments(text):
    # remove /- ... -/ (nested) and -- line comments
    out, depth, i = [], 0, 0
    while i < len(text):
        if text.startswith('/-', i):
            depth += 1; i += 2; continue
        if text.startswith('-/', i) and depth > 0:
            depth -= 1; i += 2; continue
        if depth == 0:
            if text.startswith('--', i):
                j = text.find('\n', i)
                i = len(text) if j < 0 else j
                continue
            out.append(text[i])
        elif text[i] == '\n':
            out.append('\n')
        i += 1
    return ''.join(out)


def lean_sources():
    return sorted(p for p in LEAN.rglob('*.lean') if '.lake' not in p.parts and '.audit' not in p.parts)


def forbidden_hits():
    hits = []
    for p in lean_sources():
        for n, line in enumerate(strip_comments(p.read_text()).splitlines(), 1):
            if FORBIDDEN.search(line):
                hits.append(f'{p.relative_to(LEAN)}:{n}: {line.strip()}')
    return hits


def sources_hash():
    h = hashlib.sha256()
    for p in lean_sources():
        h.update(str(p.relative_to(LEAN)).encode()); h.update(p.read_bytes())
    return h.hexdigest()


def audit(pid, theorems, imports):
    """#print axioms for every property theorem; returns {name: (ok, axioms or message)}."""
    adir = LEAN / '.audit'
    adir.mkdir(exist_ok=True)
    key = hashlib.sha256((sources_hash() + '|' + ','.join(theorems) + '|' + ','.join(imports)).encode()).hexdigest()
    cache = adir / f'{pid}.json'
    if cache.exists():
        try:
            c = json.loads(cache.read_text())
            if c.get('key') == key:
                return {k: tuple(v) for k, v in c['res'].items()}
        except Exception:
            pass
    src = ''.join(f'import {m}\n' for m in imports) + ''.join(f'#print axioms {t}\n' for t in theorems)
    f = adir / f'{pid}.lean'
    f.write_text(src)
    rc, so, se = run_cmd(['lake', 'env', 'lean', str(f)], cwd=LEAN, timeout=1800)
    text = so + se
    res = {}
    flat = re.sub(r'\s+', ' ', text)
    for t in theorems:
        m = re.search(r"'" + re.escape(t) + r"' depends on axioms: \[([^\]]*)\]", flat)
        if m:
            ax = [a.strip() for a in m.group(1).split(',') if a.strip()]
            bad = [a for a in ax if a not in ALLOWED_AXIOMS]
            res[t] = (not bad, ax if not bad else f'disallowed axioms {bad}')
        elif re.search(r"'" + re.escape(t) + r"' does not depend on any axioms", flat):
            res[t] = (True, [])
        else:
            res[t] = (False, 'theorem not found / did not elaborate')
    cache.write_text(json.dumps({'key': key, 'res': res}))
    return res


def tie_check(pid, generate, targets, theorems):
    """Helper for a module's secondary_tie(ctx): `generate()` re-translates the source functions into a Lean file under
    lean/IblVerif/Generated/ (returns (ok, message)); then the tie modules are built and their theorems audited.
    Returns {'ok', 'detail', 'theorems'}."""
    try:
        ok, msg = generate()
    except Exception as e:  # noqa
        ok, msg = False, f'{type(e).__name__}: {e}'
    if not ok:
        return {'ok': False, 'detail': 'source translation failed: ' + str(msg), 'theorems': {}}
    good, errs, log = lake_build(targets)
    if not good:
        return {'ok': False, 'detail': 'tie theorems do not build against the translated source: ' + '; '.join(errs[:4] or [log[-600:]]), 'theorems': {}}
    res = audit(pid + '_tie', theorems, targets)
    bad = {t: info for t, (g, info) in res.items() if not g}
    return {'ok': not bad, 'detail': 'translated source = model' if not bad else f'not proved: {bad}',
            'theorems': {t: info for t, (g, info) in res.items()}}


def leanchecker(modules):
    rc, so, se = run_cmd(['lake', 'env', 'leanchecker'] + list(modules), cwd=LEAN, timeout=3000)
    return rc == 0, (so + se)[-2000:]


def lean_run(driver, lines, timeout=1800):
    """Feed `lines` to lean/Drivers/<driver>.lean, return the answer lines (one per request)."""
    if not lines:
        return []
    data = '\n'.join(lines) + '\n'
    rc, so, se = run_cmd(['lake', 'env', 'lean', '--run', f'Drivers/{driver}.lean'], cwd=LEAN,
                         timeout=timeout, input=data)
    out = so.splitlines()
    if rc != 0 or len(out) != len(lines):
        raise RuntimeError(f'lean driver {driver}: rc={rc}, {len(out)} answers for {len(lines)} requests\n{se[-2000:]}')
    return out


# ---------------------------------------------------------------------------------------------
# Context handed to property modules
# ---------------------------------------------------------------------------------------------
class Ctx:
    def __init__(self, pid, tier, seed, mod):
        import numpy as np
        self.pid, self.tier, self.seed, self.mod = pid, tier, seed, mod
        self.np = np
        self.rng = np.random.default_rng([seed, int(pid[1:])])
        self.evaluations = 0
        self.hashes = set()
        self.samples = []
        self.dist = collections.Counter()
        self.mismatches = []
        self.notes = []
        self.consts = {}
        self.known_hits = collections.Counter()
        self.exhaustive = False
        self.escalated = False       # set when a secondary tie broke: property modules deepen their correspondence
        self.t0 = time.time()

    @property
    def quick(self):
        # a broken secondary tie escalates the correspondence of this property to its thorough depth
        return self.tier == 'quick' and not self.escalated

    def n(self, quick, thorough):
        if self.quick:
            return quick
        if self.tier == 'quick' and isinstance(quick, (int, float)) and isinstance(thorough, (int, float)) \
                and not isinstance(quick, bool) and quick > 0 and thorough > 0:
            # quick tier escalated by a broken secondary tie: an intermediate depth (geometric mean), so that the check still
            # answers in minutes; the thorough tier keeps its full depth
            g = (quick * thorough) ** 0.5
            return int(round(g)) if isinstance(quick, int) and isinstance(thorough, int) else g
        return thorough

    def subrng(self, *key):
        return self.np.random.default_rng([self.seed, int(self.pid[1:])] + [int(k) for k in key])

    def lean(self, lines, driver=None):
        return lean_run(driver or self.mod.DRIVER, lines)

    def case(self, desc, nontrivial=True, tags=()):
        """Register one explored case. `desc` is a JSON-able description (also used for distinctness)."""
        self.evaluations += 1
        for t in tags:
            self.dist[t] += 1
        if nontrivial:
            h = hashlib.sha1(json.dumps(desc, sort_keys=True, default=str).encode()).digest()[:10]
            if h not in self.hashes:
                self.hashes.add(h)
                if len(self.samples) < 6 or (self.evaluations % 997 == 0 and len(self.samples) < 12):
                    self.samples.append(desc)

    def mismatch(self, op, desc, impl, model):
        # Which exception CLASS rejects an input that both sides reject is not part of any property (a tidy-up that turns an
        # accidental IndexError into a ValueError must not alarm): outcomes are compared with the class erased.
        if canon_err(impl) == canon_err(model):
            self.dist['exception-class-differs (not a disagreement)'] += 1
            return
        self.mismatches.append({'op': op, 'case': desc, 'implementation': impl, 'model': model})

    def compare(self, op, desc, impl, model, nontrivial=True, tags=()):
        self.case(desc, nontrivial, tags)
        if impl != model:
            if canon_err(impl) == canon_err(model):
                self.dist['exception-class-differs (not a disagreement)'] += 1
                return True
            self.mismatch(op, desc, impl, model)
            return False
        return True

    def note(self, s):
        self.notes.append(s)


# 'err <Class> <free text of the message>' -> 'err'; key=value tokens and the separators | ; end the erased part (they carry state)
_ERR_RX = re.compile(r"\berr[ :]+[A-Za-z_][\w.]*(?:[ ,:]+(?![^\s|;=]+=)[^\s|;]+)*")


_RAISE_RX = re.compile(r"\braise:(?!crash\b)[A-Za-z_]\w*(?:\([^)]*\))?")     # C04's tokens: raise:assertion / raise:valueError / raise:X(msg)


def canon_err(x):
    """erase the exception class from a canonical outcome: 'err IndexError' -> 'err' (recursively in containers)"""
    if isinstance(x, str):
        return _RAISE_RX.sub('raise', _ERR_RX.sub('err', x))
    if isinstance(x, (list, tuple)):
        return [canon_err(v) for v in x]
    if isinstance(x, dict):
        return {k: canon_err(v) for k, v in x.items()}
    return x


def load_known():
    known, fixed = [], []
    if KNOWN_FILE.exists():
        for line in KNOWN_FILE.read_text().splitlines():
            line = line.strip()
            if line.startswith('known:'):
                m = re.match(r'known:\s+property=(\S+)\s+key=(\S+)\s+(.*)', line)
                if m:
                    known.append({'property': m.group(1), 'key': m.group(2), 'what': m.group(3)})
            elif line.startswith('fixed:'):
                m = re.match(r'fixed:\s+property=(\S+)\s+(\S+)\s+(.*)', line)
                if m:
                    fixed.append({'property': m.group(1), 'commit': m.group(2), 'what': m.group(3)})
    return known, fixed


def write_replay(pid, tier, seed, body):
    REPLAYS.mkdir(exist_ok=True)
    path = REPLAYS / f'{pid}_{tier}_seed{seed}.json'
    path.write_text(json.dumps(body, indent=1, default=str))
    return path


def jsonable(x):
    import numpy as np
    if isinstance(x, dict):
        return {str(k): jsonable(v) for k, v in x.items()}
    if isinstance(x, (list, tuple, set)):
        return [jsonable(v) for v in x]
    if isinstance(x, np.ndarray):
        return jsonable(x.tolist())
    if isinstance(x, (np.integer,)):
        return int(x)
    if isinstance(x, (np.floating,)):
        return float(x)
    if isinstance(x, (np.bool_,)):
        return bool(x)
    if isinstance(x, (str, int, float, bool)) or x is None:
        return x
    return repr(x)


# ---------------------------------------------------------------------------------------------
def run_property(pid, tier, replay_path=None):
    setup_paths()
    t0 = time.time()
    seed = int(os.environ.get('VERIF_SEED', '0') or 0)
    mod = importlib.import_module(f'props.{pid.lower()}')
    ctx = Ctx(pid, tier, seed, mod)
    budget = int(os.environ.get('VERIF_TIMEOUT', '1500' if tier == 'quick' else '5400'))
    signal.signal(signal.SIGALRM, _alarm)
    signal.alarm(budget)

    if replay_path:
        rep = json.loads(Path(replay_path).read_text())
        still = mod.replay(ctx, rep)
        print(f'replay {replay_path}: ' + ('still fails' if still else 'does not fail'))
        return 1 if still else 0

    reasons = []          # why the property is "no longer shown to hold" (broken obligation / tie)
    obligations = list(mod.THEOREMS)
    discharged = 0
    try:
        # 1. translator
        ok, msg, table, stale = translate_constants()
        ctx.consts = table
        if not ok:
            reasons.append({'kind': 'translator', 'detail': msg})
        mine = constants_used(mod, list(stale)) if stale else []
        for k in mine:
            # a restructured source is not a violation: the value of the previous generation is kept, the model computes
            # with it and the correspondence run below compares it with what the code does now (DESIGN §11.7)
            ctx.note(f'constant {k} not re-extracted from the source ({stale[k]}); previous value {table.get(k)} kept, '
                     f'tie for it is the correspondence run')
        ctx.stale_constants = mine
        # 2. build
        ok, errs, log = lake_build(mod.LEAN_TARGETS)
        if not ok:
            reasons.append({'kind': 'proof-obligation', 'detail': 'lake build failed', 'errors': errs[:10] or [log[-1500:]]})
        # 3. audit
        hits = forbidden_hits()
        if hits:
            reasons.append({'kind': 'audit', 'detail': 'forbidden token in Lean sources', 'hits': hits[:10]})
        ares = {}
        if ok:
            ares = audit(pid, mod.THEOREMS, mod.LEAN_TARGETS)
            for t, (good, info) in ares.items():
                if good:
                    discharged += 1
                else:
                    reasons.append({'kind': 'proof-obligation', 'detail': f'theorem {t}: {info}'})
            if tier == 'thorough' and not os.environ.get('VERIF_NO_LEANCHECKER'):
                good, out = leanchecker(mod.LEAN_TARGETS)
                ctx.note('leanchecker ' + ('ok' if good else 'FAILED'))
                if not good:
                    reasons.append({'kind': 'proof-obligation', 'detail': 'leanchecker rejected the compiled modules', 'log': out})
        # 3b. secondary tie (optional): source functions translated to Lean on this run + theorems `translated = model`.
        #     A break here is NOT a reason by itself (the deciding tie is the correspondence run): it is recorded and the
        #     module's escalate(ctx) hook deepens the correspondence on the mechanism concerned (DESIGN §11.7).
        ctx.secondary_tie = None
        import ties
        if hasattr(mod, 'secondary_tie') or pid in ties.SPECS:
            try:
                ctx.secondary_tie = mod.secondary_tie(ctx) if hasattr(mod, 'secondary_tie') else ties.run(ctx)      # {'ok': bool, 'detail': str, 'theorems': {...}}
            except Timeout:
                raise
            except Exception as e:
                ctx.secondary_tie = {'ok': False, 'detail': f'secondary tie raised {type(e).__name__}: {e}'}
            tie_broken = not ctx.secondary_tie.get('ok')
            if tie_broken:
                ctx.note('secondary tie (translated source = model) does not check: ' + str(ctx.secondary_tie.get('detail'))[:600]
                         + ' — correspondence escalated')
        else:
            tie_broken = False
        # 4. correspondence (needs the driver, i.e. the model files, to build).  With a broken secondary tie it runs twice: at the
        #    ordinary depth first (a disagreement found there is reported at once), then, if that was clean, at thorough depth.
        corr_err = None
        for phase in ((False, True) if (tie_broken and tier == 'quick') else (tie_broken,)):
            ctx.escalated = phase
            try:
                mod.correspondence(ctx)
            except Timeout:
                raise
            except Exception as e:
                corr_err = f'{type(e).__name__}: {e}'
                ctx.note('correspondence aborted: ' + corr_err + '\n' + traceback.format_exc()[-1500:])
                reasons.append({'kind': 'correspondence', 'detail': 'correspondence run aborted: ' + corr_err})
            if ctx.mismatches or corr_err:
                break
        ctx.escalated = tie_broken
        if ctx.mismatches:
            reasons.append({'kind': 'correspondence', 'detail': f'{len(ctx.mismatches)} disagreement(s) between implementation and model',
                            'first': jsonable(ctx.mismatches[0])})
        # 5. known findings
        known, fixed = load_known()
        kf_lines = []
        demos = mod.known_findings(ctx) if hasattr(mod, 'known_findings') else {}
        for k in known:
            if k['property'] != pid:
                continue
            demo = demos.get(k['key'])
            still = None
            try:
                still = bool(demo()) if demo else None
            except Timeout:
                raise
            except Exception as e:
                ctx.note(f'known finding {k["key"]}: demonstration raised {type(e).__name__}: {e}')
                still = None
            if still:
                kf_lines.append(f'KNOWN-FINDING: property={pid} {k["key"]}: {k["what"]}')
            else:
                ctx.note(f'known finding {k["key"]} no longer reproduces (or has no demonstration)')
        for l in kf_lines:
            print(l)
        # 6. verdict
        violation = None
        if reasons:
            found = None
            try:
                found = mod.search(ctx, reasons)
            except Timeout:
                raise
            except Exception as e:
                ctx.note(f'search raised {type(e).__name__}: {e}\n' + traceback.format_exc()[-1500:])
            body = {'property': pid, 'tier': tier, 'seed': seed, 'no_longer_checks': jsonable(reasons)}
            if found:
                body['kind'] = 'failing-input'
                body.update(jsonable(found))
            else:
                body['kind'] = 'no-failing-input-found'
                body['disagreements'] = jsonable(ctx.mismatches[:5])
            path = write_replay(pid, tier, seed, body)
            violation = (path, found is not None)
    except Timeout:
        print(f'TIMEOUT property={pid} after {budget}s', file=sys.stderr)
        return 2
    finally:
        signal.alarm(0)

    # 7. evidence
    wall = time.time() - t0
    cov = {
        'obligations': len(obligations),
        'discharged': discharged,
        'checker_cmd': f'cd lean && lake build {" ".join(mod.LEAN_TARGETS)} && lake env lean .audit/{pid}.lean  (#print axioms)'
                       + (' && lake env leanchecker ' + ' '.join(mod.LEAN_TARGETS) if tier == 'thorough' else ''),
        'trusted_base': COMMON_TRUSTED + list(getattr(mod, 'TRUSTED', [])),
        'theorems': {t: (ares.get(t, (False, 'not audited'))[1]) for t in mod.THEOREMS},
        'evaluations': ctx.evaluations,
        'distinct_nontrivial': len(ctx.hashes),
        'rule': mod.RULE,
        'samples': jsonable(ctx.samples[:12]) or ['(no case generated)'],
        'input_distribution': dict(ctx.dist),
        'disagreements_checked': ctx.evaluations,
        'disagreements_found': len(ctx.mismatches),
        'generated_constants': jsonable(ctx.consts),
        'constants_not_reextracted': list(getattr(ctx, 'stale_constants', [])),
        'secondary_tie': jsonable(getattr(ctx, 'secondary_tie', None)),
        'known_findings_reported': kf_lines,
        'notes': ctx.notes,
        'exhaustive': bool(ctx.exhaustive),
    }
    ev = {
        'property_id': pid, 'tier': tier, 'seed': seed, 'level': 'proof', 'coverage': cov,
        'assumptions': list(getattr(mod, 'ASSUMPTIONS', [])),
        'wall_s': round(wall, 2), 'violations': 1 if violation else 0,
    }
    EVIDENCE.mkdir(exist_ok=True)
    (EVIDENCE / f'{pid}.json').write_text(json.dumps(ev, indent=1, default=str))
    if violation:
        path, found = violation
        rel = os.path.relpath(path, VERIF) if str(path).startswith(str(VERIF)) else str(path)
        print(f'VIOLATION property={pid} replay={rel}' + ('' if found else ' no-failing-input-found'))
        return 1
    print(f'OK property={pid} tier={tier} seed={seed} theorems={discharged}/{len(obligations)} '
          f'cases={ctx.evaluations} distinct_nontrivial={len(ctx.hashes)} wall={wall:.1f}s')
    return 0


def main(argv):
    if len(argv) < 2:
        print('usage: check <Cxx> <quick|thorough> | check <Cxx> --replay <file>', file=sys.stderr)
        return 2
    pid = argv[0].upper()
    if argv[1] == '--replay':
        return run_property(pid, 'quick', replay_path=argv[2])
    tier = argv[1] if argv[1] in ('quick', 'thorough') else os.environ.get('VERIF_TIER', 'quick')
    return run_property(pid, tier)


if __name__ == '__main__':
    sys.exit(main(sys.argv[1:]))
