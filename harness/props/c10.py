"""C10 — Sync words decode to TTL lines; fronts recover every event
(spikeglx.split_sync, Reader.read_sync / read_sync_digital / read_sync_analog; ibldsp.utils.fronts / rises / falls)."""
import itertools
import shutil
import struct
import tempfile
import warnings
from pathlib import Path

import numpy as np

ID = 'C10'
DRIVER = 'C10'
LEAN_TARGETS = ['IblVerif.Properties.C10']
THEOREMS = [
    'IblVerif.C10.split_sync_bit',
    'IblVerif.C10.word_of_int16',
    'IblVerif.C10.decode_encode',
    'IblVerif.C10.decode_trains',
    'IblVerif.C10.fronts_eq_changes',
    'IblVerif.C10.fronts_binary',
    'IblVerif.C10.rises_falls_spec',
    'IblVerif.C10.rises_falls_binary',
    'IblVerif.C10.rises_falls_analog',
    'IblVerif.C10.fronts2_eq_changes',
    'IblVerif.C10.rises2_falls2_spec',
    'IblVerif.C10.rises2_falls2_analog',
    'IblVerif.C10.threshold_spec',
    'IblVerif.C10.read_sync_layout',
    'IblVerif.C10.read_sync_layout_imec',
    'IblVerif.C10.digital_line_bit',
    'IblVerif.C10.ttl_recovered',
    'IblVerif.C10.ttl_recovered_imec',
    'IblVerif.C10.read_sync_empty_selection',
    'IblVerif.C10.read_sync_no_meta_counterexample',
    # growth round
    'IblVerif.C10.split_sync_array',
    'IblVerif.C10.fronts2_rowwise',
    'IblVerif.C10.fronts2_columnwise',
    'IblVerif.C10.fronts2_columnwise_rect',
    'IblVerif.C10.fronts_windows',
    'IblVerif.C10.fronts2_windows',
    'IblVerif.C10.read_sync_windows_imec',
    'IblVerif.C10.detected_once',
    'IblVerif.C10.analog_crossing_once',
    'IblVerif.C10.fronts_eq_changes_ordered',
    'IblVerif.C10.rises_falls_spec_ordered',
    'IblVerif.C10.rises_falls_analog_ordered',
    'IblVerif.C10.threshold_spec_linear',
]
RULE = ('INPUT FORMS are drawn independently of the values (tags form:/seqform:/readform:/split:) for ~60 % of the cases: dtype '
        '(int8/16/32/64, float32/64), memory layout (C, Fortran, transposed view, strided view, negative stride, read-only), call spelling '
        '(keywords / positional in the signature order / mixed / defaults), step as Python int / float or np.int8/16/64, np.uint8, np.float32/64, '
        'axis as int or np.int64 and as 0 / 1 / -1 / -2, read_sync slices from Python or NumPy ints, threshold as float / np.float32 / np.float64, '
        'floor_percentile as int / np.int64, positional or keyword, file name as Path or str; the model always receives the mathematical values. '
        '(a) all 65 536 int16 sync samples through split_sync, every run, in 12 array forms (int16 1-D and (n,1), uint16, int32 holding the signed '
        'values or the 0..65535 patterns, int64, strided / negative-stride / column-of-C / column-of-F / (n,1)-slice views, read-only); '
        '(b) 1-D trains: lengths 0..48 biased to 0..3 and to events on the first/last sample; 0/1 trains as int8 (what split_sync '
        'returns) and int16/int32/int64/float64, multi-level integer trains with step thresholds at/around the level differences, '
        'analog float64/int64 traces with samples below / exactly at / above the threshold; fronts, rises, falls with default and '
        'explicit arguments, axis -1 and 0; (b2) 2-3 detections in sequence (rises>falls>rises, fronts>rises>falls, ...) on the SAME array object, '
        '1-D and 2-D, every axis, analog (thresholds 1.2 / 2.5 / 0.5 / 3.0 V; float64 / float32 / int traces; TTL-like levels with noise and samples '
        'at / next to the threshold) and digital, each call compared with the model evaluated on the original data; whether a call left its array argument bit-identical is '
        'recorded as a tag only, and every single call that did not is followed up by [same, opposite, same] calls on that object; (c) 2-D arrays r x c (0..7 x 0..9, incl. 1 x n, n x 1, empty) along axis 0, 1, -1, -2, and '
        'decoded (n x 16) sync matrices along axis 0; (d) synthetic recordings in a temp dir: nidq .bin + .meta derived from the nidq '
        'fixture with snsMnMaXaDw = (0..2, 0..2, 0..3, 1), three voltage ranges, analog samples planted at threshold +- 0..2 LSB, '
        'thresholds 1.2 (default) / 0.5 / 2.5 / exactly a sample value, floor percentile on/off, sample slices incl. steps, None and '
        'clipping; imec ap/lf fixtures with every word pattern; read_sync, read_sync_digital and read(...)[1] compared; '
        '(e) TTL trains on a random subset of the 16 lines written into such a recording, read back through read_sync and run through '
        'fronts/rises/falls along axis 0; (a2) arrays of 0..48 samples (lengths 0,1,2,3,15,16,17 always; every word pattern; all 12 array forms) '
        'through split_sync, compared with the model\'s ARRAY pipeline (unpackbits, reshape(size, 16), roll / flip along axis 1 on the flat bit '
        'array); (c2) for 2-D cases the real 2-D answer is also compared with the real 1-D function applied to every row (last axis) / every '
        'column (first axis), same threshold object; (e2) the recordings of (e), uncompressed or through mtscomp with chunks of 2..7 samples, '
        'read WINDOW BY WINDOW through read_sync (each window but the first re-reads one sample; cuts at / next to the event samples, one-sample '
        'windows, empty windows also in front and at the end), fronts / rises / falls per window moved by the position of the first sample read, '
        'compared with the model\'s `chunked` detection and with the single read.  A case is non-trivial when it has at least one event / one non-zero word / one sample; '
        'distinct by the full input')
ASSUMPTIONS = [
    'host is little-endian (the byte view of an int16 word is low byte first); asserted each run',
    'domain: one 16-bit digital word per sample (every imec stream; nidq with snsMnMaXaDw[3] = 1); a nidq stream with two digital words is outside the property',
    'front detection is checked on signed-integer and float NumPy arrays (split_sync / read_sync return int8); unsigned and boolean arrays are outside the property (on the unchanged code np.diff wraps / xors there: uint8 gives polarity 255 and makes rises and falls both return every edge; bool loses the polarity and falls raises TypeError); plain Python lists are not supported by the API (falls(list) raises TypeError: bad operand type for unary -) and are not generated',
    'values, not representations, are compared: result dtypes are not part of the property (split_sync / read_sync results are compared as 0/1 values); NumPy scalar rules decide which threshold value a comparison sees (Python float vs float32 data -> float32(step); np.float64 scalar -> exact; np.float32(1.2) IS 1.2000000477) and model and oracle use that value',
    'integer trains stay far from the dtype limits (no wrap-around in np.diff); int8 is used for 0/1 trains only',
    'analog mode follows the docstring: the line is high when the sample is strictly greater than `step`',
    'the model is a function of the data a caller passes in: results of several calls on one array object are compared with the model of the ORIGINAL values; a modified argument by itself is only tagged (the property does not say inputs are left untouched), its consequence on later results is what counts',
    'float32 traces: NumPy takes a Python-float step as float32 when comparing with a float32 array; model and oracle use float32(step) there. float32 is generated for analog mode and for integer-valued digital trains only (np.diff in float32 is exact there)',
    'read_sync thresholds are positive and floor_percentile is 10 (default) or 0 (off): the code ignores any other value of floor_percentile (always the 10th percentile), which the property does not speak about',
    'np.percentile is an external component: the model receives the values it returned for the selection (float32) and reproduces the float32/float64 arithmetic around it bit for bit',
    'calibration of the analog channels (int16 -> volts) is C01\'s subject; here it is the fixed expression f32(f64(f32(x)) * gain64) with the gains taken from the Reader',
    'window-by-window reading is checked on the 16 digital lines (columns 0..15 of read_sync); analog lines with the percentile floor depend on the '
    'window by design (the floor is the 10th percentile of the samples read) and are not compared across windows',
    'split_sync on arrays: 1-D arrays and (n, 1) columns in the 12 listed representations (what read_sync_digital passes); arrays with several '
    'words per sample are outside the property (one 16-bit word per sample)',
    'excluded input class (known finding read-sync-no-meta, see known_findings): readers opened without meta data. Zero-sample selections (slice(ns, ns+10000), slice(k, k)) ARE generated, on every stream kind, through read_sync and read(sync=True)',
]
TRUSTED = [
    'NumPy: unpackbits/roll/flip/diff/where/percentile semantics are exercised through the real code, not modelled beyond their documented meaning',
    'translator tie: harness/pyfn2lean.py (reads the source text with ast, nothing is executed), the regular expressions of harness/tiespecs/c10.py '
    'that recognise the array operations / comparisons, and the meaning Tie/C10.lean gives to int16, unpack_u8_reshape, roll, flip (evalSplit); '
    'statements the translator does not recognise as calls (subscript assignments, returns) are not part of the translated skeleton',
    'the synthetic recordings are written by the harness (int16 C-order .bin + .meta text derived from the fixtures)',
]
LEVEL_TEXT = ('Lean 4 theorems for every 16-bit word and line (bit layout, by index arithmetic) and for every ARRAY of samples of every length '
              '(the source\'s array pipeline int16 / byte view / unpackbits / reshape(size, 16) / roll 8 / flip: row t of the result is the '
              'decoded word of sample t); for every list / list of rows over Int and over every linearly ordered commutative ring (Z, Q, R), '
              'every step and both axes (fronts/rises/falls return exactly the change points, ascending, each once, with polarity; analog mode = '
              'the threshold crossings, one front per crossing, never a rise and a fall); 2-D detection = the 1-D detection on every row (list '
              'equality) / every column (same events); detection window by window (any window sizes, each window re-reading one sample) = '
              'detection on the whole trace, 1-D and on sync matrices, also through read_sync of an imec stream; for every recording with the '
              'announced width (read_sync layout: one row per sample, 16 digital lines then thresholded analog lines) and for every family of '
              '16 binary trains of every length (written into the sync channel, read back, front detection recovers each train\'s change '
              'points).  Two ties to the code on every run: (1) translator tie: the operation list of split_sync, the element-wise decisions and '
              'the index offset of fronts / rises, the type decision table and the meta entries giving the channel counts are re-translated from '
              'the current source and proved equal to the model (11 theorems); (2) exact differential run incl. all 65 536 words, arrays through '
              'the array pipeline, real synthetic recordings read at once and window by window')
LEVEL_NOTE = ('trusted: Lean kernel (+ Mathlib order lemmas for the ordered-ring statements), the Python correspondence harness, little-endian '
              'host, np.percentile (parameter of the model), the int16->volt calibration expression (C01), the translator harness/pyfn2lean.py '
              'and the NumPy meaning given to the five array operations in Tie/C10.lean (evalSplit). partial: (a) the float32 thresholding of '
              'read_sync is executed bit-exactly by the model; threshold_spec_linear proves the binarisation for every linear order (the order of '
              'non-NaN float32 values is one, which is not proved in Lean about Lean\'s Float32); (b) the ordered-ring theorems are about exact '
              'arithmetic: in analog mode the code is exact on floats (comparisons, 0/1 values), in digital mode np.diff on non-integer floats '
              'rounds and is only run, not proved; (c) the translator tie does not reach utils.falls (negation in a return statement), the '
              'return expressions list(range(..)) of the meta index functions and Reader.read_sync (masked assignments, percentile floor, '
              'concatenation order): these are tied by the correspondence run only; (d) window independence does not hold (and is not claimed) '
              'for analog lines with the percentile floor, which is taken per read')
TECHNIQUE = ('Lean 4 proofs by list induction / index arithmetic (omega, simp, linarith); 16-way case split on the line index for the bit layout; '
             'reshape index arithmetic by induction on the array; seam lemma + induction over windows; source-to-Lean translator tie '
             '(harness/tiespecs/c10.py, lean/IblVerif/Tie/C10.lean); exact correspondence run (bit-exact floats)')

FIX = None  # set in _fixtures()


# ---------------------------------------------------------------------------------------------
# small helpers
# ---------------------------------------------------------------------------------------------
def _f64bits(x):
    return struct.unpack('<Q', struct.pack('<d', float(x)))[0]


def _f32bits(x):
    return struct.unpack('<I', struct.pack('<f', float(np.float32(x))))[0]


def _lst(xs):
    xs = list(xs)
    return ','.join(str(int(v)) for v in xs) if xs else '-'


def _pol(v):
    """polarity of a front: the property speaks about the direction of the change, not its size"""
    v = float(v)
    return '1' if v > 0 else '-1' if v < 0 else '0'


def _canon_model_fronts(ans, is_float, two_d):
    """Driver answers carry the signed step (what the code returns); reduce it to the polarity."""
    dec = (lambda t: struct.unpack('<d', struct.pack('<Q', int(t)))[0]) if is_float else int
    if not ans.startswith('ok'):
        return ans
    if two_d:
        body = ans[3:]
        if body == '-':
            return ans
        return 'ok ' + ';'.join(','.join(q.split(',')[:2] + [_pol(dec(q.split(',')[2]))]) for q in body.split(';'))
    head, sg = ans.rsplit(' sign=', 1)
    if sg == '-':
        return ans
    return head + ' sign=' + ','.join(_pol(dec(t)) for t in sg.split(','))


def _np_array(x, dtype, shape=None, form=None):
    """The array a caller would hold: the VALUES x in the memory layout named by the form (same values in every layout)."""
    a = np.array(x, dtype=dtype)
    if shape is not None:
        a = a.reshape(shape)
    lay = (form or {}).get('layout', 'C')
    if lay == 'F' and a.ndim == 2:
        a = np.asfortranarray(a)
    elif lay == 'T' and a.ndim == 2:            # transposed view of the C-contiguous transpose
        a = np.ascontiguousarray(a.T).T
    elif lay == 'strided':                      # every second element of a larger buffer (gaps hold a sentinel)
        big = np.full(tuple(2 * k for k in a.shape), 7, dtype=a.dtype)
        sel = tuple(slice(None, None, 2) for _ in a.shape)
        big[sel] = a
        a = big[sel]
    elif lay == 'negstride':                    # view with a negative stride along the first axis
        a = np.ascontiguousarray(a[::-1])[::-1]
    elif lay == 'readonly':
        a.setflags(write=False)
    return a


def _step_obj(step, form):
    """The object passed as `step`: Python int/float, or a NumPy scalar of the type named by the form."""
    t = (form or {}).get('step_type', 'py')
    if t == 'py':
        return step
    if t == 'pyfloat':
        return float(step)
    return getattr(np, t)(step)


def _axis_obj(axis, form):
    return np.int64(axis) if (form or {}).get('axis_type') == 'np.int64' else axis


def _draw_form(rng, ndim, dtype, steps, fns):
    """A representation drawn independently of the values: memory layout, call spelling, type of step / axis."""
    lay = str(rng.choice(['C', 'strided', 'negstride', 'readonly'] if ndim == 1 else ['C', 'F', 'T', 'strided', 'negstride', 'readonly']))
    sp = str(rng.choice(['kw', 'pos', 'mixed']))
    integral = all(float(st).is_integer() and abs(st) < 100 for st in steps)
    types = ['py', 'float64', 'float32', 'pyfloat']
    if integral:
        types += ['int64', 'int16', 'int8']
        if 'falls' not in fns and all(st >= 0 for st in steps):
            types.append('uint8')
    return {'layout': lay, 'spelling': sp, 'step_type': str(rng.choice(types)), 'axis_type': str(rng.choice(['py', 'np.int64']))}


def _form_tags(form, prefix='form'):
    if not form:
        return (prefix + ':plain',)
    return tuple(f'{prefix}:{k}={v}' for k, v in sorted(form.items()))


def _is_float(dtype):
    return np.dtype(dtype).kind == 'f'


# ---------------------------------------------------------------------------------------------
# real code, canonical answers (same text as the driver prints)
# ---------------------------------------------------------------------------------------------
def _spell_front(base, axis, step, analog, default_args, form):
    """(args, kwargs, text) of the call as the form spells it: keywords, positional in the signature order, or mixed."""
    if default_args:
        return (), {}, f'{base}(x)'
    sp = (form or {}).get('spelling', 'kw')
    ax, st = _axis_obj(axis, form), _step_obj(step, form)
    tn = type(st).__name__
    if sp == 'pos':
        if base == 'fronts':
            return (ax, st), {}, f'fronts(x, {axis}, {tn}({step}))'
        return (ax, st, analog), {}, f'{base}(x, {axis}, {tn}({step}), {analog})'
    if sp == 'mixed':
        if base == 'fronts':
            return (ax,), {'step': st}, f'fronts(x, {axis}, step={tn}({step}))'
        return (ax,), {'step': st, 'analog': analog}, f'{base}(x, {axis}, step={tn}({step}), analog={analog})'
    if base == 'fronts':
        return (), {'axis': ax, 'step': st}, f'fronts(x, axis={axis}, step={tn}({step}))'
    return (), {'axis': ax, 'step': st, 'analog': analog}, f'{base}(x, axis={axis}, step={tn}({step}), analog={analog})'


def _call_front(base, a, axis, step, analog, default_args, form):
    from ibldsp import utils
    fn = {'fronts': utils.fronts, 'rises': utils.rises, 'falls': utils.falls}[base]
    args, kw, text = _spell_front(base, axis, step, analog, default_args, form)
    return fn(a, *args, **kw), text


def _impl_front_op(op, a, axis, step, analog, default_args=False, form=None):
    """The real code on the array object `a` (NOT a copy).  Returns (answer, argument was modified by the call); the second
    part is informational only (a tag, and a reason to follow up with more calls on the same object), never a disagreement."""
    before = a.tobytes()
    res = _impl_front_op_raw(op, a, axis, step, analog, default_args, form)
    return res, a.tobytes() != before


def _impl_front_op_raw(op, a, axis, step, analog, default_args=False, form=None):
    """op in fronts1/rises1/falls1/fronts2/rises2/falls2 on the real code."""
    try:
        with warnings.catch_warnings():
            warnings.simplefilter('ignore')
            if op.startswith('fronts'):
                (ind, sign), _ = _call_front('fronts', a, axis, step, analog, default_args, form)
                if a.ndim == 1:
                    assert ind.ndim == 1 and sign.ndim == 1 and len(ind) == len(sign)
                    return 'ok ind=' + _lst(ind) + ' sign=' + (','.join(_pol(s) for s in sign) or '-')
                assert ind.ndim == 2 and ind.shape[0] == 2 and ind.shape[1] == len(sign)
                return 'ok ' + (';'.join(f'{int(i)},{int(j)},{_pol(s)}' for i, j, s in zip(ind[0], ind[1], sign)) or '-')
            ind, _ = _call_front(op[:-1], a, axis, step, analog, default_args, form)
            if a.ndim == 1:
                assert ind.ndim == 1
                return 'ok ' + _lst(ind)
            assert ind.ndim == 2 and ind.shape[0] == 2
            return 'ok ' + (';'.join(f'{int(i)},{int(j)}' for i, j in zip(ind[0], ind[1])) or '-')
    except Exception as e:  # noqa
        return f'err {type(e).__name__}'


def _step_as_seen(dtype, step, form=None):
    """The mathematical value of the threshold the comparison uses.  NumPy's scalar rules: a NumPy scalar keeps its own
    value (np.float32(1.2) IS 1.2000000477); a Python number compared with a float32 array is taken as float32."""
    obj = _step_obj(step, form)
    if isinstance(obj, np.generic):
        return obj.item()
    if np.dtype(dtype) == np.float32:
        return float(np.float32(obj))
    return obj


def _model_is_float(dtype, step, form=None):
    """The model runs over Float when the data are floats or the threshold is not an integer, else over Int."""
    return _is_float(dtype) or not float(_step_as_seen(dtype, step, form)).is_integer()


def _line_front_op(op, a, axis, step, analog, form=None):
    isf = _model_is_float(a.dtype, step, form)
    ty = 'f' if isf else 'i'
    seen = _step_as_seen(a.dtype, step, form)
    st = _f64bits(seen) if isf else int(seen)
    flat = a.reshape(-1)
    xs = (','.join(str(_f64bits(v)) for v in flat) if isf else ','.join(str(int(v)) for v in flat)) or '-'
    if a.ndim == 1:
        return f'{op} {ty} {axis} {st} {int(analog)} {xs}'
    return f'{op} {ty} {axis} {a.shape[0]} {a.shape[1]} {st} {int(analog)} {xs}'


# ---------------------------------------------------------------------------------------------
# synthetic recordings
# ---------------------------------------------------------------------------------------------
def _fixtures():
    global FIX
    if FIX is None:
        import spikeglx
        FIX = Path(spikeglx.__file__).resolve().parent / 'tests' / 'fixtures'
    return FIX


IMEC_FIXTURES = ['sample3B_g0_t0.imec1.ap.meta', 'sample3B_g0_t0.imec1.lf.meta', 'sampleNP2.1_g0_t0.imec.ap.meta',
                 'sampleNP2.4_4shanks_g0_t0.imec.ap.meta', 'sample3A_376_channels.ap.meta', 'sampleNPultra_g0_t0.imec0.ap.meta']


def _secs(x):
    """positional decimal text that float() reads back exactly (the meta reader does not parse exponents)"""
    t = np.format_float_positional(x, unique=True, trim='0')
    assert float(t) == x
    return t


def _meta_edit(text, repl):
    out = []
    for line in text.splitlines():
        k = line.split('=', 1)[0]
        if k in repl:
            line = f'{k}={repl[k]}'
        out.append(line)
    return '\n'.join(out) + '\n'


def _write_nidq(tdir, D, cfg, rmax):
    """D: (ns, nc) int16; cfg = (mn, ma, xa, dw) with sum = nc."""
    ns, nc = D.shape
    src = (_fixtures() / 'sample3B_g0_t0.nidq.meta').read_text()
    fs = 30003.0003
    cs = ','.join(str(int(c)) for c in cfg)
    txt = _meta_edit(src, {'fileSizeBytes': ns * nc * 2, 'fileTimeSecs': _secs(ns / fs), 'nSavedChans': nc,
                           'snsMnMaXaDw': cs, 'acqMnMaXaDw': cs, 'niAiRangeMax': rmax, 'niAiRangeMin': -rmax})
    b = Path(tdir) / 'c10_g0_t0.nidq.bin'
    b.with_suffix('.meta').write_text(txt)
    np.ascontiguousarray(D, dtype=np.int16).tofile(b)
    return b


def _write_imec(tdir, D, fixture):
    import spikeglx
    ns, nc = D.shape
    src = (_fixtures() / fixture).read_text()
    md = spikeglx.read_meta_data(_fixtures() / fixture)
    fs = float(md['imSampRate'])
    assert int(md['nSavedChans']) == nc
    txt = _meta_edit(src, {'fileSizeBytes': ns * nc * 2, 'fileTimeSecs': _secs(ns / fs)})
    band = 'lf' if '.lf.' in fixture else 'ap'
    b = Path(tdir) / f'c10_g0_t0.imec0.{band}.bin'
    b.with_suffix('.meta').write_text(txt)
    np.ascontiguousarray(D, dtype=np.int16).tofile(b)
    return b


def _imec_shape(fixture):
    import spikeglx
    md = spikeglx.read_meta_data(_fixtures() / fixture)
    s = [int(v) for v in md['snsApLfSy']]
    return int(md['nSavedChans']), s


def _build_D(case):
    """Rebuild the raw int16 array of a recording case from its description."""
    if case['stream'] == 'nidq':
        nc = sum(case['cfg'])
        return np.array(case['D'], dtype=np.int16).reshape(case['ns'], nc)
    nc, _ = _imec_shape(case['fixture'])
    rng = np.random.default_rng([77, int(case['fill_seed'])])
    D = rng.integers(-32768, 32768, size=(case['ns'], nc)).astype(np.int16)
    D[:, -1] = np.array(case['sync'], dtype=np.int64).astype(np.int16)
    return D


def _open_case(case, tdir):
    import spikeglx
    D = _build_D(case)
    if case['stream'] == 'nidq':
        b = _write_nidq(tdir, D, case['cfg'], case['rmax'])
    else:
        b = _write_imec(tdir, D, case['fixture'])
    import logging
    logging.getLogger('ibllib').setLevel(logging.ERROR)
    logging.getLogger('spikeglx').setLevel(logging.ERROR)
    if case.get('backend') == 'cbin':
        # the compressed backend: same recording through mtscomp, chunks of a few samples so that selections straddle them
        import mtscomp
        fs = float(spikeglx._get_fs_from_meta(spikeglx.read_meta_data(b.with_suffix('.meta'))))
        cb = b.with_suffix('.cbin')
        mtscomp.compress(b, cb, b.with_suffix('.ch'), sample_rate=fs, n_channels=D.shape[1], dtype=np.int16,
                         chunk_duration=int(case.get('chunk', 5)) / fs, check_after_compress=False, n_threads=1, quiet=True)
        b.unlink()
        b = cb
    return D, spikeglx.Reader(str(b) if (case.get('form') or {}).get('path') == 'str' else b)


def _slice_of(case):
    """The slice object handed to the reader; its bounds are Python ints or NumPy ints, as the form says."""
    a, b, c = case['slice']
    t = (case.get('form') or {}).get('slice_ints', 'py')
    if t != 'py':
        cv = getattr(np, t)
        a, b, c = [None if v is None else cv(v) for v in (a, b, c)]
    return slice(a, b, c)


def _py_slice(case):
    a, b, c = case['slice']
    return slice(a, b, c)


def _thr_obj(case):
    t = (case.get('form') or {}).get('thr_type', 'py')
    return case['thr'] if t == 'py' else getattr(np, t)(case['thr'])


def _thr_seen32(obj):
    """The float32 value `analog < threshold` / `analog >= threshold` effectively compares the float32 samples with.
    Python float and np.float32: rounded to float32 (NumPy's scalar rule).  np.float64: the comparison runs in float64,
    which for float32 samples is the comparison with the smallest float32 >= threshold."""
    t32 = np.float32(obj)
    if isinstance(obj, np.float64) and float(t32) < float(obj):
        t32 = np.nextafter(t32, np.float32(np.inf))
    return t32


def _call_read_sync(sr, sl, case):
    """read_sync spelled as the form says: keywords, or positional in the signature order (_slice, threshold, floor_percentile)."""
    if case.get('default_args'):
        return sr.read_sync(sl)
    form = case.get('form') or {}
    thr = _thr_obj(case)
    floor = np.int64(case['floor']) if form.get('floor_type') == 'np.int64' else case['floor']
    if form.get('spelling') == 'pos':
        return sr.read_sync(sl, thr, floor)
    return sr.read_sync(sl, threshold=thr, floor_percentile=floor)


def _draw_read_form(rng):
    return {'slice_ints': str(rng.choice(['py', 'int64', 'int32'])), 'spelling': str(rng.choice(['kw', 'pos'])),
            'thr_type': str(rng.choice(['py', 'float64', 'float32'])), 'floor_type': str(rng.choice(['py', 'np.int64'])),
            'path': str(rng.choice(['Path', 'str']))}


def _rows_str(m):
    m = np.asarray(m)
    assert m.ndim == 2
    vals = set(np.unique(m).tolist())
    if not vals <= {0, 1}:
        return f'ok n={m.shape[0]} non-binary values {sorted(vals)[:6]}'
    return f'ok n={m.shape[0]} ' + (';'.join(''.join(str(int(v)) for v in r) for r in m) or '-')


def _impl_readsync(case, tdir):
    """Returns (impl answers dict, lean line).  The lean line carries what the external parts returned (gains, percentile)."""
    D, sr = _open_case(case, tdir)
    try:
        sl = _slice_of(case)
        with warnings.catch_warnings():
            warnings.simplefilter('ignore')
            try:
                out = _call_read_sync(sr, sl, case)
                full = _rows_str(out)
            except Exception as e:  # noqa
                full = f'err {type(e).__name__}'
            try:
                dig = _rows_str(sr.read_sync_digital(sl))
            except Exception as e:  # noqa
                dig = f'err {type(e).__name__}'
            via_read = None
            if case.get('default_args'):
                try:
                    via_read = _rows_str((sr.read(sl) if (case.get('form') or {}).get('spelling') == 'pos' else sr.read(nsel=sl))[1])
                except Exception as e:  # noqa
                    via_read = f'err {type(e).__name__}'
            # external parts handed to the model
            gains = np.asarray(sr.channel_conversion_sample2v[sr.type], dtype=np.float64)
            pct = '-'
            thr = _thr_seen32(_thr_obj(case)) if not case.get('default_args') else np.float32(1.2)
            floor = case['floor'] if not case.get('default_args') else 10
            an = sr.read_sync_analog(sl)
            if an is not None and floor:
                try:
                    p = np.percentile(an, 10, axis=0)
                    assert p.dtype == np.float32
                    pct = ','.join(str(_f32bits(v)) for v in p) or '-'
                except Exception:  # noqa
                    pct = 'E'
        rows = D[_py_slice(case)]
        if case['stream'] == 'nidq':
            st = 'nidq ' + ' '.join(str(int(c)) for c in case['cfg'])
        else:
            _, s = _imec_shape(case['fixture'])
            st = f'imec {s[0]} {s[1]} {s[2]} 0'
        line = (f'readsync {st} {D.shape[1]} {_f32bits(thr)} {1 if floor else 0} '
                + ','.join(str(_f64bits(g)) for g in gains) + f' {pct} {rows.shape[0]} ' + _lst(rows.reshape(-1)))
        dline = f'readsyncdigital {st} {D.shape[1]} {rows.shape[0]} ' + _lst(rows.reshape(-1))
        return {'full': full, 'digital': dig, 'via_read': via_read}, (line, dline)
    finally:
        sr.close()


# ---------------------------------------------------------------------------------------------
# generators
# ---------------------------------------------------------------------------------------------
def _gen_binary_train(rng, n):
    kind = int(rng.integers(0, 7))
    if n == 0:
        return []
    if kind == 0:
        return [int(rng.integers(0, 2))] * n
    if kind == 1:
        s = int(rng.integers(0, 2))
        return [(s + i) % 2 for i in range(n)]
    if kind == 2:      # one pulse, possibly touching the ends
        a = int(rng.integers(0, n)); b = int(rng.integers(a, n + 1))
        return [1 if a <= i < b else 0 for i in range(n)]
    if kind == 3:      # event on the second / last sample
        x = [0] * n
        if n > 1:
            x[1 if rng.random() < 0.5 else n - 1] = 1
        if rng.random() < 0.5:
            x = [1 - v for v in x]
        return x
    p = [0.05, 0.2, 0.5][kind - 4]
    x = [int(rng.integers(0, 2))]
    for _ in range(n - 1):
        x.append(1 - x[-1] if rng.random() < p else x[-1])
    return x


def _gen_len(rng, nmax=48):
    r = rng.random()
    if r < 0.25:
        return int(rng.integers(0, 4))
    if r < 0.6:
        return int(rng.integers(4, 13))
    return int(rng.integers(13, nmax + 1))


def _gen_1d_cases(ctx, count):
    rng = ctx.rng
    out = []
    for _ in range(count):
        n = _gen_len(rng)
        kind = int(rng.integers(0, 10))
        axis = int(rng.choice([-1, 0]))
        if kind <= 3:      # 0/1 trains
            x = _gen_binary_train(rng, n)
            dtype = str(rng.choice(['int8', 'int8', 'int16', 'int32', 'int64', 'float64', 'float32']))
            default = bool(rng.random() < 0.5)
            for op, step in (('fronts1', 1), ('rises1', 1), ('falls1', -1)):
                out.append(dict(op=op, x=x, dtype=dtype, axis=-1 if default else axis, step=step, analog=False,
                                default_args=default, cls='binary'))
        elif kind <= 6:    # multi-level trains, step thresholds
            lv = int(rng.integers(2, 6))
            x = [int(v) for v in rng.integers(-lv, lv + 1, size=n)]
            if n and rng.random() < 0.5:   # piecewise constant
                x = [x[i - i % int(rng.integers(1, 4))] for i in range(n)]
            dtype = str(rng.choice(['int16', 'int32', 'int64', 'float64', 'float32']))
            step = int(rng.integers(1, 2 * lv + 2))
            if dtype == 'float64' and rng.random() < 0.4:
                step = step - 0.5
            out.append(dict(op='fronts1', x=x, dtype=dtype, axis=axis, step=step, analog=False, default_args=False, cls='levels'))
            out.append(dict(op='rises1', x=x, dtype=dtype, axis=axis, step=step, analog=False, default_args=False, cls='levels'))
            out.append(dict(op='falls1', x=x, dtype=dtype, axis=axis, step=-step, analog=False, default_args=False, cls='levels'))
        else:              # analog traces around the threshold
            if rng.random() < 0.6:
                thr = float(rng.choice([1.2, 3.0, 0.5, 2.5, -1.0, 1.3]))
                dtype = 'float64' if rng.random() < 0.7 else 'float32'
                t = np.dtype(dtype).type
                tt = t(thr)
                if rng.random() < 0.5:
                    pool = [np.nextafter(tt, t(-10)), tt, np.nextafter(tt, t(10)), t(thr - 3.0), t(thr + 3.0), t(0.0)]
                else:
                    pool = [t(thr - 0.25), tt, t(thr + 0.25), t(thr - 3.0), t(thr + 3.0), t(0.0)]
                x = [float(pool[int(i)]) for i in rng.integers(0, len(pool), size=n)]
            else:
                thr = int(rng.integers(-3, 4))
                x = [int(v) for v in rng.integers(thr - 2, thr + 3, size=n)]
                dtype = str(rng.choice(['int64', 'int16']))
                if rng.random() < 0.3:      # raw integer trace, threshold between two levels
                    thr = thr + 0.5
            out.append(dict(op='rises1', x=x, dtype=dtype, axis=axis, step=thr, analog=True, default_args=False, cls='analog'))
            out.append(dict(op='falls1', x=x, dtype=dtype, axis=axis, step=thr, analog=True, default_args=False, cls='analog'))
    return out


def _gen_2d_cases(ctx, count):
    rng = ctx.rng
    out = []
    for _ in range(count):
        r = int(rng.integers(0, 8)); c = int(rng.integers(0, 10))
        if rng.random() < 0.15:
            r, c = (1, c) if rng.random() < 0.5 else (r, 1)
        axis = int(rng.choice([0, 1, -1, -2]))
        kind = int(rng.integers(0, 10))
        if kind <= 4:
            cols = [_gen_binary_train(rng, r) for _ in range(c)] if axis in (0, -2) else None
            if cols is not None:
                x = [[cols[j][i] for j in range(c)] for i in range(r)]
            else:
                x = [_gen_binary_train(rng, c) for _ in range(r)]
            dtype = str(rng.choice(['int8', 'int8', 'int32', 'float64']))
            for op, step in (('fronts2', 1), ('rises2', 1), ('falls2', -1)):
                out.append(dict(op=op, shape=[r, c], x=[v for row in x for v in row], dtype=dtype, axis=axis, step=step,
                                analog=False, default_args=False, cls='binary'))
        elif kind <= 7:
            lv = int(rng.integers(2, 5))
            x = [int(v) for v in rng.integers(-lv, lv + 1, size=r * c)]
            dtype = str(rng.choice(['int16', 'int64', 'float64']))
            step = int(rng.integers(1, 2 * lv + 1))
            out.append(dict(op='fronts2', shape=[r, c], x=x, dtype=dtype, axis=axis, step=step, analog=False, default_args=False, cls='levels'))
            out.append(dict(op='rises2', shape=[r, c], x=x, dtype=dtype, axis=axis, step=step, analog=False, default_args=False, cls='levels'))
            out.append(dict(op='falls2', shape=[r, c], x=x, dtype=dtype, axis=axis, step=-step, analog=False, default_args=False, cls='levels'))
        else:
            thr = float(rng.choice([1.2, 3.0, 0.5]))
            pool = [thr - 0.25, thr, thr + 0.25, float(np.nextafter(thr, 10)), float(np.nextafter(thr, -10)), 0.0, thr + 2]
            x = [float(pool[int(i)]) for i in rng.integers(0, len(pool), size=r * c)]
            out.append(dict(op='rises2', shape=[r, c], x=x, dtype='float64', axis=axis, step=thr, analog=True, default_args=False, cls='analog'))
            out.append(dict(op='falls2', shape=[r, c], x=x, dtype='float64', axis=axis, step=thr, analog=True, default_args=False, cls='analog'))
    return out


def _gen_seq_cases(ctx, count):
    """Two or three detections in sequence on the SAME array object (state carried through the argument)."""
    rng = ctx.rng
    out = []
    for _ in range(count):
        two_d = rng.random() < 0.4
        analog = rng.random() < 0.6
        if two_d:
            r = int(rng.integers(1, 7)); c = int(rng.integers(1, 9))
            shape = [r, c]; n = r * c
            axes = [0, 1, -1, -2]
        else:
            n = _gen_len(rng, 32); shape = None
            axes = [-1, 0]
        if analog:
            dtype = str(rng.choice(['float64', 'float64', 'float64', 'float32', 'int64', 'int16']))
            if dtype.startswith('float'):
                thr = float(rng.choice([1.2, 2.5, 1.2, 2.5, 0.5, 3.0]))
                t = np.dtype(dtype).type
                if rng.random() < 0.5:      # TTL-like voltages with noise
                    lv = rng.choice([0.0, 3.3, 5.0], size=n) + rng.normal(0, 0.05, size=n)
                    x = [float(t(v)) for v in lv]
                else:                       # samples at / next to the threshold
                    tt = t(thr)
                    pool = [tt, np.nextafter(tt, t(10)), np.nextafter(tt, t(-10)), t(0.0), t(thr + 2), t(thr - 0.25), t(thr + 0.25), t(5.0)]
                    x = [float(pool[int(i)]) for i in rng.integers(0, len(pool), size=n)]
            else:
                thr = int(rng.integers(1, 4))
                x = [int(v) for v in rng.integers(thr - 2, thr + 4, size=n)]
            mk = lambda fn: dict(fn=fn, step=thr, analog=fn != 'fronts')        # noqa
        else:
            dtype = str(rng.choice(['int8', 'int8', 'int32', 'float64', 'float32']))
            if rng.random() < 0.6 or dtype == 'int8':
                x = [int(v) for v in (np.array(_gen_binary_train(rng, n)) if n else [])]
                s0 = 1
            else:
                lv = int(rng.integers(2, 5))
                x = [int(v) for v in rng.integers(-lv, lv + 1, size=n)]
                s0 = int(rng.integers(1, 2 * lv + 1))
            if dtype.startswith('float'):
                x = [float(v) for v in x]
            mk = lambda fn: dict(fn=fn, step=(-s0 if fn == 'falls' else s0), analog=False)   # noqa
        pat = int(rng.integers(0, 6))
        fns = [('rises', 'falls', 'rises'), ('rises', 'falls'), ('falls', 'rises'), ('rises', 'rises'), ('fronts', 'rises', 'falls'),
               tuple(str(v) for v in rng.choice(['rises', 'falls', 'fronts'], size=3))][pat]
        ax0 = int(rng.choice(axes))
        calls = []
        for fn in fns:
            cl = mk(fn)
            cl['axis'] = ax0 if rng.random() < 0.7 else int(rng.choice(axes))
            calls.append(cl)
        case = dict(op='seq', x=x, dtype=dtype, calls=calls)
        if shape:
            case['shape'] = shape
        out.append(case)
    return out


def _gen_slice(rng, ns):
    k = int(rng.integers(0, 9))
    if k == 8:                           # zero samples selected (past the end, or an empty range)
        a = int(rng.integers(0, ns + 1))
        return [ns, ns + 10000, None] if rng.random() < 0.5 else [a, a, None]
    if k == 0:
        return [0, 10000, None]          # the default, clipped
    if k == 1:
        return [None, None, None]
    if k == 2:
        a = int(rng.integers(0, ns)); return [a, None, None]
    if k == 3:
        a = int(rng.integers(0, ns)); b = int(rng.integers(a + 1, ns + 1)); return [a, b, int(rng.integers(2, 4))]
    if k == 4:      # end-relative bounds: negative start, negative stop, both
        u = rng.random()
        if u < 0.4:
            return [-int(rng.integers(1, ns + 1)), None, None]
        if u < 0.7:
            return [None if rng.random() < 0.5 else int(rng.integers(0, ns)), -int(rng.integers(1, ns + 1)), None]
        a = int(rng.integers(1, ns + 1))
        return [-a, -int(rng.integers(0, a)) or None, None]
    a = int(rng.integers(0, ns)); b = int(rng.integers(a + 1, ns + 1))
    return [a, b, None]


def _gen_words(rng, n):
    """Sync words with all kinds of patterns (as int16 values)."""
    kind = int(rng.integers(0, 5))
    if kind == 0:
        w = rng.integers(0, 65536, size=n)
    elif kind == 1:
        w = 1 << rng.integers(0, 16, size=n)
    elif kind == 2:
        w = 65535 ^ (1 << rng.integers(0, 16, size=n))
    elif kind == 3:
        w = rng.choice([0, 0xFFFF, 0x8000, 0x7FFF, 0x00FF, 0xFF00, 0x0100, 0x0080, 0x5555, 0xAAAA], size=n)
    else:
        w = np.cumsum(rng.integers(0, 3, size=n)) % 65536
    w = np.asarray(w, dtype=np.int64)
    return [int(v) - 65536 if v >= 32768 else int(v) for v in w]


def _gen_nidq_case(rng, default_args=False):
    mn, ma, xa = int(rng.integers(0, 3)), int(rng.integers(0, 3)), int(rng.integers(0, 4))
    cfg = [mn, ma, xa, 1]
    nc = sum(cfg)
    ns = int(rng.choice([1, 2, 3, 5, 8, 13, 21, 40]))
    rmax = [5, 2.5, 10][int(rng.integers(0, 3))]
    if default_args:
        thr, floor = 1.2, 10
    else:
        thr = float(rng.choice([1.2, 0.5, 2.5, 1.0, 1.3, 0.7]))
        floor = int(rng.choice([10, 10, 0]))
    D = rng.integers(-32768, 32768, size=(ns, nc)).astype(np.int64)
    lsb = rmax / 32768
    t_raw = int(round(thr / lsb))
    for j in range(xa):
        c = mn + ma + j
        mode = int(rng.integers(0, 4))
        base = int(rng.integers(-200, 200)) if floor else 0
        if mode == 0:      # TTL-like analog: low / high levels
            hi = min(32767, int(round(3.3 / lsb)))
            D[:, c] = base + hi * np.array(_gen_binary_train(rng, ns), dtype=np.int64)
        elif mode == 1:    # samples at threshold +- a few LSB above the floor
            D[:, c] = base + t_raw + rng.integers(-2, 3, size=ns)
            if ns > 2:
                D[rng.integers(0, ns, size=max(1, ns // 3)), c] = base   # make the 10th percentile the base
        elif mode == 2:
            D[:, c] = base + rng.integers(0, 2 * t_raw + 2, size=ns)
        D[:, c] = np.clip(D[:, c], -32768, 32767)
    D[:, -1] = _gen_words(rng, ns)
    case = dict(op='readsync', stream='nidq', cfg=cfg, ns=ns, rmax=rmax, thr=thr, floor=floor, slice=_gen_slice(rng, ns),
                default_args=default_args, D=[int(v) for v in D.reshape(-1)])
    if rng.random() < 0.6:
        case['form'] = _draw_read_form(rng)
    if (not default_args) and xa and not floor and rng.random() < 0.5:
        # threshold exactly equal to the calibrated value of one sample
        c = mn + ma + int(rng.integers(0, xa))
        v = float(np.float32(np.float64(np.float32(D[int(rng.integers(0, ns)), c])) * (rmax / 32768)))
        if v > 0:
            case['thr'] = v
            case['thr_is_sample'] = True
    return case


def _gen_imec_case(rng, default_args=True):
    fixture = IMEC_FIXTURES[int(rng.integers(0, len(IMEC_FIXTURES)))]
    ns = int(rng.choice([1, 2, 3, 7, 16, 33]))
    case = dict(op='readsync', stream='imec', fixture=fixture, ns=ns, sync=_gen_words(rng, ns), fill_seed=int(rng.integers(0, 2 ** 31)),
                slice=_gen_slice(rng, ns), default_args=default_args, thr=1.2, floor=10)
    if rng.random() < 0.6:
        case['form'] = _draw_read_form(rng)
    return case


def _selection_empty(case):
    a, b, c = case['slice']
    return len(range(*slice(a, b, c).indices(case['ns']))) == 0


def _gen_ttl_case(rng):
    n = int(rng.choice([1, 2, 3, 5, 9, 17, 40, 64]))
    nl = int(rng.choice([0, 1, 1, 2, 3, 8, 16]))
    lines = sorted(int(v) for v in rng.choice(16, size=nl, replace=False))
    trains = {}
    for k in range(16):
        if k in lines:
            trains[k] = ''.join(str(v) for v in _gen_binary_train(rng, n))
        else:
            trains[k] = ('1' if rng.random() < 0.15 else '0') * n
    stream = 'nidq' if rng.random() < 0.5 else 'imec'
    case = dict(op='ttl', stream=stream, n=n, trains=[trains[k] for k in range(16)], lines=lines)
    if stream == 'nidq':
        case['cfg'] = [int(rng.integers(0, 2)), 0, int(rng.integers(0, 3)), 1]
        case['fill_seed'] = int(rng.integers(0, 2 ** 31))
    else:
        case['fixture'] = IMEC_FIXTURES[int(rng.integers(0, len(IMEC_FIXTURES)))]
        case['fill_seed'] = int(rng.integers(0, 2 ** 31))
    return case


def _ttl_words(case):
    n = case['n']
    w = [sum((1 << k) for k in range(16) if case['trains'][k][t] == '1') for t in range(n)]
    return [v - 65536 if v >= 32768 else v for v in w]


def _ttl_recording(case):
    """The recording case (for _open_case) that carries the trains in its sync channel."""
    words = _ttl_words(case)
    if case['stream'] == 'imec':
        return dict(stream='imec', fixture=case['fixture'], ns=case['n'], sync=words, fill_seed=case['fill_seed'])
    cfg = case['cfg']
    nc = sum(cfg)
    rng = np.random.default_rng([78, int(case['fill_seed'])])
    D = rng.integers(-3000, 3000, size=(case['n'], nc)).astype(np.int64)
    D[:, -1] = words
    return dict(stream='nidq', cfg=cfg, ns=case['n'], rmax=5, D=[int(v) for v in D.reshape(-1)])


def _impl_ttl(case, tdir):
    from ibldsp import utils
    D, sr = _open_case(_ttl_recording(case), tdir)
    try:
        with warnings.catch_warnings():
            warnings.simplefilter('ignore')
            sync = sr.read_sync(slice(0, case['n']))
        dig = sync[:, :16]
        dig0 = dig.copy()
        ind, sign = utils.fronts(dig, axis=0)     # three detections on the same decoded matrix
        r = utils.rises(dig, axis=0)
        f = utils.falls(dig, axis=0)
        touched = dig.tobytes() != dig0.tobytes()
        # the same, line by line (1-D use)
        per_line_ok = True
        for k in range(16):
            i1, s1 = utils.fronts(dig[:, k])
            sel = ind[1] == k
            per_line_ok &= (i1.tolist() == ind[0][sel].tolist() and s1.tolist() == sign[sel].tolist())
        ans = ('ok fronts=' + (';'.join(f'{int(i)},{int(j)},{int(s)}' for i, j, s in zip(ind[0], ind[1], sign)) or '-')
               + ' rises=' + (';'.join(f'{int(i)},{int(j)}' for i, j in zip(r[0], r[1])) or '-')
               + ' falls=' + (';'.join(f'{int(i)},{int(j)}' for i, j in zip(f[0], f[1])) or '-'))
        return ans, bool(per_line_ok), ('touched' if touched else sync.shape)
    except Exception as e:  # noqa
        return f'err {type(e).__name__}', True, None
    finally:
        sr.close()


def _gen_window_lens(rng, n, trains):
    """Window lengths (sum = n) for reading a recording piecewise.  Cuts are biased to the samples at which a line changes
    (the event sample is then the first sample of a window, or the last one of the previous window), to windows of one
    sample and to empty windows."""
    events = sorted({t for tr in trains for t in range(1, n) if tr[t] != tr[t - 1]})
    cuts = set()
    kind = int(rng.integers(0, 5))
    if kind == 0:                                    # every sample its own window
        cuts = set(range(1, n))
    elif kind == 1 and events:                       # cut exactly at / just before / just after events
        for t in events:
            if rng.random() < 0.7:
                cuts.add(min(n, max(0, t + int(rng.integers(-1, 2)))))
    elif kind == 2:                                  # regular windows
        w = int(rng.integers(1, max(2, n // 2 + 1)))
        cuts = set(range(w, n, w))
    else:
        for _ in range(int(rng.integers(0, 6))):
            cuts.add(int(rng.integers(0, n + 1)))
    bounds = [0] + sorted(c for c in cuts if 0 < c < n) + [n]
    lens = [b - a for a, b in zip(bounds[:-1], bounds[1:])]
    for _ in range(int(rng.integers(0, 3))):         # empty windows (also in front, also at the end)
        if rng.random() < 0.5:
            lens.insert(int(rng.integers(0, len(lens) + 1)), 0)
    return lens


def _gen_ttlwin_case(rng):
    case = _gen_ttl_case(rng)
    case['op'] = 'ttlwin'
    case['lens'] = _gen_window_lens(rng, case['n'], case['trains'])
    if rng.random() < 0.4:      # compressed backend: mtscomp chunks of a few samples, so windows straddle chunk seams too
        case['backend'], case['chunk'] = 'cbin', int(rng.integers(2, 8))
    return case


def _windows_read(case):
    """(first sample read, stop) of every window: all but the first non-empty one re-read the last sample already seen."""
    out, seen = [], 0
    for L in case['lens']:
        a, b = seen, seen + L
        out.append((a - 1 if a > 0 else a, b))
        seen = b
    return out


def _impl_ttlwin(case, tdir):
    """The recording read window by window through read_sync; fronts / rises / falls of every window moved by the position of
    the first sample read.  Returns (answer in the driver's format, same events when the recording is read at once)."""
    from ibldsp import utils
    rec = _ttl_recording(case)
    if case.get('backend'):
        rec['backend'], rec['chunk'] = case['backend'], case['chunk']
    D, sr = _open_case(rec, tdir)
    try:
        fr, ri, fa = [], [], []
        with warnings.catch_warnings():
            warnings.simplefilter('ignore')
            for a0, b in _windows_read(case):
                dig = sr.read_sync(slice(a0, b))[:, :16]
                ind, sign = utils.fronts(dig, axis=0)
                fr += [(int(i) + a0, int(j), int(sg)) for i, j, sg in zip(ind[0], ind[1], sign)]
                r = utils.rises(dig, axis=0); f = utils.falls(dig, axis=0)
                ri += [(int(i) + a0, int(j)) for i, j in zip(r[0], r[1])]
                fa += [(int(i) + a0, int(j)) for i, j in zip(f[0], f[1])]
            whole = sr.read_sync(slice(0, case['n']))[:, :16]
            wi, ws = utils.fronts(whole, axis=0)
        ans = ('ok fronts=' + (';'.join(f'{i},{j},{sg}' for i, j, sg in fr) or '-')
               + ' rises=' + (';'.join(f'{i},{j}' for i, j in ri) or '-')
               + ' falls=' + (';'.join(f'{i},{j}' for i, j in fa) or '-'))
        same = fr == [(int(i), int(j), int(sg)) for i, j, sg in zip(wi[0], wi[1], ws)]
        return ans, same
    except Exception as e:  # noqa
        return f'err {type(e).__name__}', True
    finally:
        sr.close()


# ---------------------------------------------------------------------------------------------
# correspondence
# ---------------------------------------------------------------------------------------------
SPLIT_FORMS_FULL = ('i16', 'i16col', 'u16')                     # compared word by word
SPLIT_FORMS_MORE = ('i32', 'i32u', 'i64', 'strided', 'negstride', 'colC', 'colF', 'colslice', 'readonly')   # compared as whole arrays


def _split_array(vals, form):
    """The int16 samples `vals` held in the representation `form` (same 16-bit words in every form)."""
    a16 = np.array(vals, dtype=np.int16)
    if form == 'i16':
        return a16.copy()
    if form == 'i16col':
        return a16.reshape(-1, 1).copy()
    if form == 'u16':
        return a16.view(np.uint16).copy()
    if form == 'i32':                           # wider integers holding the signed values
        return a16.astype(np.int32)
    if form == 'i32u':                          # wider integers holding the 16-bit patterns 0..65535
        return a16.view(np.uint16).astype(np.int32)
    if form == 'i64':
        return a16.astype(np.int64)
    if form == 'strided':
        big = np.full(2 * a16.size, 7, dtype=np.int16); big[::2] = a16
        return big[::2]
    if form == 'negstride':
        return np.ascontiguousarray(a16[::-1])[::-1]
    if form == 'colC':                          # the sync column of a C-ordered (n, 3) block of samples: a non-contiguous view
        blk = np.full((a16.size, 3), 7, dtype=np.int16); blk[:, -1] = a16
        return blk[:, -1]
    if form == 'colF':
        blk = np.asfortranarray(np.full((a16.size, 3), 7, dtype=np.int16)); blk[:, -1] = a16
        return blk[:, -1]
    if form == 'colslice':                      # (n, 1) non-contiguous view, what raw[_slice, [sync]] looks like
        blk = np.full((a16.size, 3), 7, dtype=np.int16); blk[:, -1] = a16
        return blk[:, -1:]
    if form == 'readonly':
        a = a16.copy(); a.setflags(write=False)
        return a
    raise ValueError(form)


def _split_forms(vals):
    import spikeglx
    res, pure = {}, {}
    for name in SPLIT_FORMS_FULL + SPLIT_FORMS_MORE:
        arr = _split_array(vals, name)
        before = arr.tobytes()
        try:
            res[name] = spikeglx.split_sync(arr)
        except Exception as e:  # noqa
            res[name] = f'err {type(e).__name__}'
        pure[name] = arr.tobytes() == before
    return res, pure


def correspondence(ctx):
    import sys
    assert sys.byteorder == 'little', 'C10 assumes a little-endian host'
    rng = ctx.rng
    # ---- (a) all 65 536 words -------------------------------------------------------------------
    vals = list(range(-32768, 32768))
    forms, pure = _split_forms(vals)
    for fname, okp in pure.items():      # informational only
        if not okp:
            ctx.note(f'split_sync modified its argument (form {fname}); informational, results are compared on the original values')
    chunks = [(lo, min(lo + 4096, 32768)) for lo in range(-32768, 32768, 4096)]
    model = ctx.lean([f'split {lo} {hi}' for lo, hi in chunks])
    mrows = []
    for ans in model:
        assert ans.startswith('ok '), ans[:60]
        mrows += ans[3:].split(',')
    assert len(mrows) == 65536
    mmat = np.array([[int(ch) for ch in r] for r in mrows], dtype=np.int64)
    for fname, out in forms.items():
        shape_ok = (not isinstance(out, str)) and out.shape == (65536, 16)      # values, not the result dtype, are compared
        if not shape_ok:
            got = out if isinstance(out, str) else f'shape={out.shape}'
            ctx.compare('split', {'op': 'split', 'form': fname, 'x': 'all'}, got, 'shape=(65536, 16)', tags=('split',))
            continue
        if fname in SPLIT_FORMS_FULL:
            strs = [''.join(map(str, r)) for r in out.tolist()]
            for x, a, b in zip(vals, strs, mrows):
                ctx.compare('split', {'op': 'split', 'form': fname, 'x': x}, a, b, nontrivial=(x != 0), tags=('split', 'split:' + fname))
        else:       # further representations of the same words: whole-array comparison, each wrong word reported
            bad = np.flatnonzero((np.asarray(out, dtype=np.int64) != mmat).any(axis=1))
            for lo in range(0, 65536, 4096):
                ctx.case({'op': 'split', 'form': fname, 'x': f'{vals[lo]}..{vals[lo + 4095]}'}, True, ('split-forms', 'split:' + fname))
            for i in bad[:40]:
                ctx.mismatch('split', {'op': 'split', 'form': fname, 'x': vals[int(i)]}, ''.join(str(int(v)) for v in out[int(i)]), mrows[int(i)])
    ctx.note('split_sync: all 65 536 int16 samples compared in %d array forms (exhaustive over words): %s'
             % (len(forms), ', '.join(forms)))

    # ---- (a2) arrays of samples through the model's ARRAY pipeline (reshape(size, 16), roll / flip along axis 1) ----
    import spikeglx
    acases, alines, aimpl = [], [], []
    for k in range(ctx.n(500, 6000)):
        n = [0, 1, 2, 3, 15, 16, 17][k] if k < 7 else _gen_len(rng)
        xs = _gen_words(rng, n) if n else []
        form = str(rng.choice(SPLIT_FORMS_FULL + SPLIT_FORMS_MORE))
        if form == 'i32u':
            xs = [v & 0xFFFF for v in xs]
        arr = _split_array([v - 65536 if v >= 32768 else v for v in xs], form)
        try:
            out = np.asarray(spikeglx.split_sync(arr))
            got = (f'ok n={out.shape[0]} ' + (','.join(''.join(str(int(v)) for v in r) for r in out) or '-')) if out.ndim == 2 and out.shape[1] == 16 \
                else f'shape={out.shape}'
        except Exception as e:  # noqa
            got = f'err {type(e).__name__}'
        acases.append(dict(op='split', x=[v - 65536 if v >= 32768 else v for v in xs], form=form, view='array'))
        alines.append('splitflat ' + _lst(v - 65536 if v >= 32768 else v for v in xs))
        aimpl.append(got)
    for cse, a, b in zip(acases, aimpl, ctx.lean(alines)):
        n = len(cse['x'])
        ctx.compare('split-array', cse, a, b, nontrivial=any(cse['x']),
                    tags=('split-array', 'split-array:' + cse['form'], 'n=0' if n == 0 else 'n=1' if n == 1 else 'n=2..16' if n <= 16 else 'n>16'))

    # ---- (b), (c) fronts / rises / falls ---------------------------------------------------------
    cases = _gen_1d_cases(ctx, ctx.n(2500, 40000)) + _gen_2d_cases(ctx, ctx.n(1500, 25000))
    # exhaustive tiny boxes: every 0/1 train up to length 6 (7 thorough), every 0/1 matrix 2x2, 2x3, 3x2
    for n in range(0, ctx.n(7, 9)):
        for bits in itertools.product((0, 1), repeat=n):
            for op, step in (('fronts1', 1), ('rises1', 1), ('falls1', -1)):
                cases.append(dict(op=op, x=list(bits), dtype='int8', axis=-1, step=step, analog=False, default_args=True, cls='box'))
    for (r, c) in ((2, 2), (2, 3), (3, 2)):
        for bits in itertools.product((0, 1), repeat=r * c):
            for axis in (0, 1):
                for op, step in (('fronts2', 1), ('rises2', 1), ('falls2', -1)):
                    cases.append(dict(op=op, shape=[r, c], x=list(bits), dtype='int8', axis=axis, step=step, analog=False,
                                      default_args=False, cls='box'))
    # decoded sync matrices, axis 0
    import spikeglx
    for _ in range(ctx.n(40, 300)):
        n = int(rng.integers(1, 30))
        m = spikeglx.split_sync(np.array(_gen_words(rng, n), dtype=np.int16))
        for op, step in (('fronts2', 1), ('rises2', 1), ('falls2', -1)):
            cases.append(dict(op=op, shape=[n, 16], x=[int(v) for v in m.reshape(-1)], dtype='int8', axis=0, step=step, analog=False,
                              default_args=False, cls='syncmatrix'))
    lines, impl, followups = [], [], []
    for cse in cases:     # the FORM (layout, spelling, scalar types) is drawn independently of the VALUES
        if cse['cls'] != 'box' and not cse.get('default_args') and rng.random() < 0.6:
            cse['form'] = _draw_form(rng, 1 if 'shape' not in cse else 2, cse['dtype'], [cse['step']], [cse['op'][:-1]])
    for cse in cases:
        form = cse.get('form')
        a = _np_array(cse['x'], cse['dtype'], cse.get('shape'), form)
        lines.append(_line_front_op(cse['op'], np.array(a), cse['axis'], cse['step'], cse['analog'], form))
        ans, touched = _impl_front_op(cse['op'], a, cse['axis'], cse['step'], cse['analog'], cse.get('default_args', False), form)
        impl.append(ans)
        if touched:      # informational; followed up below by further calls on the same object (what a user would observe)
            cse['touched'] = True
            base = cse['op'][:-1]
            me = dict(fn=base, step=cse['step'], analog=cse['analog'], axis=cse['axis'])
            other = dict(fn='falls' if base != 'falls' else 'rises', step=cse['step'] if cse['analog'] else -cse['step'],
                         analog=cse['analog'], axis=cse['axis'])
            fu = dict(op='seq', x=cse['x'], dtype=cse['dtype'], calls=[me, other, dict(me)], followup=True)
            if 'shape' in cse:
                fu['shape'] = cse['shape']
            if form:
                fu['form'] = dict(form, step_type='py' if form['step_type'] == 'uint8' else form['step_type'])
            followups.append(fu)
    # 2-D detection = the 1-D detection on every row (last axis) / every column (first axis), on the real code
    nline = 0
    for cse, ans2 in zip(cases, impl):
        if 'shape' not in cse or cse['cls'] == 'box' or not ans2.startswith('ok') or nline >= ctx.n(1500, 20000):
            continue
        r, c = cse['shape']
        if r == 0 or c == 0:
            continue
        nline += 1
        m = np.array(cse['x'], dtype=cse['dtype']).reshape(r, c)
        ax = cse['axis'] % 2
        exp = []
        ok1 = True
        for q in range(r if ax == 1 else c):
            line = np.array(m[q] if ax == 1 else m[:, q])          # a fresh 1-D array per line
            f1 = {'step_type': cse['form']['step_type']} if cse.get('form') else None      # the same threshold object
            a1 = _impl_front_op_raw(cse['op'][:-1] + '1', line, -1, cse['step'], cse['analog'], False, f1)
            if not a1.startswith('ok'):
                ok1 = False
                break
            if cse['op'] == 'fronts2':
                ind_, sg_ = a1[3:].split(' sign=')
                ts = [] if ind_ == 'ind=-' else [int(v) for v in ind_[4:].split(',')]
                sg = [] if sg_ == '-' else sg_.split(',')
                exp += [((q, t) if ax == 1 else (t, q), s_) for t, s_ in zip(ts, sg)]
            else:
                ts = [] if a1 == 'ok -' else [int(v) for v in a1[3:].split(',')]
                exp += [((q, t) if ax == 1 else (t, q), None) for t in ts]
        if not ok1:
            continue
        exp.sort(key=lambda e: e[0])
        want = 'ok ' + (';'.join(f'{i},{j}' + ('' if s_ is None else f',{s_}') for (i, j), s_ in exp) or '-')
        ctx.compare('linewise', dict({k: v for k, v in cse.items() if k not in ('cls', 'touched')}, view='linewise'), ans2, want,
                    nontrivial=bool(exp), tags=('linewise', 'linewise:rows' if ax == 1 else 'linewise:columns', 'linewise:' + cse['op']))
    model = ctx.lean(lines)
    for cse, a, b in zip(cases, impl, model):
        n = len(cse['x'])
        has_event = a not in ('ok -', 'ok ind=- sign=-')
        tags = (cse['op'], 'cls=' + cse['cls'], 'dtype=' + cse['dtype'], 'n=0' if n == 0 else 'n=1' if n == 1 else 'n=2..8' if n <= 8 else 'n>8',
                f"axis={cse['axis']}", 'mode=analog' if cse['analog'] else 'mode=digital', 'default-args' if cse.get('default_args') else 'explicit-args',
                'events' if has_event else 'no-events') + (('argument-modified(info)',) if cse.get('touched') else ())
        tags += _form_tags(cse.get('form'))
        desc = {k: v for k, v in cse.items() if k not in ('cls', 'touched')}
        if cse['op'].startswith('fronts'):
            b = _canon_model_fronts(b, _model_is_float(cse['dtype'], cse['step'], cse.get('form')), cse['op'] == 'fronts2')
        ctx.compare(cse['op'], desc, a, b, nontrivial=has_event, tags=tags)

    # ---- (b') sequences of calls on the same array object; arguments must stay untouched ----------
    scases = _gen_seq_cases(ctx, ctx.n(700, 8000)) + followups[:ctx.n(400, 4000)]
    if followups:
        ctx.note(f'{len(followups)} single calls left their array argument modified (informational); each is followed up by further '
                 f'calls on the same object')
    lines, impl, meta = [], [], []
    for cse in scases:
        if 'form' not in cse and not cse.get('followup') and rng.random() < 0.6:
            cse['form'] = _draw_form(rng, 1 if 'shape' not in cse else 2, cse['dtype'], [c['step'] for c in cse['calls']],
                                     [c['fn'] for c in cse['calls']])
        form = cse.get('form')
        a = _np_array(cse['x'], cse['dtype'], cse.get('shape'), form)
        orig = np.array(a)
        sfx = '2' if a.ndim == 2 else '1'
        for k, cl in enumerate(cse['calls']):
            lines.append(_line_front_op(cl['fn'] + sfx, orig, cl['axis'], cl['step'], cl['analog'], form))   # model: the original data
            ans, touched = _impl_front_op(cl['fn'] + sfx, a, cl['axis'], cl['step'], cl['analog'], False, form)     # code: the same object again
            impl.append(ans)
            meta.append((cse, k, touched))
    model = ctx.lean(lines)
    for (cse, k, touched), a, b in zip(meta, impl, model):
        cl = cse['calls'][k]
        if cl['fn'] == 'fronts':
            b = _canon_model_fronts(b, _model_is_float(cse['dtype'], cl['step'], cse.get('form')), 'shape' in cse)
        has_event = a not in ('ok -', 'ok ind=- sign=-')
        ctx.compare('seq:' + cl['fn'], {kk: v for kk, v in dict(cse, call_index=k).items() if kk != 'followup'}, a, b, nontrivial=has_event,
                    tags=('seq', f'seq-call#{k + 1}', 'seq:' + ('analog' if cl['analog'] else 'digital'), 'seq:dtype=' + cse['dtype'],
                          'seq:2-D' if 'shape' in cse else 'seq:1-D', f"seq:thr={cl['step']}" if cl['analog'] else 'seq:step',
                          'seq:' + '>'.join(c['fn'] for c in cse['calls']))
                    + (('seq:argument-modified(info)',) if touched else ()) + (('seq:follow-up',) if cse.get('followup') else ())
                    + _form_tags(cse.get('form'), 'seqform'))

    # ---- (d) read_sync on synthetic recordings ---------------------------------------------------
    rcases = []
    for _ in range(ctx.n(500, 8000)):
        rcases.append(_gen_nidq_case(rng, default_args=bool(rng.random() < 0.35)))
    for _ in range(ctx.n(60, 600)):
        rcases.append(_gen_imec_case(rng))
    for j, cse in enumerate(rcases):          # a third of the recordings are read through the compressed backend
        if j % 3 == 1 and not (cse['slice'][2] or 0) < 0:
            cse['backend'], cse['chunk'] = 'cbin', int(2 + j % 7)
    lines, impls = [], []
    for cse in rcases:
        tdir = tempfile.mkdtemp(prefix='c10_')
        try:
            ans, line = _impl_readsync(cse, tdir)
        finally:
            shutil.rmtree(tdir, ignore_errors=True)
        lines += list(line); impls.append(ans)
    model = ctx.lean(lines)
    for cse, ans, full_m, dig_m in zip(rcases, impls, model[0::2], model[1::2]):
        nsel = len(range(*_py_slice(cse).indices(cse['ns'])))
        xa = cse['cfg'][2] if cse['stream'] == 'nidq' else 0
        tags = ('readsync', 'readsync:' + cse['stream'], f'analog_lines={xa}', 'floor' if (cse['floor'] if not cse.get('default_args') else 10) else 'nofloor',
                'default-args' if cse.get('default_args') else 'explicit-args', 'nsel=0' if nsel == 0 else 'nsel=1' if nsel == 1 else 'nsel>1',
                'slice-step' if cse['slice'][2] else 'slice-plain', 'thr=sample-value' if cse.get('thr_is_sample') else 'thr=preset')
        if nsel == 0 and xa and (cse['floor'] if not cse.get('default_args') else 10):
            tags += ('empty-selection+analog+floor', 'empty+analog+floor via read(sync=True)' if cse.get('default_args') else 'empty+analog+floor explicit')
        ctx.compare('read_sync', dict(cse, view='read_sync'), ans['full'],
                    full_m, nontrivial=nsel > 0, tags=tags + _form_tags(cse.get('form'), 'readform'))
        ctx.compare('read_sync_digital', dict(cse, view='read_sync_digital'), ans['digital'], dig_m, nontrivial=nsel > 0, tags=('readsync_digital',))
        if ans['via_read'] is not None:
            ctx.compare('read()[1]', dict(cse, view='read'), ans['via_read'], full_m, nontrivial=nsel > 0, tags=('read()[1]',))

    # ---- (e) TTL trains written into a recording and recovered ----------------------------------
    tcases = [_gen_ttl_case(rng) for _ in range(ctx.n(200, 4000))]
    lines, impls = [], []
    for cse in tcases:
        tdir = tempfile.mkdtemp(prefix='c10_')
        try:
            impls.append(_impl_ttl(cse, tdir))
        finally:
            shutil.rmtree(tdir, ignore_errors=True)
        lines.append(f"ttl {cse['n']} " + ' '.join(cse['trains']))
    model = ctx.lean(lines)
    for cse, (a, per_line, shape), b in zip(tcases, impls, model):
        nev = a.count(',') // 2 if a.startswith('ok') else 0
        tags = ('ttl', 'ttl:' + cse['stream'], f"lines={len(cse['lines'])}", 'n=1' if cse['n'] == 1 else 'n=2..9' if cse['n'] < 10 else 'n>=10',
                'events' if 'fronts=-' not in a else 'no-events') + (('ttl:argument-modified(info)',) if shape == 'touched' else ())
        ctx.compare('ttl', cse, a, b, nontrivial=('fronts=-' not in a), tags=tags)
        ctx.compare('ttl-per-line', dict(cse, view='per-line'), 'consistent' if per_line else 'fronts(sync[:, k]) differs from fronts(sync, axis=0)',
                    'consistent', nontrivial=('fronts=-' not in a), tags=('ttl-per-line',))
    # ---- (e2) the same kind of recording read WINDOW BY WINDOW (each window re-reads one sample) --------------
    wcases = [_gen_ttlwin_case(rng) for _ in range(ctx.n(200, 3000))]
    lines, impls = [], []
    for cse in wcases:
        tdir = tempfile.mkdtemp(prefix='c10_')
        try:
            impls.append(_impl_ttlwin(cse, tdir))
        finally:
            shutil.rmtree(tdir, ignore_errors=True)
        lines.append(f"ttlwin {cse['n']} {_lst(cse['lens'])} " + ' '.join(cse['trains']))
    model = ctx.lean(lines)
    for cse, (a, same), b in zip(wcases, impls, model):
        nw = len(cse['lens'])
        tags = ('ttlwin', 'ttlwin:' + cse['stream'], 'ttlwin:' + cse.get('backend', 'bin'), 'windows=1' if nw == 1 else 'windows=2..4' if nw <= 4 else 'windows>4',
                'ttlwin:empty-window' if 0 in cse['lens'] else 'ttlwin:no-empty-window', 'events' if 'fronts=-' not in a else 'no-events')
        ctx.compare('ttlwin', cse, a, b, nontrivial=('fronts=-' not in a), tags=tags)
        ctx.compare('ttlwin-whole', dict(cse, view='whole'), 'same events' if same else 'the windows and the single read give different fronts',
                    'same events', nontrivial=('fronts=-' not in a), tags=('ttlwin-whole',))
    ctx.exhaustive = False
    ctx.note('exhaustive parts: all 65 536 sync words; every 0/1 train of length <= %d; every 0/1 matrix 2x2, 2x3, 3x2 on both axes' % (ctx.n(7, 9) - 1))


# ---------------------------------------------------------------------------------------------
# direct oracles of the property on the real code (independent of the Lean model)
# ---------------------------------------------------------------------------------------------
def oracle_split(x, form='i16'):
    """line k of every decoded word equals bit k of the word.  `x`: one int16 sample, a list of samples, or 'all'."""
    import spikeglx
    xs = list(range(-32768, 32768)) if x == 'all' else ([int(v) for v in x] if isinstance(x, (list, tuple)) else [int(x)])
    a = _split_array(xs, form)
    desc = f'{form}: {a.dtype}{list(a.shape)}' + ('' if a.flags.c_contiguous else ', non-contiguous view')
    try:
        out = np.asarray(spikeglx.split_sync(a))
    except Exception as e:  # noqa
        return f'split_sync raised {type(e).__name__}: {e} (samples {xs[:4]}{"..." if len(xs) > 4 else ""} given as {desc})'
    if out.shape != (len(xs), 16):
        return f'split_sync returned shape {out.shape} for {len(xs)} sample(s) given as {desc}'
    w = np.array(xs, dtype=np.int64) & 0xFFFF
    exp = (w[:, None] >> np.arange(16)[None, :]) & 1
    bad = np.argwhere(out != exp)
    if len(bad):
        t, k = [int(v) for v in bad[0]]
        return (f'sample {t} = {xs[t]} (word {int(w[t]):#06x}, given as {desc}): line {k} decoded as {int(out[t, k])}, '
                f'bit {k} of the word is {int(exp[t, k])}; lines={[int(v) for v in out[t]]}')
    return None


def _expected_events(x2, axis, pred):
    """x2: list of rows; events (i, j, d) in C order of the positions, along axis."""
    r = len(x2); c = len(x2[0]) if r else 0
    ev = []
    for i in range(r):
        for j in range(c):
            if axis == 0 and i >= 1:
                d = x2[i][j] - x2[i - 1][j]; prev, cur = x2[i - 1][j], x2[i][j]
            elif axis == 1 and j >= 1:
                d = x2[i][j] - x2[i][j - 1]; prev, cur = x2[i][j - 1], x2[i][j]
            else:
                continue
            if pred(prev, cur, d):
                ev.append((i, j, d))
    return ev


def _check_call(a, orig, base, axis, step, analog, default_args=False, form=None):
    """One call of fronts/rises/falls on the array object `a`; `orig` is a copy of the data taken before any call.
    The result must be the change points of the ORIGINAL data (what the caller passed in before any call)."""
    from ibldsp import utils
    nd = orig.ndim
    ax = axis % nd
    st = _step_as_seen(orig.dtype, step, form)
    x2 = orig.tolist() if nd == 2 else [[v] for v in orig.tolist()]       # 1-D: a column, events along axis 0
    eax = ax if nd == 2 else 0
    if base == 'fronts':
        pred = lambda p, c, d: abs(d) >= st                       # noqa
    elif base == 'rises':
        pred = (lambda p, c, d: (not p > st) and c > st) if analog else (lambda p, c, d: d >= st)    # noqa
    else:
        pred = (lambda p, c, d: (not p < st) and c < st) if analog else (lambda p, c, d: d <= st)    # noqa
    exp = _expected_events(x2, eax, pred)
    call = _spell_front(base, axis, step, analog, default_args, form)[2]
    if form:
        call += f' [x: {orig.dtype}, layout {form.get("layout", "C")}]'
    try:
        with warnings.catch_warnings():
            warnings.simplefilter('ignore')
            res, _ = _call_front(base, a, axis, step, analog, default_args, form)
            if base == 'fronts':
                ind, sign = res
                sign = [float(v) for v in sign]
            else:
                ind, sign = res, None
    except Exception as e:  # noqa
        return f'{call} raised {type(e).__name__}: {e}'
    ind = np.asarray(ind)
    if nd == 1:
        if ind.ndim != 1:
            return f'{call} on a 1-D input returned an index array of shape {ind.shape}'
        got = [(int(i), 0) for i in ind]
    else:
        if ind.ndim != 2 or ind.shape[0] != 2:
            return f'{call} on a 2-D input returned an index array of shape {ind.shape}'
        got = [(int(i), int(j)) for i, j in zip(ind[0], ind[1])]
    exp_pos = [(i, j) for i, j, _ in exp]
    if got != exp_pos:
        return f'{call} returned positions {got[:12]}, the change points of the trace are {exp_pos[:12]}'
    if sign is not None:
        exp_s = [_pol(d) for _, _, d in exp]
        if [_pol(v) for v in sign] != exp_s:
            return f'{call} returned polarities {sign[:12]}, the changes have directions {exp_s[:12]}'
    return None


def oracle_front(case):
    """fronts / rises / falls return exactly the change points (with polarity), in ascending (C) order."""
    a = _np_array(case['x'], case['dtype'], case.get('shape'), case.get('form'))
    return _check_call(a, np.array(a), case['op'][:-1], case['axis'], case['step'], case['analog'], case.get('default_args', False),
                       case.get('form'))


def oracle_seq(case):
    """Several detections in sequence on the SAME array object: each must return the change points of the original
    trace the caller holds (a user calls rises(x) and then falls(x) on one trace and expects both event sets)."""
    a = _np_array(case['x'], case['dtype'], case.get('shape'), case.get('form'))
    orig = np.array(a)
    for n, c in enumerate(case['calls']):
        r = _check_call(a, orig, c['fn'], c['axis'], c['step'], c['analog'], False, case.get('form'))
        if r:
            return f'call {n + 1} of {len(case["calls"])} on the same array: ' + r
    return None


def oracle_readsync(case):
    """one row per selected sample; 16 digital lines (bit k of the sync word) first, thresholded analog lines after."""
    tdir = tempfile.mkdtemp(prefix='c10_')
    try:
        D, sr = _open_case(case, tdir)
        try:
            sl = _slice_of(case)
            thr = 1.2 if case.get('default_args') else float(_thr_obj(case))
            floor = 10 if case.get('default_args') else case['floor']
            with warnings.catch_warnings():
                warnings.simplefilter('ignore')
                try:
                    outs = {'read_sync': _call_read_sync(sr, sl, case)}
                    if case.get('default_args'):
                        outs['read()[1]'] = (sr.read(sl) if (case.get('form') or {}).get('spelling') == 'pos' else sr.read(nsel=sl))[1]
                    dig = sr.read_sync_digital(sl)
                except Exception as e:  # noqa
                    return f'reading sync raised {type(e).__name__}: {e}'
            rows = D[_py_slice(case)].astype(np.int64)
            n = rows.shape[0]
            xa = case['cfg'][2] if case['stream'] == 'nidq' else 0
            expd = np.array([[(int(w) & 0xFFFF) >> k & 1 for k in range(16)] for w in rows[:, -1]], dtype=np.int64).reshape(n, 16)
            if dig.shape != (n, 16) or not np.array_equal(dig, expd):
                return f'read_sync_digital: shape {dig.shape}, expected ({n}, 16) with line k = bit k of the sync word' + _first_diff(dig, expd)
            for name, out in outs.items():
                if out.shape != (n, 16 + xa):
                    return f'{name} returned shape {out.shape}, expected one row per sample and 16 + {xa} columns: ({n}, {16 + xa})'
                if not np.array_equal(out[:, :16], expd):
                    return f'{name}: the first 16 columns are not the digital lines' + _first_diff(out[:, :16], expd)
                if xa:
                    a0 = case['cfg'][0] + case['cfg'][1]
                    volts = rows[:, a0:a0 + xa].astype(np.float64) * (case['rmax'] / 32768)
                    if floor and n:
                        volts = volts - np.percentile(volts, 10, axis=0)
                    hi = volts >= thr
                    near = np.abs(volts - thr) <= 1e-5 * max(1.0, abs(thr))   # float32 path of the code: either answer accepted
                    got = out[:, 16:]
                    if not np.isin(got, (0, 1)).all():
                        t, j = [int(v) for v in np.argwhere(~np.isin(got, (0, 1)))[0]]
                        return f'{name}: analog line {j} at selected sample {t} has the value {int(got[t, j])}, not 0/1'
                    bad = (got != hi) & ~near
                    if bad.any():
                        t, j = [int(v) for v in np.argwhere(bad)[0]]
                        return (f'{name}: analog line {j} at selected sample {t} is {int(got[t, j])}, the calibrated value '
                                f'{volts[t, j]:.6f} V is {"above" if hi[t, j] else "below"} the threshold {thr}')
            return None
        finally:
            sr.close()
    finally:
        shutil.rmtree(tdir, ignore_errors=True)


def _first_diff(got, exp):
    got = np.asarray(got)
    if got.shape != exp.shape:
        return ''
    d = np.argwhere(got != exp)
    if not len(d):
        return ''
    t, k = [int(v) for v in d[0]]
    return f' (selected sample {t}, line {k}: got {int(got[t, k])}, expected {int(exp[t, k])})'


def oracle_ttl(case):
    """every event of every train written into the sync channel is recovered, with its polarity, and nothing else."""
    from ibldsp import utils
    tdir = tempfile.mkdtemp(prefix='c10_')
    try:
        D, sr = _open_case(_ttl_recording(case), tdir)
        try:
            with warnings.catch_warnings():
                warnings.simplefilter('ignore')
                try:
                    sync = sr.read_sync(slice(0, case['n']))
                    dig = sync[:, :16]
                    ind, sign = utils.fronts(dig, axis=0)     # three detections on the same decoded matrix
                    r = utils.rises(dig, axis=0); f = utils.falls(dig, axis=0)
                except Exception as e:  # noqa
                    return f'raised {type(e).__name__}: {e}'
            n = case['n']
            for k in range(16):
                tr = [int(ch) for ch in case['trains'][k]]
                exp = [(t, tr[t] - tr[t - 1]) for t in range(1, n) if tr[t] != tr[t - 1]]
                sel = ind[1] == k
                got = list(zip((int(v) for v in ind[0][sel]), (int(v) for v in sign[sel])))
                if got != exp:
                    return f'line {k}: train {case["trains"][k]} has events {exp}, fronts(read_sync, axis=0) returned {got}'
                gr = [int(v) for v in r[0][r[1] == k]]; gf = [int(v) for v in f[0][f[1] == k]]
                if gr != [t for t, s in exp if s > 0] or gf != [t for t, s in exp if s < 0]:
                    return f'line {k}: train {case["trains"][k]}: rises {gr}, falls {gf}, events {exp}'
                i1, s1 = utils.fronts(dig[:, k])
                if list(zip((int(v) for v in i1), (int(v) for v in s1))) != exp:
                    return f'line {k}: fronts on the single line returned {list(zip(i1.tolist(), s1.tolist()))}, events {exp}'
            return None
        finally:
            sr.close()
    finally:
        shutil.rmtree(tdir, ignore_errors=True)


def oracle_ttlwin(case):
    """the recording read window by window (each window re-reading one sample): every event of every train is found exactly
    once, at its sample, with its polarity — whatever the windows."""
    tdir = tempfile.mkdtemp(prefix='c10_')
    try:
        ans, _ = _impl_ttlwin(case, tdir)
    finally:
        shutil.rmtree(tdir, ignore_errors=True)
    if not ans.startswith('ok'):
        return f'reading window by window raised: {ans}'
    n = case['n']
    trs = [[int(ch) for ch in t] for t in case['trains']]
    ev = [(t, k, trs[k][t] - trs[k][t - 1]) for t in range(1, n) for k in range(16) if trs[k][t] != trs[k][t - 1]]
    exp = ('ok fronts=' + (';'.join(f'{t},{k},{s}' for t, k, s in ev) or '-')
           + ' rises=' + (';'.join(f'{t},{k}' for t, k, s in ev if s > 0) or '-')
           + ' falls=' + (';'.join(f'{t},{k}' for t, k, s in ev if s < 0) or '-'))
    if ans != exp:
        return (f'windows {case["lens"]} (read as {_windows_read(case)}): detected {ans[3:][:300]}, the trains have the events {exp[3:][:300]}')
    return None


def oracle(case):
    op = case['op']
    if op == 'ttlwin':
        return oracle_ttlwin(case)
    if op == 'split':
        return oracle_split(case['x'], case.get('form', 'i16'))
    if op in ('fronts1', 'rises1', 'falls1', 'fronts2', 'rises2', 'falls2'):
        return oracle_front(case)
    if op == 'seq':
        return oracle_seq(case)
    if op == 'readsync':
        return oracle_readsync(case)
    if op == 'ttl':
        return oracle_ttl(case)
    raise ValueError(op)


def _size(case):
    op = case['op']
    if op == 'split':
        x = case['x']
        return (0, 70000 if x == 'all' else sum(abs(int(v)) + 1 for v in x) if isinstance(x, list) else abs(int(x)))
    if op == 'readsync':
        return (3, case['ns'] * (sum(case['cfg']) if case['stream'] == 'nidq' else 400))
    if op == 'ttl':
        return (4, case['n'] * (1 + len(case.get('lines', []))))
    if op == 'ttlwin':
        return (5, case['n'] * (1 + len(case.get('lines', []))) + len(case['lens']))
    if op == 'seq':
        return (1 if 'shape' not in case else 2, len(case['x']) + len(case['calls']))
    return (1 if op.endswith('1') else 2, len(case['x']))


def _strip(case):
    return {k: v for k, v in case.items() if k not in ('view', 'cls', 'call_index')}


def _small_candidates(ctx):
    """Neighbourhood searched when no mismatching case fails the oracle itself: small exhaustive boxes."""
    c = []
    for x in list(range(-4, 5)) + [255, 256, 257, -256, 32767, -32768, 0x5555, -0x5556] + [1 << k for k in range(15)]:
        for form in SPLIT_FORMS_FULL + SPLIT_FORMS_MORE:
            c.append(dict(op='split', x=x, form=form))
    for form in SPLIT_FORMS_FULL + SPLIT_FORMS_MORE:      # several samples: strided / column views are only non-contiguous then
        for xs in ([1, 2], [1, 0, -1], [2, 1, 0, -32768, 32767]):
            c.append(dict(op='split', x=xs, form=form))
    for n in range(0, 6):
        for bits in itertools.product((0, 1), repeat=n):
            for op, step in (('fronts1', 1), ('rises1', 1), ('falls1', -1)):
                for default in (True, False):
                    c.append(dict(op=op, x=list(bits), dtype='int8', axis=0, step=step, analog=False, default_args=default))
    for n in range(0, 4):
        for vals in itertools.product((0, 1, 2), repeat=n):
            c.append(dict(op='rises1', x=[float(v) for v in vals], dtype='float64', axis=-1, step=1.0, analog=True, default_args=False))
            c.append(dict(op='falls1', x=[float(v) for v in vals], dtype='float64', axis=-1, step=1.0, analog=True, default_args=False))
            c.append(dict(op='fronts1', x=list(vals), dtype='int64', axis=-1, step=2, analog=False, default_args=False))
    for n in range(1, 4):                       # sequences of calls on the same array object
        for vals in itertools.product((0.0, 2.0, 3.0), repeat=n):
            for thr in (1.2, 2.5):
                for fns in (('rises', 'falls'), ('rises', 'rises'), ('falls', 'rises'), ('fronts', 'rises')):
                    c.append(dict(op='seq', x=list(vals), dtype='float64',
                                  calls=[dict(fn=f, step=thr, analog=(f != 'fronts'), axis=-1) for f in fns]))
        for bits in itertools.product((0, 1), repeat=n):
            c.append(dict(op='seq', x=list(bits), dtype='int8',
                          calls=[dict(fn='rises', step=1, analog=False, axis=-1), dict(fn='falls', step=-1, analog=False, axis=-1),
                                 dict(fn='fronts', step=1, analog=False, axis=-1)]))
    for bits in itertools.product((0.0, 3.0), repeat=4):
        for axis in (0, 1):
            c.append(dict(op='seq', x=list(bits), dtype='float64', shape=[2, 2],
                          calls=[dict(fn='rises', step=1.2, analog=True, axis=axis), dict(fn='falls', step=1.2, analog=True, axis=axis)]))
    for (r, cc) in ((1, 2), (2, 1), (2, 2), (2, 3), (3, 2)):
        for bits in itertools.product((0, 1), repeat=r * cc):
            for axis in (0, 1, -1, -2):
                for op, step in (('fronts2', 1), ('rises2', 1), ('falls2', -1)):
                    c.append(dict(op=op, shape=[r, cc], x=list(bits), dtype='int8', axis=axis, step=step, analog=False, default_args=False))
    # zero samples selected on a stream with analog lines: slice(ns, ns + 10000) and slice(k, k)
    for sl in ([2, 10002, None], [1, 1, None]):
        for default in (True, False):
            c.append(dict(op='readsync', stream='nidq', cfg=[0, 0, 1, 1], ns=2, rmax=5, thr=1.2, floor=10, slice=sl,
                          default_args=default, D=[100, 1, 200, 2]))
    rng = ctx.subrng(991)
    for k in range(40):
        c.append(_gen_ttl_case(rng))
    for k in range(30):
        c.append(_gen_ttlwin_case(rng))
    for k in range(60):
        c.append(_gen_nidq_case(rng, default_args=(k % 3 == 0)))
    for k in range(6):
        c.append(_gen_imec_case(rng))
    c.append(dict(op='split', x='all', form='i16'))
    return c


def search(ctx, reasons):
    best = None

    def consider(case):
        nonlocal best
        try:
            r = oracle(case)
        except Exception as e:  # noqa
            r = f'oracle raised {type(e).__name__}: {e}'
        if r and (best is None or _size(case) < _size(best[0])):
            best = (case, r)

    seen = 0
    for m in ctx.mismatches:
        if seen >= 300:
            break
        case = _strip(m['case'])
        if case.get('op') == 'split' and case.get('x') != 'all' and seen > 40 and best is not None:
            continue
        seen += 1
        consider(case)
    small = _small_candidates(ctx)
    if best is not None and best[0]['op'] == 'split':
        for case in small:
            if case['op'] == 'split' and case['x'] != 'all':
                consider(case)
    if best is not None and best[0]['op'] == 'seq':
        for case in small:
            if case['op'] == 'seq':
                consider(case)
    if best is None or _size(best[0]) > (1, 6):
        for case in small:
            consider(case)
            if best is not None and _size(best[0]) <= (1, 3):
                break
    if best is None:
        return None
    case, r = best
    if case['op'] == 'split' and case['x'] == 'all':   # name the first failing word
        for x in range(-32768, 32768):
            if oracle_split(x, case['form']):
                case = dict(op='split', x=x, form=case['form']); r = oracle_split(x, case['form']); break
    return {'input': case, 'observed': r,
            'expected': 'C10: line k = bit k of the word; read_sync = one row per sample, 16 digital lines then thresholded analog lines; '
                        'fronts/rises/falls = exactly the change points with polarity; written TTL trains recovered',
            'how': 'python (PYTHONPATH=harness:$IBL_REPO/src): from props import c10; c10.oracle(input)'}


def replay(ctx, rep):
    r = oracle(rep['input'])
    print('oracle:', r)
    return r is not None


# ---------------------------------------------------------------------------------------------
# known findings (demonstrations; listed only when known_findings.txt carries the key)
# ---------------------------------------------------------------------------------------------
def _demo_no_meta():
    """A flat binary opened without .meta (385 channels, last one sync): read_sync raises instead of decoding the last trace."""
    import spikeglx
    tdir = tempfile.mkdtemp(prefix='c10_')
    try:
        b = Path(tdir) / 'flat.bin'
        D = np.zeros((6, 385), dtype=np.int16); D[:, -1] = [0, 1, 3, 2, 0, -32768]
        D.tofile(b)
        sr = spikeglx.Reader(b)
        try:
            with warnings.catch_warnings():
                warnings.simplefilter('ignore')
                try:
                    out = sr.read_sync(slice(0, 6))
                    return not (out.shape == (6, 16) and out[:, 0].tolist() == [0, 1, 1, 0, 0, 0])
                except Exception:  # noqa
                    return True
        finally:
            sr.close()
    finally:
        shutil.rmtree(tdir, ignore_errors=True)


def known_findings(ctx):
    return {'read-sync-no-meta': _demo_no_meta}
