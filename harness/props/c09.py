"""C09 — Metadata parsing, derived acquisition parameters and writing round-trip (src/spikeglx.py)."""
import hashlib
import os
import re
import shutil
import struct
import tempfile
import warnings
from decimal import Decimal
from fractions import Fraction
from pathlib import Path

import numpy as np

ID = 'C09'
DRIVER = 'C09'
LEAN_TARGETS = ['IblVerif.Properties.C09']
THEOREMS = [
    'IblVerif.C09.parse_print_parse',
    'IblVerif.C09.roundtrip_equal',
    'IblVerif.C09.small_scalar_counterexample',
    'IblVerif.C09.version_table',
    'IblVerif.C09.type_table',
    'IblVerif.C09.counts_table',
    'IblVerif.C09.max_int_table',
    'IblVerif.C09.gain_vector_shape_and_source',
    'IblVerif.C09.gain_vector_np2',
    'IblVerif.C09.gain_vector_nidq',
    'IblVerif.C09.imro_findall_rows',
    'IblVerif.C09.gain_assembly',
    'IblVerif.C09.gain_vector_entries',
    'IblVerif.C09.gain_vector_np2_entries',
    'IblVerif.C09.reset_tail_counterexample',
    'IblVerif.C09.parse_never_singleton_list',
    'IblVerif.C09.singleton_list_counterexample',
]
RULE = ('(a) grammar-directed metadata texts: 1-14 key=value lines; keys from the SpikeGLX vocabulary or random words, with tildes, '
        'duplicates, empty keys, the reserved keys serial/neuropixelVersion; values: strings (paths, dates, dotted versions, "=", tabs, '
        'non-ASCII), integer scalars (0 .. 25 digits, around 2^53), decimal scalars (1-20 significant digits, "5.", ".5", trailing zeros, '
        'the 1e-4 boundary), integer lists; line ends \\n, \\r\\n, \\r and the other str.splitlines boundaries; a malformed stream (blank line, '
        'no "=", ",,", ".", non-integer lists) mapped to error enums; a small F12-class stream (scalars written in exponent notation) where '
        'model and code are compared but the round-trip oracle does not apply.  (b) acquisition metadata built per probe type '
        '{3A,3B1,3B2,NP2.1(21/1030),NP2.4(24/2013),NPultra,nidq,unknown} x AP/LF x NON-UNIFORM per-channel (AP,LF) gain pairs x IMRO sizes '
        '(2..384) x saved-channel counts (full, prefix, one more than the table, sync 0/1) x range / max-int / rates, with a field-mutation '
        'stream (dropped key, wrong type, zero max-int); (b\') every run, for EVERY probe generation x AP/LF, headers saved WITHOUT the sync word '
        '(snsApLfSy = n,0,0 / 0,n,0, full and prefix-saved) and nidq headers without digital word (snsMnMaXaDw = mn,ma,xa,0), some of them '
        'through the 43-call sequence.  (c) float()/repr() of the model against CPython on random digit strings / doubles.  '
        '(d) the 21 shipped fixtures through the real Reader constructor.  (e) for every 6th acquisition case, every 16th grammar case and '
        'every fixture a 43-call sequence on ONE parsed dict and ONE Reader object (every helper / property / write_meta_data three times, '
        'geometry_from_meta, a second Reader, re-reads in between): every result must equal the result on a freshly read dict, and the derive '
        'line obtained at the END of the sequence is compared with the model of the file.  A case is non-trivial when it parses and has >= 1 numeric value '
        '(a) or yields a gain vector (b); distinct by sha1 of the text + op.')
ASSUMPTIONS = [
    'the metadata file is decoded as UTF-8 (Python text mode with the sandbox locale); the model works on the decoded str',
    'parsed numbers are non-negative doubles represented exactly (units of 2^-1074); float() = correct rounding to 53 bits (result proved to be '
    'a double, Lemmas/MetaNum.roundUnits_canon; equality with CPython float() checked on every generated token), repr() = shortest digit '
    'string that reads back (equality with CPython repr checked on random doubles each run, incl. powers of two)',
    'the grammar of the round-trip theorem: numeric scalars are integer-valued or have a positional repr (1e-4 <= x: KNOWN FINDING '
    'scientific_repr_scalar for the rest, including overflow to inf), numeric lists are integer-valued and finite',
    'gain vectors are taken from the first n IMRO entries (prefix-saved recordings); non-prefix saved subsets share the caveat F15 (C08)',
    'a one-element list value ([5.0]) is outside the property: read_meta_data never returns one (theorem parse_never_singleton_list), '
    'write_meta_data writes it as a bare integer which is re-read as a scalar (theorem singleton_list_counterexample, observed on the real code '
    'every run as the informational tag singleton-list, never a demand); keys with "~" and values containing "=" ARE inside the round-trip theorem (the key is '
    'stored without tildes, the line is split at the FIRST "=")',
    'translator tie (harness/tiespecs/c09.py): string tests of the source are fixed per item (typeThis == "imec", typ == "nidq"), '
    'md.get(key, default) is an opaque integer whose name carries key and default, exceptions (KeyError of md["imMaxInt"] on NP2) are outside '
    'the integer skeleton; `return list(range(ntr - nsync, ntr))` is read through the block outputs (ntr - nsync, ntr): that the returned range '
    'uses exactly these bounds is covered by the correspondence (nsync, sync channels of sample2volts), not by the tie',
    'int(str) is modelled for ASCII text only, a list-valued niMNGain/niMAGain (NumPy broadcasting) is outside the model (Err.model; never generated)',
    'Reader.fs/nc/nsync/ns/type/version/sample2volts/range_volts are observed on a Reader whose meta and conversion table were set from '
    'read_meta_data/_conversion_sample2v_from_meta without running geometry_from_meta (C08), and through the real constructor on the fixtures',
    'statefulness: only RESULTS are demanded (repeated / interleaved calls on the same dict or Reader give the values of the original file); that '
    'an argument dict stays bit-identical is recorded as the tag arg-modified(info) only, and aliasing of returned arrays is not tested '
    '(Reader.sample2volts IS the stored conversion array, by design); a failing input found by the search is re-evaluated and shrunk in a '
    'new interpreter so that the replay is a call sequence from a clean state',
    'input forms: values of a dict given to write_meta_data may be Python int / float, numpy int64 / int32 / uint16 / float64 (float32 when exact), '
    'lists of ints / floats / numpy ints, in a dict or a Bunch, md_file a str or a Path, arguments positional or by keyword; for the _get_* helpers '
    'also tuples and ndarrays, and the explicit neuropixel_version argument of _get_max_int_from_meta. UNSUPPORTED, excluded: tuple / ndarray values '
    'in write_meta_data (only `list` is serialised: (384, 0, 1) is written as its repr and re-read as a string); narrow numpy ints (uint16/int32) '
    'or float32 in fields that enter products (numpy integer arithmetic wraps: fileTimeSecs=np.uint16(1542) gives ns=57120); forms are compared on '
    'well-formed acquisition metadata only (an ndarray snsApLfSy with no AP and no LF channel raises instead of giving type None). A UTF-8 BOM is '
    'kept in the first key by the code and by the model (SpikeGLX writes none)',
    'derived-quantity oracle tolerances: float32 gains 4e-7 relative (three roundings), float64 1e-14; ns within 0.5 + 1e-9*|ns| of the exact rational product',
]
TRUSTED = [
    'Lean Float/Float32 (IEEE binary64/32 hardware arithmetic) = NumPy float64/float32 arithmetic (bit patterns compared on every case)',
    'NumPy casting rules: float32 array * Python float/int is computed in float32; np.float32(str) parses to double then rounds',
]

_SPECIAL_BREAKS = ['\x0b', '\x0c', '\x1c', '\x1d', '\x1e', '\x85', '\u2028', '\u2029']
_ERRS = (('UnboundLocalError', UnboundLocalError), ('ZeroDivisionError', ZeroDivisionError), ('OverflowError', OverflowError),
         ('KeyError', KeyError), ('IndexError', IndexError), ('TypeError', TypeError), ('ValueError', ValueError))


# ---------------------------------------------------------------------------------------------
# canonical forms (identical to lean/Drivers/C09.lean)
# ---------------------------------------------------------------------------------------------
def enc_text(t):
    return ','.join(str(ord(c)) for c in t) or '-'


def s_enc(s):
    return '.'.join(str(ord(c)) for c in s) or '_'


def s_dec(tok):
    return '' if tok == '_' else ''.join(chr(int(x)) for x in tok.split('.'))


def f_bits(x):
    return struct.unpack('<Q', struct.pack('<d', float(x)))[0]


def f32_bits(x):
    return struct.unpack('<I', struct.pack('<f', x))[0]


def err_name(e):
    for n, c in _ERRS:
        if isinstance(e, c):
            return n
    return type(e).__name__


def v_enc(v):
    if v is None:
        return 'n'
    if isinstance(v, str):
        return 's' + s_enc(v)
    if isinstance(v, bool):
        return 'x' + repr(v)
    if isinstance(v, float):
        return 'f' + str(f_bits(v))
    if isinstance(v, int):
        return 'i' + str(v)
    if isinstance(v, list) and all(type(x) is float for x in v):
        return 'l' + '/'.join(str(f_bits(x)) for x in v)
    return 'x' + repr(v)


def d_enc(d):
    return ';'.join(s_enc(k) + '=' + v_enc(v) for k, v in d.items()) or '-'


def g_enc(a):
    a = np.asarray(a)
    if a.dtype == np.float32:
        return 'f32:' + (','.join(str(int(b)) for b in a.view(np.uint32)) or '-')
    if a.dtype == np.float64:
        return 'f64:' + (','.join(str(int(b)) for b in a.view(np.uint64)) or '-')
    return 'x' + str(a.dtype)


def E(fn, show):
    try:
        return 'ok:' + show(fn())
    except Exception as e:  # noqa
        return 'err:' + err_name(e)


# ---------------------------------------------------------------------------------------------
# the real code
# ---------------------------------------------------------------------------------------------
class Scratch:
    def __enter__(self):
        self.dir = tempfile.mkdtemp(prefix='c09_')
        self.n = 0
        return self

    def __exit__(self, *a):
        shutil.rmtree(self.dir, ignore_errors=True)

    def path(self):
        self.n += 1
        return os.path.join(self.dir, f'm{self.n}.meta')

    def put(self, text):
        p = self.path()
        with open(p, 'w', encoding='utf-8', newline='') as f:
            f.write(text)
        return p


def _hbyte(text, i=0):
    return hashlib.sha1(text.encode('utf-8', 'surrogatepass')).digest()[i]


_PATH_FORMS = ('str,positional', 'Path,positional', 'str,keyword', 'Path,keyword')


def call_read(p, form):
    import spikeglx
    arg = Path(p) if form.startswith('Path') else str(p)
    return spikeglx.read_meta_data(md_file=arg) if form.endswith('keyword') else spikeglx.read_meta_data(arg)


def call_write(d, p, form):
    import spikeglx
    arg = Path(p) if form.startswith('Path') else str(p)
    return spikeglx.write_meta_data(md=d, md_file=arg) if form.endswith('keyword') else spikeglx.write_meta_data(d, arg)


def real_read(sc, text, form=None):
    """read_meta_data on a file holding `text`; the path is given as str / pathlib.Path, positionally / by keyword — a form drawn
    from the content hash (so a replay reproduces it) unless given"""
    p = sc.put(text)
    try:
        return dict(call_read(p, form or _PATH_FORMS[_hbyte(text) % 4]))
    finally:
        os.unlink(p)


def real_write(sc, d, form=None):
    p = sc.path()
    try:
        call_write(d, p, form or _PATH_FORMS[len(d) % 4])
        with open(p, encoding='utf-8', newline='') as f:
            return f.read()
    finally:
        if os.path.exists(p):
            os.unlink(p)


def impl_parse(sc, text):
    try:
        return 'ok ' + d_enc(real_read(sc, text))
    except Exception as e:  # noqa
        return 'err ' + err_name(e)


def impl_roundtrip(sc, text):
    try:
        d = real_read(sc, text)
    except Exception as e:  # noqa
        return 'err-parse ' + err_name(e)
    before = d_enc(d)          # the parsed values, encoded before write_meta_data sees the dict
    try:
        w = real_write(sc, d)
    except Exception as e:  # noqa
        return 'err-write ' + err_name(e)
    try:
        d2 = real_read(sc, w)
    except Exception as e:  # noqa
        return 'err-reparse ' + err_name(e) + ' text=' + s_enc(w)
    return f'ok text={s_enc(w)} dict={d_enc(d2)} same={1 if d_enc(d2) == before else 0}'


def shim_reader(md):
    """A Reader carrying `md` exactly as the constructor would (meta + conversion table), without the geometry (C08)."""
    import spikeglx
    r = spikeglx.Reader.__new__(spikeglx.Reader)
    r.meta = md if isinstance(md, spikeglx.Bunch) else spikeglx.Bunch(md)   # a Bunch is kept as the very object (purity checks)
    try:
        conv = spikeglx._conversion_sample2v_from_meta(r.meta)
        cerr = None
    except Exception as e:  # noqa
        conv, cerr = None, err_name(e)
    r.channel_conversion_sample2v = conv
    return r, conv, cerr


def derived_of_reader(r, conv, cerr):
    import spikeglx
    typ_show = lambda t: 'None' if t is None else t  # noqa
    out = ['ok',
           'version=' + (lambda v: 'None' if v is None else s_enc(v))(r.version),
           'type=' + E(lambda: r.type, typ_show),
           'nc=' + E(lambda: r.nc, lambda x: str(int(x))),
           'nsync=' + E(lambda: r.nsync, str),
           'fs=' + v_enc(r.fs),
           'ns=' + E(lambda: r.ns, str),
           'maxint=' + E(lambda: spikeglx._get_max_int_from_meta(r.meta), str)]
    if cerr:
        out += ['conv=err:' + cerr, 's2v=err:' + cerr, 'range=err:' + cerr]
    else:
        out += ['conv=ok:' + '|'.join(k + '~' + g_enc(v) for k, v in conv.items()),
                's2v=' + E(lambda: r.sample2volts, g_enc),
                'range=' + E(lambda: r.range_volts, g_enc)]
    return ' '.join(out)


def impl_derive(sc, text):
    try:
        md = real_read(sc, text)
    except Exception as e:  # noqa
        return 'err ' + err_name(e)
    with warnings.catch_warnings(), np.errstate(all='ignore'):
        warnings.simplefilter('ignore')
        r, conv, cerr = shim_reader(md)
        return derived_of_reader(r, conv, cerr)


def impl_derive_constructor(sc, text):
    """Same observables through the genuine constructor `Reader(meta_file, open=False)` (fixtures only)."""
    import logging
    import spikeglx
    p = sc.put(text)
    lg = logging.getLogger('ibllib')
    lvl = lg.level
    lg.setLevel(logging.CRITICAL)
    try:
        with warnings.catch_warnings(), np.errstate(all='ignore'):
            warnings.simplefilter('ignore')
            r = spikeglx.Reader(p, open=False)
            return derived_of_reader(r, r.channel_conversion_sample2v, None)
    finally:
        lg.setLevel(lvl)
        os.unlink(p)


# ---------------------------------------------------------------------------------------------
# purity: the model is a pure function of the file content, so the implementation must be one too
# ---------------------------------------------------------------------------------------------
_JUNK = 12345.678
_HELPERS = ('_get_neuropixel_version_from_meta', '_get_neuropixel_major_version_from_meta', '_get_serial_number_from_meta',
            '_get_type_from_meta', '_get_nchannels_from_meta', '_get_sync_trace_indices_from_meta',
            '_get_analog_sync_trace_indices_from_meta', '_get_fs_from_meta', '_get_max_int_from_meta', '_conversion_sample2v_from_meta')


def _show_any(x):
    if isinstance(x, dict):
        return '{' + '|'.join(str(k) + '~' + _show_any(v) for k, v in x.items()) + '}'
    if isinstance(x, np.ndarray):
        return g_enc(x)
    if isinstance(x, list):
        return '[' + ','.join(_show_any(v) for v in x) + ']'
    if isinstance(x, (float, np.floating)):
        return type(x).__name__ + ':' + str(f_bits(x))
    return type(x).__name__ + ':' + repr(x)


def _dict_diff(md, md0):
    if list(md) != list(md0):
        return f'keys {[k for k in md if k not in md0][:3]} added / {[k for k in md0 if k not in md][:3]} removed (or reordered)'
    for k in md0:
        if v_enc(md[k]) != v_enc(md0[k]):
            return f'md[{k!r}] was {md0[k]!r}, now {md[k]!r}'
    return 'changed'


def _fp(md):
    """cheap type-sensitive fingerprint of a metadata dict"""
    return repr([(k, type(v).__name__, v) for k, v in md.items()])


def purity_run(sc, text):
    """One concrete call sequence on the real code, all on the SAME parsed dict / the SAME Reader object.  Returns None when the
    text does not parse, else {'final': derive line obtained at the END of the sequence, 'problems': [...], 'calls': [...],
    'arg_modified': first call after which the dict was not bit-identical (informational only, never a problem by itself)}.
    A problem is a RESULT that differs from the result for the original values:
      reference  every helper on a pristine dict of its own (a fresh read_meta_data of the same file), write of a pristine dict;
      (b) every helper, every Reader property and write_meta_data, three times on the same dict / Reader object;
      (d) in between: write_meta_data, geometry_from_meta and _map_channels_from_meta on that dict, a second Reader on it,
          a re-read of the file, in-place arithmetic on private copies of the gains.
    Whether an argument is modified or a result aliases a buffer is NOT demanded (only its consequences on results are)."""
    import copy
    import logging
    import spikeglx
    problems, calls, argmod = [], [], []
    p = sc.put(text)
    lg = logging.getLogger('ibllib')
    lvl = lg.level
    lg.setLevel(logging.CRITICAL)
    try:
        with warnings.catch_warnings(), np.errstate(all='ignore'):
            warnings.simplefilter('ignore')
            try:
                md = spikeglx.read_meta_data(p)
            except Exception:  # noqa
                return None
            calls.append('md = read_meta_data(f)')
            snap = _fp(md)

            def note(call):
                calls.append(call)
                if not argmod and _fp(md) != snap:
                    argmod.append(f'call {len(calls)} `{call}`')

            # references: each helper on a pristine dict of its own
            ref = {}
            for name in _HELPERS:
                fresh = spikeglx.read_meta_data(p)
                ref[name] = E(lambda: getattr(spikeglx, name)(fresh), _show_any)
            try:
                wref = real_write(sc, spikeglx.read_meta_data(p))
            except Exception as e:  # noqa
                wref = 'err ' + err_name(e)
            rr, rconv, rcerr = shim_reader(spikeglx.read_meta_data(p))
            dref = derived_of_reader(rr, rconv, rcerr)

            def helpers(tag):
                for name in _HELPERS:
                    got = E(lambda: getattr(spikeglx, name)(md), _show_any)
                    note(f'{name}(md)  [{tag}]')
                    if got != ref[name] and (got.startswith('ok:') or ref[name].startswith('ok:')) and len(problems) < 3:
                        problems.append(f'call {len(calls)} `{name}(md)` [{tag} round on the same dict] returned {got[:160]}; '
                                        f'on a freshly read dict of the same file it returns {ref[name][:160]}')

            def props(reader, cerr, call):
                got = derived_of_reader(reader, reader.channel_conversion_sample2v, cerr)
                note(call)
                td = _first_token_diff(dref, got, values_only=True)
                if td and len(problems) < 3:
                    problems.append(f'call {len(calls)} `{call}`: {td} (second value: fresh dict, fresh Reader)')
                return got

            def write(tag):
                try:
                    w = real_write(sc, md)
                except Exception as e:  # noqa
                    w = 'err ' + err_name(e)
                note(f'write_meta_data(md, g)  [{tag}]')
                if w != wref and len(problems) < 3:
                    problems.append(f'call {len(calls)} `write_meta_data(md, g)` [{tag}] wrote {w[:120]!r}; a freshly read dict is written as {wref[:120]!r}')

            helpers('1st')
            r, conv, cerr = shim_reader(md)
            assert r.meta is md
            note('reader = Reader on md (meta = md, conversion table = _conversion_sample2v_from_meta(md))')
            if (cerr or None) != (rcerr or None) and len(problems) < 3:
                problems.append(f'call {len(calls)}: the conversion table on the same dict gave {cerr or "a table"}, on a fresh dict {rcerr or "a table"}')
            props(r, cerr, 'reader.version/type/nc/nsync/fs/ns/sample2volts/range_volts  [1st]')
            write('1st')
            helpers('2nd')
            props(r, cerr, 'same reader: all properties  [2nd]')
            write('2nd')
            # (d) the library's own functions in between
            for fn in ('geometry_from_meta', '_map_channels_from_meta'):
                try:
                    getattr(spikeglx, fn)(md)
                except Exception:  # noqa
                    pass
                note(f'{fn}(md)')
            try:
                spikeglx.read_meta_data(p)
                mdc = copy.deepcopy(md)
                real_write(sc, mdc)
                if conv:
                    for a in conv.values():
                        b = np.array(a)
                        b *= 3
            except Exception:  # noqa
                pass
            note('read_meta_data(f) again; write_meta_data(deepcopy(md), h); private copies of the gains *= 3')
            helpers('3rd')
            props(r, cerr, 'same reader: all properties  [3rd]')
            r4, conv4, cerr4 = shim_reader(md)
            note('reader2 = second Reader on the same md')
            final = props(r4, cerr4, 'reader2: all properties')
            write('3rd')
            return {'final': final, 'problems': problems, 'calls': calls, 'arg_modified': argmod[0] if argmod else None}
    finally:
        lg.setLevel(lvl)
        if os.path.exists(p):
            os.unlink(p)


def _first_token_diff(a, b, values_only=False):
    """first differing `name=value` token; with values_only a difference between two error classes is ignored"""
    if a == b:
        return None
    for x, y in zip(a.split(' '), b.split(' ')):
        if x != y and not (values_only and '=err:' in x and '=err:' in y):
            return f'{y[:140]} instead of {x[:140]}'
    return None if values_only else 'different length'


# ---------------------------------------------------------------------------------------------
# input forms: every legitimate representation of the same metadata values must give the same answers
# ---------------------------------------------------------------------------------------------
def _form_rng(text, salt):
    h = hashlib.sha1((text + '\x00' + str(salt)).encode('utf-8', 'surrogatepass')).digest()
    return np.random.default_rng(list(h[:8]))


def _conv_scalar(v, f):
    return {'float': float, 'int': int, 'np.int64': np.int64, 'np.int32': np.int32, 'np.uint16': np.uint16, 'np.float64': np.float64,
            'np.float32': np.float32}[f](int(v) if f in ('int', 'np.int64', 'np.int32', 'np.uint16') else v)


def _conv_list(v, f):
    iv = [int(x) for x in v]
    if f == 'list-int':
        return iv
    if f == 'list-np.int64':
        return [np.int64(x) for x in iv]
    if f == 'list-mixed':
        return [x if i % 2 else float(x) for i, x in enumerate(iv)]
    if f == 'tuple-int':
        return tuple(iv)
    if f == 'ndarray-int64':
        return np.array(iv, dtype=np.int64)
    if f == 'ndarray-float64':
        return np.array(iv, dtype=np.float64)
    return list(v)


def apply_forms(d, rng, for_write):
    """The same metadata VALUES in another legitimate representation.  Scalars: Python float / int, numpy int64 / int32 / uint16 /
    float64 (float32 only for writing and only when the value is exactly a float32); integer lists: floats, Python ints, numpy
    ints, mixed — and, for the derived-quantity helpers only, tuples and integer / float ndarrays (write_meta_data serialises
    `list` only: UNSUPPORTED forms there, see ASSUMPTIONS); container: dict or Bunch.  Returns (new dict, {key: form})."""
    import spikeglx
    out, spec = {}, {}
    for k, v in d.items():
        f = None
        if type(v) is float and v == v and abs(v) != float('inf'):
            if v.is_integer() and abs(v) < 2 ** 53:
                opts = ['float', 'int', 'np.int64', 'np.float64']
                if for_write:      # narrow numpy ints only where the value is formatted, not multiplied (numpy integer products wrap)
                    if abs(v) < 2 ** 31:
                        opts.append('np.int32')
                    if 0 <= v < 65536:
                        opts.append('np.uint16')
                    if float(np.float32(v)) == v:
                        opts.append('np.float32')
            else:
                opts = ['float', 'np.float64'] + (['np.float32'] if for_write and float(np.float32(v)) == v else [])
            f = opts[int(rng.integers(0, len(opts)))]
            out[k] = _conv_scalar(v, f)
        elif type(v) is list and v and all(type(x) is float and x.is_integer() and abs(x) < 2 ** 53 for x in v):
            opts = ['list-float', 'list-int', 'list-np.int64', 'list-mixed'] + ([] if for_write else ['tuple-int', 'ndarray-int64', 'ndarray-float64'])
            f = opts[int(rng.integers(0, len(opts)))]
            out[k] = _conv_list(v, f)
        else:
            out[k] = v
        if f and f not in ('float', 'list-float'):
            spec[k] = f
    cont = ['dict', 'Bunch'][int(rng.integers(0, 2))]
    spec['<container>'] = cont
    return (spikeglx.Bunch(out) if cont == 'Bunch' else dict(out)), spec


def forms_roundtrip(sc, text, salt=0):
    """write_meta_data(form(parse(file))) re-read, against write_meta_data(parse(file)) re-read.  None when the base round trip does not
    succeed; else (spec, problem or None).  Values are compared, not the written bytes (385 and 385.0 are the same number)."""
    import copy
    try:
        d = real_read(sc, text)
        base = d_enc(real_read(sc, real_write(sc, copy.deepcopy(d))))
    except Exception:  # noqa
        return None
    rng = _form_rng(text, salt)
    fd, spec = apply_forms(d, rng, for_write=True)
    spec['<md_file>'] = _PATH_FORMS[int(rng.integers(0, 4))]
    try:
        w = real_write(sc, fd, form=spec['<md_file>'])
        got = d_enc(real_read(sc, w, form=spec['<md_file>']))
    except Exception as e:  # noqa
        return spec, f'write_meta_data / read_meta_data raised {type(e).__name__}: {e} for the forms {spec}'
    if got != base:
        a, b = got.split(';'), base.split(';')
        k = next((i for i, (x, y) in enumerate(zip(a, b)) if x != y), min(len(a), len(b)))
        key = s_dec((b[k] if k < len(b) else a[k]).split('=')[0])
        return spec, (f'key {key!r} given as {spec.get(key, "parsed float/list")} ({fd.get(key)!r}) is re-read differently from the parsed '
                      f'value {d.get(key)!r} written and re-read; forms {spec}')
    return spec, None


def _values_of(md, spell, ver_form):
    """Derived quantities as VALUES (ints, floats, float64 arrays), helper spelling positional / keyword."""
    import spikeglx
    kw = spell == 'keyword'
    call = (lambda f: f(md=md)) if kw else (lambda f: f(md))
    r, conv, cerr = shim_reader(md)
    out = {}

    def put(name, fn, cast):
        try:
            out[name] = ('ok', cast(fn()))
        except Exception as e:  # noqa
            out[name] = ('err', err_name(e))
    put('version', lambda: call(spikeglx._get_neuropixel_version_from_meta), lambda x: x)
    put('type', lambda: call(spikeglx._get_type_from_meta), lambda x: x)
    put('nc', lambda: call(spikeglx._get_nchannels_from_meta), int)
    put('sync', lambda: call(spikeglx._get_sync_trace_indices_from_meta), lambda x: [int(i) for i in x])
    put('fs', lambda: call(spikeglx._get_fs_from_meta),
        lambda x: x if x is None or isinstance(x, str) else [float(i) for i in x] if isinstance(x, (list, tuple, np.ndarray)) else float(x))
    put('ns', lambda: r.ns, int)
    ver = out['version'][1] if out['version'][0] == 'ok' else None
    if ver_form == 'default' or ver is None:
        put('maxint', lambda: call(spikeglx._get_max_int_from_meta), int)
    elif ver_form == 'positional':
        put('maxint', lambda: spikeglx._get_max_int_from_meta(md, ver), int)
    else:
        put('maxint', lambda: spikeglx._get_max_int_from_meta(md, neuropixel_version=ver), int)
    if kw:
        put('conv', lambda: spikeglx._conversion_sample2v_from_meta(meta_data=md), lambda c: {k: np.asarray(v, dtype=np.float64) for k, v in c.items()})
    else:
        out['conv'] = ('err', cerr) if cerr else ('ok', {k: np.asarray(v, dtype=np.float64) for k, v in conv.items()})
    put('s2v', lambda: r.sample2volts, lambda a: np.asarray(a, dtype=np.float64))
    put('range', lambda: r.range_volts, lambda a: np.asarray(a, dtype=np.float64))
    return out


def _same_value(a, b):
    if a[0] != b[0]:
        return False
    x, y = a[1], b[1]
    if isinstance(x, dict):
        return isinstance(y, dict) and list(x) == list(y) and all(_same_value(('ok', x[k]), ('ok', y[k])) for k in x)
    if isinstance(x, np.ndarray):
        return isinstance(y, np.ndarray) and x.shape == y.shape and bool(np.all((x == y) | (np.abs(x - y) <= 4e-7 * np.abs(y))))
    if isinstance(x, float) and isinstance(y, float):
        return x == y
    return type(x) is type(y) and x == y


def forms_derived(sc, text, salt=0):
    """The derived quantities on form(parse(file)) against those on parse(file), as values (gains to 4e-7 relative: another
    scalar type may move the arithmetic between float32 and float64).  None when the file does not parse; else (spec, problem)."""
    try:
        d = real_read(sc, text)
    except Exception:  # noqa
        return None
    rng = _form_rng(text, salt + 1000)
    fd, spec = apply_forms(d, rng, for_write=False)
    spec['<helpers>'] = ['positional', 'keyword'][int(rng.integers(0, 2))]
    spec['<max_int version arg>'] = ['default', 'positional', 'keyword'][int(rng.integers(0, 3))]
    with warnings.catch_warnings(), np.errstate(all='ignore'):
        warnings.simplefilter('ignore')
        import spikeglx
        base = _values_of(spikeglx.Bunch(d), 'positional', 'default')
        if base['type'] == ('ok', None) or base['type'][0] == 'err' or base['conv'][0] == 'err':
            return None       # not a well-formed acquisition description: nothing to be form-independent about
        got = _values_of(fd, spec['<helpers>'], spec['<max_int version arg>'])
    for k in base:
        if base[k][0] == 'err' and got[k][0] == 'err':
            continue          # which exception an ill-typed field raises is not a value
        if not _same_value(got[k], base[k]):
            def sh(v):
                return (v[0] + ':' + (np.array2string(v[1][:4], precision=9) if isinstance(v[1], np.ndarray) else repr(v[1])))[:160]
            return spec, f'{k} = {sh(got[k])} for the forms {spec}; {sh(base[k])} for the dict as parsed'
    return spec, None


# ---------------------------------------------------------------------------------------------
# generators
# ---------------------------------------------------------------------------------------------
_KEYS = ['acqApLfSy', 'appVersion', 'fileCreateTime', 'fileName', 'fileSHA1', 'fileSizeBytes', 'fileTimeSecs', 'firstSample',
         'gateMode', 'imAiRangeMax', 'imAiRangeMin', 'imCalibrated', 'imDatApi', 'imDatBs_fw', 'imDatHs_sn', 'imDatPrb_pn',
         'imDatPrb_port', 'imDatPrb_slot', 'imDatPrb_sn', 'imDatPrb_type', 'imLEDEnable', 'imRoFile', 'imSampRate', 'imStdby',
         'imMaxInt', 'imProbeSN', 'imProbeOpt', 'nSavedChans', 'snsApLfSy', 'snsSaveChanSubset', 'syncSourcePeriod', 'trigMode',
         'typeEnabled', 'typeImEnabled', 'typeThis', 'userNotes', 'niSampRate', 'niMNGain', 'niMAGain', 'snsMnMaXaDw', 'niAiRangeMax',
         'imroTbl', 'snsChanMap', 'snsShankMap', 'serial', 'neuropixelVersion', 'NP2.4_shank']
_STRS = ['Immediate', 'true', 'false', '', 'imec', 'nidq', 'all', 'D:/Testing Data/t4_g0/t4_g0_t0.imec1.lf.bin', '2019-08-15T17:37:20',
         '1.1.128', 'NP2_QBSC_00\t', 'PXI1Slot2_1ch_Int : 30003.000300', '0:383,768', '(0,384)(0 0 0 500 250 1)(1 0 0 250 125 1)',
         'a=b=c', '=', '==', ' 12', '12 ', '1e5', '-5', '+7', '1_000', 'inf', 'nan', 'None', '\u00b5V', '5e-05', '0x10', '1,2;3',
         'B42FFA9796A7E17FA9B3BE4BA7A223B942724AC7', '~tilde~', '3A', 'NP2.4', '1.2.3,4', '1..2', 'C:\\SpikeGLX\\x.imro', '(1,2,0)',
         '\u0663', '#', 'a b', '\x1f7', '7\x1f']


def _digits(rng, n, first_nonzero=True):
    if n <= 0:
        return ''
    s = ''.join(str(int(x)) for x in rng.integers(0, 10, n))
    if first_nonzero and s[0] == '0':
        s = str(int(rng.integers(1, 10))) + s[1:]
    return s


def gen_scalar(rng):
    """(text, class) of a numeric scalar token; classes follow the property's grammar and its boundaries."""
    k = int(rng.integers(0, 16))
    if k == 0:
        return str(int(rng.integers(0, 1000))), 'int_small'
    if k == 1:
        return _digits(rng, int(rng.integers(4, 16))), 'int_mid'
    if k == 2:
        return str(2 ** 53 + int(rng.integers(-3, 40))), 'int_2p53'
    if k == 3:
        return _digits(rng, int(rng.integers(17, 26))), 'int_big'
    if k == 4:
        return '0' * int(rng.integers(1, 3)) + _digits(rng, int(rng.integers(1, 6)), False), 'int_lead0'
    if k in (5, 6, 7):
        ni, nf = int(rng.integers(0, 7)), int(rng.integers(1, 9))
        return (_digits(rng, ni) or '0') + '.' + _digits(rng, nf, False), 'dec_le15'
    if k == 8:
        ni = int(rng.integers(1, 6))
        return _digits(rng, ni) + '.' + _digits(rng, int(rng.integers(15 - ni, 22 - ni)), False), 'dec_16to21'
    if k == 9:
        return str(int(rng.integers(0, 50))) + '.' + _digits(rng, int(rng.integers(0, 3)), False) + '0' * int(rng.integers(1, 4)), 'dec_trail0'
    if k == 10:
        return [str(int(rng.integers(0, 99))) + '.', '.' + _digits(rng, int(rng.integers(1, 4)), False), '0.0', '0', '00.', '.0'][int(rng.integers(0, 6))], 'dot_edge'
    if k == 11:
        return ['0.0001', '0.00010001', '0.000123', '0.0001' + _digits(rng, 12, False), '0.00099999'][int(rng.integers(0, 5))], 'at_1e-4'
    if k == 12:
        # the sampling rates / durations SpikeGLX writes
        return ['30000', '2500', '30000.207', '2500.0325532900833', '824.4640643928594', '30003.0003', '1568.5368'][int(rng.integers(0, 7))], 'sglx_rate'
    if k == 13:
        return ['0.6', '0.5', '0.62', '1.2', '5', '2.5', '10'][int(rng.integers(0, 7))], 'range'
    if k == 14:
        return str(int(rng.integers(1, 10))) + '0' * int(rng.integers(15, 24)), 'int_pow10'
    return str(int(rng.integers(0, 2 ** 31))), 'int_31bit'


def gen_f12(rng):
    k = int(rng.integers(0, 4))
    if k == 0:
        return '0.00005'
    if k == 1:
        return '0.' + '0' * int(rng.integers(4, 12)) + _digits(rng, int(rng.integers(1, 8)))
    if k == 2:
        return '0.0000' + _digits(rng, int(rng.integers(1, 17)))
    return '9' * int(rng.integers(309, 330))


def gen_intlist(rng):
    n = int(rng.integers(2, 7))
    k = int(rng.integers(0, 5))
    if k == 0:
        return ['384,0,1', '0,384,1', '0,0,1,1', '384,384,1', '1,2', '0,0'][int(rng.integers(0, 6))]
    if k == 1:
        return ','.join(_digits(rng, int(rng.integers(1, 20))) for _ in range(n))
    if k == 2:   # one element written with a (single) decimal point, still an integer
        parts = [str(int(rng.integers(0, 400))) for _ in range(n)]
        parts[int(rng.integers(0, n))] += ['.0', '.', '.00'][int(rng.integers(0, 3))]
        return ','.join(parts)
    return ','.join(str(int(rng.integers(0, 1000))) for _ in range(n))


def gen_key(rng):
    k = int(rng.integers(0, 10))
    if k <= 5:
        key = _KEYS[int(rng.integers(0, len(_KEYS)))]
    elif k <= 7:
        key = ''.join(chr(int(c)) for c in rng.choice([*range(97, 123), *range(65, 91), 95, 46, 32, 48, 49], int(rng.integers(1, 9))))
    elif k == 8:
        key = ''
    else:
        key = ['k\u00e9y', 'a b', 'x~y', '~', '~~a', 'K', 'k.1'][int(rng.integers(0, 7))]
    t = int(rng.integers(0, 8))
    if t == 0:
        key = '~' + key
    elif t == 1 and key:
        i = int(rng.integers(0, len(key) + 1))
        key = key[:i] + '~' + key[i:]
    return key


def gen_value(rng, allow_bad):
    k = int(rng.integers(0, 20))
    if k <= 5:
        return _STRS[int(rng.integers(0, len(_STRS)))], 'str'
    if k == 6:
        return ''.join(chr(int(c)) for c in rng.choice([*range(32, 127)], int(rng.integers(0, 12)))), 'str_rand'
    if k <= 12:
        t, c = gen_scalar(rng)
        return t, c
    if k <= 15:
        return gen_intlist(rng), 'intlist'
    if not allow_bad:
        t, c = gen_scalar(rng)
        return t, c
    if k == 16:
        return ['1.5,2', '0.25,3,4', '7,0.5'][int(rng.integers(0, 3))], 'nonint_list'
    if k == 17:
        return ['1,,2', ',', '.', '1,', ',1', '.,1', '1,.'][int(rng.integers(0, 7))], 'bad_numeric'
    if k == 18:
        return gen_f12(rng), 'F12'
    return '1' + _SPECIAL_BREAKS[int(rng.integers(0, len(_SPECIAL_BREAKS)))] + ['b=2', 'c', ''][int(rng.integers(0, 3))], 'break_inside'


def gen_grammar_text(rng, mode):
    """mode: 'clean' (the property's grammar), 'wild' (malformed lines, F12 class, odd line ends)."""
    n = int(rng.integers(1, 15))
    lines, classes = [], set()
    for _ in range(n):
        v, c = gen_value(rng, allow_bad=(mode == 'wild' and rng.integers(0, 3) == 0))
        classes.add(c)
        lines.append(gen_key(rng) + '=' + v)
    if mode == 'wild':
        k = int(rng.integers(0, 8))
        if k == 0:
            lines.insert(int(rng.integers(0, len(lines) + 1)), '')
            classes.add('blank_line')
        elif k == 1:
            lines.insert(int(rng.integers(0, len(lines) + 1)), 'noequals')
            classes.add('no_eq')
    eol = '\n'
    k = int(rng.integers(0, 12))
    if k == 0:
        eol = '\r\n'
    elif k == 1:
        eol = '\r'
    elif k == 2 and mode == 'wild':
        eol = _SPECIAL_BREAKS[int(rng.integers(0, len(_SPECIAL_BREAKS)))]
    if eol != '\n':
        classes.add('eol_' + repr(eol).strip("'"))
    text = eol.join(lines) + (eol if rng.integers(0, 4) else '')
    if mode == 'wild' and rng.integers(0, 10) == 0:
        text = '\ufeff' + text
        classes.add('BOM')
    return text, classes


_GAINS = [50, 125, 250, 500, 1000, 1500, 2000, 3000]


_PROBES = ['3A', '3B1', '3B2', 'NP2.1', 'NP2.4', 'NPultra', 'nidq', 'unknown']


def gen_acq(rng, small=False, mutate=False, probe=None, nosync=False):
    """Acquisition metadata for one probe type / stream / gain table / saved-channel count.  Returns (text, tags).
    `probe` fixes the probe generation; `nosync` forces a header WITHOUT sync word (imec: snsApLfSy = n,0,0 / 0,n,0; nidq: no
    digital word, snsMnMaXaDw = mn,ma,xa,0) with at least one saved channel."""
    k0 = int(rng.integers(0, 8))
    probe = probe or _PROBES[k0]
    f = {}
    tags = ['probe=' + probe]
    if probe == 'nidq':
        mn, ma, xa, dw = (int(x) for x in rng.integers(0, 4 if small else 9, 4))
        if rng.integers(0, 4) == 0:
            mn = ma = 0
        if nosync:
            dw = 0
            xa = xa if rng.integers(0, 2) else 0
            mn = max(mn, 1)
        f['typeThis'] = 'nidq'
        f['snsMnMaXaDw'] = f'{mn},{ma},{xa},{dw}'
        f['nSavedChans'] = str(mn + ma + xa + dw)
        f['niAiRangeMax'] = ['5', '2.5', '10', '1', '4.096'][int(rng.integers(0, 5))]
        f['niMNGain'] = ['200', '1', '500', '2.5', '1000'][int(rng.integers(0, 5))]
        f['niMAGain'] = ['1', '10', '100', '3'][int(rng.integers(0, 4))]
        f['niSampRate'] = ['30003.0003', '25000', '30000.193', '10000.5'][int(rng.integers(0, 4))]
        if rng.integers(0, 6) == 0:
            f['imMaxInt'] = '32768'
        f['fileTimeSecs'] = gen_duration(rng, f['niSampRate'])
        tags.append(f'nidq_blocks={int(mn > 0)}{int(ma > 0)}{int(xa > 0)}{int(dw > 0)}')
    else:
        stream = 'ap' if rng.integers(0, 2) else 'lf'
        if probe in ('NP2.1', 'NP2.4'):
            stream = 'ap' if rng.integers(0, 5) else 'lf'
        tags.append('stream=' + stream)
        nent = int(rng.choice([2, 3, 5, 8, 16, 32, 96, 384], p=[.15, .15, .15, .15, .15, .1, .05, .1])) if not small else int(rng.integers(1, 4))
        nsy = [0, 1, 1, 1, 2, 3][int(rng.integers(0, 6))]      # no sync word, one (usual), several
        k = int(rng.integers(0, 6))
        if k <= 1:
            nchn, sub = nent, 'full'
        elif k <= 3:
            nchn, sub = int(rng.integers(1, nent + 1)), 'prefix'
        elif k == 4:
            nchn, sub = nent + 1, 'beyond_table'
        else:
            nchn, sub = 0, 'sync_only'
        if nosync:
            nsy = 0
            if k >= 4:
                nchn, sub = nent, 'full'
        tags += [f'saved={sub}', f'nsync={nsy}', 'imro=' + ('384' if nent == 384 else '<=8' if nent <= 8 else '9..96')]
        f['typeThis'] = 'imec'
        f['nSavedChans'] = str(nchn + nsy)
        f['snsApLfSy'] = (f'{nchn},0,{nsy}' if stream == 'ap' else f'0,{nchn},{nsy}')
        f['acqApLfSy'] = f'{nent},{nent},1'
        f['imAiRangeMax'] = ['0.6', '0.5', '0.62', '1.2', '0.6000000000000001', '1'][int(rng.integers(0, 6))]
        f['imSampRate'] = (['30000', '30000.207', '29999.9876543', '30000.0'] if stream == 'ap' else ['2500', '2500.0325532900833', '2499.99'])[int(rng.integers(0, 3))]
        f['fileTimeSecs'] = gen_duration(rng, f['imSampRate'])
        gk = int(rng.integers(0, 4))  # gain table: never uniform unless gk == 3
        rows = []
        for c in range(nent):
            if gk == 0:
                ap, lf = int(rng.choice(_GAINS)), int(rng.choice(_GAINS))
            elif gk == 1:
                ap, lf = int(rng.integers(1, 5000)), int(rng.integers(1, 5000))
            elif gk == 2:
                ap, lf = _GAINS[c % 8], _GAINS[(c * 3 + 1) % 8]
            else:
                ap, lf = 500, 250
            rows.append((c, int(rng.integers(0, 3)), int(rng.integers(0, 2)), ap, lf))
        if gk != 3 and nent >= 2 and all(r[3] == r[4] for r in rows):
            rows[0] = rows[0][:4] + (rows[0][4] + 1,)
        tags.append('gains=' + ['sglx_set', 'arbitrary', 'cyclic', 'uniform'][gk])
        sn = str(int(rng.integers(10 ** 8, 10 ** 11)))
        if probe == '3A':
            f['typeEnabled'] = 'imec'
            f['imProbeSN'] = sn
            f['imProbeOpt'] = '3'
            f['~imroTbl'] = f'({sn},3,{nent})' + ''.join(f'({c} {b} {r} {a} {l})' for c, b, r, a, l in rows)
        else:
            ptype = {'3B1': '0', '3B2': '0', 'NP2.1': ['21', '1030'][int(rng.integers(0, 2))], 'NP2.4': ['24', '2013'][int(rng.integers(0, 2))],
                     'NPultra': '1100', 'unknown': ['1', '22', '1123', '2003'][int(rng.integers(0, 4))]}[probe]
            f['imDatPrb_type'] = ptype
            f['imDatPrb_sn'] = sn
            if probe != '3B1':
                f['imDatPrb_port'] = str(int(rng.integers(1, 5)))
                f['imDatPrb_slot'] = str(int(rng.integers(2, 8)))
            elif rng.integers(0, 2):
                f['imDatPrb_port'] = '1'
            if probe in ('NP2.1', 'NP2.4'):
                f['imMaxInt'] = ['8192', '2048', '512'][int(rng.integers(0, 3))]
                f['~imroTbl'] = f'({ptype},{nent})' + ''.join(f'({c} {b} {r} {c % 4} {c})' for c, b, r, a, l in rows)
            else:
                if probe == 'NPultra' or rng.integers(0, 3) == 0:
                    f['imMaxInt'] = ['512', '2048'][int(rng.integers(0, 2))]
                f['~imroTbl'] = f'({ptype},{nent})' + ''.join(f'({c} {b} {r} {a} {l} {int(rng.integers(0, 2))})' for c, b, r, a, l in rows)
        if rng.integers(0, 3) == 0:
            f['imroTbl'] = f.pop('~imroTbl')
    f['fileSHA1'] = 'B42FFA9796A7E17FA9B3BE4BA7A223B942724AC7'
    f['userNotes'] = ''
    if mutate:
        keys = list(f)
        k = keys[int(rng.integers(0, len(keys)))]
        m = int(rng.integers(0, 9))
        tags.append('mutated')
        if m == 0:
            del f[k]
        elif m == 1:
            f[k] = 'abc'
        elif m == 2:
            f[k] = '1,2'
        elif m == 3:
            f[k] = '0'
        elif m == 4:
            f[k] = ''
        elif m == 5:
            f[k] = '7'
        elif m == 6:
            f[k] = ['+3', ' 2', '1_0', '-1', 'a1', '1a'][int(rng.integers(0, 6))]
        elif m == 7:
            f[k] = '1,2,3,4'
        else:
            f[k] = '0.5'
    items = sorted(f.items(), key=lambda kv: (kv[0].startswith('~'), kv[0])) if rng.integers(0, 3) else [(k, f[k]) for k in rng.permutation(list(f))]
    eol = '\r\n' if rng.integers(0, 10) == 0 else '\n'
    text = eol.join(f'{k}={v}' for k, v in items) + (eol if rng.integers(0, 6) else '')
    if eol != '\n':
        tags.append('eol=CRLF')
    if not text.endswith(eol):
        tags.append('no-final-eol')
    if rng.integers(0, 25) == 0:
        text = '\ufeff' + text       # a UTF-8 byte order mark: the code keeps it in the first key, so does the model
        tags.append('BOM')
    return text, tags


def gen_duration(rng, fs_text):
    k = int(rng.integers(0, 4))
    fs = Fraction(fs_text)
    if k == 0:
        return str(int(rng.integers(0, 4000)))
    if k == 1:
        ns = int(rng.integers(1, 10 ** 8))
        return f'{float(ns / fs):.10f}'.rstrip('0').rstrip('.') or '0'
    if k == 2:  # a product near a half-integer
        ns = int(rng.integers(1, 10 ** 6))
        return repr(float((Fraction(2 * ns + 1, 2)) / fs))
    return f'{rng.uniform(0, 5000):.{int(rng.integers(1, 11))}f}'


def fixture_texts():
    from framework import SRC
    out = []
    for p in sorted((SRC / 'tests' / 'fixtures').rglob('*.meta')):
        with open(p, encoding='utf-8', newline='') as f:
            out.append((str(p.relative_to(SRC)), f.read()))
    return out


# ---------------------------------------------------------------------------------------------
# correspondence
# ---------------------------------------------------------------------------------------------
CASES = {}    # sha -> full text (the evidence keeps a preview only)


def _desc(op, text, **kw):
    sha = hashlib.sha1(text.encode('utf-8', 'surrogatepass')).hexdigest()[:16]
    CASES[sha] = text
    d = {'op': op, 'sha': sha, 'text': text if len(text) <= 400 else text[:400] + '…'}
    d.update(kw)
    return d


def correspondence(ctx):
    rng = ctx.rng
    lines, impl, meta = [], [], []

    def add(op, text, impl_s, nontrivial, tags, **kw):
        lines.append(f'{op} {enc_text(text)}')
        impl.append(impl_s)
        meta.append((op, _desc(op, text, **kw), nontrivial, tuple(tags)))

    pure = []   # (desc, tags, first problem or None)
    formed = []

    with Scratch() as sc:
        def purity_case(text, tags):
            """call sequence of `purity_run`; the derive line obtained at its END is compared with the model of the file"""
            pr = purity_run(sc, text)
            if pr is None:
                return
            add('derive', text, pr['final'], ' conv=ok:' in pr['final'], ('derive', 'after-call-sequence'), sequence='purity_run')
            pure.append((_desc('purity', text), tags + (('arg-modified(info)',) if pr['arg_modified'] else ()),
                         pr['problems'][0] if pr['problems'] else None, len(pr['calls']), pr['arg_modified']))

        def forms_case(op, fn, text, salt):
            """another representation of the same values (drawn independently of them) against the plain parsed dict, which is itself
            compared with the model by the 'roundtrip' / 'derive' case of the same text"""
            fr = fn(sc, text, salt)
            if fr is None:
                return
            spec, problem = fr
            used = sorted({v for k, v in spec.items() if not k.startswith('<')})
            tags = (op,) + tuple('form:' + v for v in used) + tuple(f'form:{k}={v}' for k, v in spec.items() if k.startswith('<'))
            formed.append((_desc(op, text, salt=salt, forms={k: v for k, v in list(spec.items())[:12]}), tags, problem))

        # (c) float() and repr() of the model against CPython
        nfloat = ctx.n(1500, 20000)
        for _ in range(nfloat):
            tok, cls = gen_scalar(rng) if rng.integers(0, 8) else (gen_f12(rng), 'F12')
            if rng.integers(0, 10) == 0:   # halfway and near-halfway cases of the binary rounding
                m = int(rng.integers(2 ** 52, 2 ** 53)) * 2 + 1
                e = int(rng.integers(-30, 40))
                fr = Fraction(m) * Fraction(2) ** (e - 53)
                tok = f'{Decimal(fr.numerator) / Decimal(fr.denominator):f}' if fr.denominator.bit_length() < 90 else tok
                if len(tok) > 60:
                    tok = tok[:int(rng.integers(18, 60))]
                cls = 'halfway'
            try:
                x = float(tok)
                a = 'ok ' + str(f_bits(x))
            except ValueError:
                a = 'err ValueError'
            add('float', tok, a, True, ('float', 'float:' + cls))
        reprs = []
        for _ in range(ctx.n(1500, 20000)):
            k = int(rng.integers(0, 5))
            if k == 0:
                x = float(rng.uniform(0, 1))
            elif k == 1:
                x = float(np.exp(rng.uniform(np.log(1e-4), np.log(1e16))))
            elif k == 2:
                x = float(gen_scalar(rng)[0])
            elif k == 3:
                x = float(2.0 ** int(rng.integers(-60, 60))) * (1 if rng.integers(0, 2) else (1 + 2.0 ** -52))
            else:
                x = float(np.exp(rng.uniform(np.log(1e-300), np.log(1e300))))
            if x == float('inf') or x != x:
                continue
            reprs.append(x)
        for x in reprs:
            lines.append(f'repr {f_bits(x)}')
            impl.append('ok ' + s_enc(repr(x)))
            meta.append(('repr', {'op': 'repr', 'x': repr(x)}, True,
                         ('repr', 'repr:' + ('exp' if 'e' in repr(x) else 'positional'))))

        # (a) grammar texts: parse + round trip
        for i in range(ctx.n(2500, 30000)):
            mode = 'clean' if i % 3 else 'wild'
            text, classes = gen_grammar_text(rng, mode)
            r = impl_roundtrip(sc, text)
            has_num = bool(classes - {'str', 'str_rand'})
            tags = ['roundtrip', 'mode=' + mode, 'outcome=' + r.split()[0] + ('' if r.startswith('ok') else ':' + r.split()[1])] + \
                   ['val:' + c for c in sorted(classes)]
            if r.startswith('ok'):
                tags.append('same=' + r.rsplit('same=', 1)[1])
            add('roundtrip', text, r, r.startswith('ok') and has_num, tags)
            if i % 4 == 0:
                add('parse', text, impl_parse(sc, text), False, ('parse',))
            if i % 16 == 1:
                purity_case(text, ('purity', 'purity:grammar'))
            if i % 5 == 2 and r.startswith('ok'):
                forms_case('forms-roundtrip', forms_roundtrip, text, i)

        # (b) acquisition metadata: derived quantities + round trip
        for i in range(ctx.n(1500, 16000)):
            text, tags = gen_acq(rng, small=(i % 5 == 0), mutate=(i % 4 == 3))
            r = impl_derive(sc, text)
            conv_ok = ' conv=ok:' in r
            t2 = ['derive'] + tags + ['conv=' + ('ok' if conv_ok else (re.search(r'conv=err:(\w+)', r) or [0, 'parse-error'])[1])]
            add('derive', text, r, conv_ok, t2)
            if i % 3 == 0 or i % 4 == 0:
                rr = impl_roundtrip(sc, text)
                add('roundtrip', text, rr, rr.startswith('ok'), ('roundtrip', 'mode=acq', 'outcome=' + rr.split()[0]))
            if i % 4 == 0:
                forms_case('forms-roundtrip', forms_roundtrip, text, i)
            if i % 4 == 2:
                forms_case('forms-derived', forms_derived, text, i)
            if i % 6 == 1:
                purity_case(text, ('purity', 'purity:acq', 'purity:' + ('conv-ok' if conv_ok else 'conv-err')))

        # (b') headers WITHOUT sync word, every probe generation x AP / LF (x full / prefix) and nidq without digital word, every run:
        # the gain vector is then the per-channel gains and nothing else (theorem gain_assembly with nsy = 0)
        for probe in _PROBES:
            for j in range(ctx.n(6, 40)):
                text, tags = gen_acq(rng, small=(j % 3 == 0), probe=probe, nosync=True)
                r = impl_derive(sc, text)
                conv_ok = ' conv=ok:' in r
                add('derive', text, r, conv_ok, ['derive', 'no-sync-word'] + tags + ['conv=' + ('ok' if conv_ok else 'err')])
                if j % 3 == 1:
                    purity_case(text, ('purity', 'purity:no-sync-word'))

        # (d) shipped fixtures, also through the genuine Reader constructor
        fx = fixture_texts()
        for name, text in fx:
            add('roundtrip', text, impl_roundtrip(sc, text), True, ('roundtrip', 'fixture'), fixture=name)
            add('derive', text, impl_derive(sc, text), True, ('derive', 'fixture'), fixture=name)
            purity_case(text, ('purity', 'purity:fixture'))
            forms_case('forms-roundtrip', forms_roundtrip, text, 0)
            forms_case('forms-derived', forms_derived, text, 0)
            forms_case('forms-derived', forms_derived, text, 1)
            try:
                rc = impl_derive_constructor(sc, text)
            except Exception as e:  # noqa  (constructor stops where the shim reports the conversion error)
                rc = None
                ctx.note(f'fixture {name}: Reader constructor raised {type(e).__name__}: {e}')
            if rc is not None:
                add('derive', text, rc, True, ('derive', 'fixture-constructor'), fixture=name, via='Reader(meta, open=False)')
        ctx.note(f'{len(fx)} fixture .meta files')

    model = ctx.lean(lines)
    n_model_skip = 0
    for (op, desc, nontrivial, tags), a, b in zip(meta, impl, model):
        if 'Model' in b and 'Model' not in a:
            # input outside what the model transcribes (non-ASCII int(), list-valued nidq gain): counted, not compared
            n_model_skip += 1
            ctx.case(desc, False, tags + ('out-of-model',))
            continue
        ctx.compare(op, desc, a, b, nontrivial=nontrivial, tags=tags)
    ctx.note(f'{n_model_skip} case(s) outside the model (Err.model) were not compared')
    for desc, tags, problem, ncalls, am in pure:
        ctx.compare('purity', desc, problem or 'same-results', 'same-results', nontrivial=True, tags=tags)
    for desc, tags, problem in formed:
        ctx.compare(desc['op'], desc, problem or 'same-values', 'same-values', nontrivial=True, tags=tags)
    if formed:
        ctx.note(f'{len(formed)} input-form cases (scalar / list / container / path / spelling forms drawn independently of the values): '
                 f'{sum(1 for q in formed if q[2])} with a different value')
    if pure:
        am = [q[4] for q in pure if q[4]]
        ctx.note(f'{len(pure)} call sequences of {pure[0][3]} calls each on one dict / one Reader (three rounds, interleaved library calls): '
                 f'{sum(1 for q in pure if q[2])} with a wrong result; argument dict modified in {len(am)} (informational'
                 + (f', first: {am[0]}' if am else '') + ')')
    _assert_constants(ctx)
    _assert_singleton(ctx)


def _assert_singleton(ctx):
    """theorems singleton_list_counterexample / parse_never_singleton_list next to the real code: a one-element list is written as a
    bare integer and read back as a scalar.  INFORMATIONAL only (tag, note): the class is outside the property's quantifier
    (read_meta_data never returns a one-element list), so a rewrite that treats it differently must not raise an alarm."""
    with Scratch() as sc:
        seen = []
        for x in (5.0, 0.0, 384.0):
            try:
                w = real_write(sc, {'a': [x]})
                back = real_read(sc, w)['a']
                same = (w == f'a={int(x)}\n' and type(back) is float and back == x)
            except Exception as e:  # noqa
                same = False
                w = 'err ' + type(e).__name__
            seen.append(same)
            ctx.case({'op': 'singleton-list', 'value': [x], 'written': w}, False,
                     ('singleton-list', 'singleton-list:' + ('unnested-as-in-the-model(info)' if same else 'other(info)')))
        ctx.note(f'one-element list values (outside the property): written as a bare integer and re-read as a scalar in {sum(seen)}/3 cases '
                 '(model: singleton_list_counterexample)')


def _assert_constants(ctx):
    """Numbers the model hard-codes and the code owns (defaults of _get_max_int_from_meta, the NP2 gain 80): checked by what the
    code DOES on minimal metadata, never by looking for a literal in its source text (a renamed constant must not alarm)."""
    import spikeglx
    probes = [
        ('np1 default max int', lambda: int(spikeglx._get_max_int_from_meta({'typeThis': 'imec', 'imDatPrb_type': 0})), 512),
        ('nidq default max int', lambda: int(spikeglx._get_max_int_from_meta({'typeThis': 'nidq'})), 32768),
    ]

    def np2_gain():
        md = {'typeThis': 'imec', 'imDatPrb_type': 21, 'imMaxInt': 8192, 'imAiRangeMax': 0.5, 'imAiRangeMin': -0.5,
              'snsApLfSy': [2, 0, 1], 'nSavedChans': 3, 'imroTbl': '(21,2)(0 0 0 0 0)(1 0 0 0 1)'}
        c = spikeglx._conversion_sample2v_from_meta(md)
        return float(np.float32(0.5 / 8192) / np.float32(c['ap'][0]))
    probes.append(('np2 fixed gain', lambda: round(np2_gain(), 3), 80.0))
    for name, f, want in probes:
        try:
            got = f()
        except Exception as e:  # noqa
            got = 'err ' + type(e).__name__
        ctx.compare('constant', {'op': 'constant', 'what': name}, got, want, nontrivial=False, tags=('constant',))


# ---------------------------------------------------------------------------------------------
# oracle: the property text, read independently of the model
# ---------------------------------------------------------------------------------------------
def _in_f12_class(v):
    return isinstance(v, float) and not v.is_integer() and ('e' in repr(v) or 'inf' in repr(v) or 'nan' in repr(v))


_TOK = re.compile(r'([0-9]+\.?[0-9]*|\.[0-9]+)\Z')


def _well_formed(text):
    """The property's grammar, recognised independently: key=value lines (\\n, \\r\\n or \\r ends), every value that looks numeric
    ([0-9,.]*, fewer than two points) is a comma separated list of well-formed decimal tokens, the serial-number fields are numeric."""
    if any(b in text for b in _SPECIAL_BREAKS):
        return False
    lines = re.split('\r\n|\r|\n', text)
    if lines and lines[-1] == '':
        lines.pop()
    fields = {}
    for line in lines:
        if '=' not in line:
            return False
        k, v = line.split('=', 1)
        fields[k.replace('~', '')] = v
        if v and re.fullmatch('[0-9,.]*', v) and v.count('.') < 2:
            if not all(_TOK.match(t) and len(t) < 300 for t in v.split(',')):
                return False
    for k in ('imProbeSN', 'imDatPrb_sn'):
        if fields.get(k, '') and not _TOK.match(fields[k]):
            return False
    return True


def oracle_roundtrip(sc, text):
    """None when the property holds or does not apply; else a description of the violation."""
    try:
        d = real_read(sc, text)
    except Exception as e:  # noqa
        if _well_formed(text):
            return (f'read_meta_data raised {type(e).__name__}: {e} on a file made of well-formed key=value lines '
                    f'(md_file given as {_PATH_FORMS[_hbyte(text) % 4]})')
        return None     # not a metadata file of the grammar: outside the quantifier
    for k, v in d.items():
        if isinstance(v, list) and not all(isinstance(x, float) and x.is_integer() for x in v):
            return None    # not an integer list
        if _in_f12_class(v):
            return None    # KNOWN FINDING scientific_repr_scalar
    import copy
    passed, d = d, copy.deepcopy(d)      # `d`: the parsed values; `passed`: the object handed to write_meta_data
    try:
        w = real_write(sc, passed)
        d2 = real_read(sc, w)
    except Exception as e:  # noqa
        return (f'writing / re-reading raised {type(e).__name__}: {e} (write_meta_data arguments given as {_PATH_FORMS[len(d) % 4]}, '
                f'read_meta_data as {_PATH_FORMS[_hbyte(w) % 4] if "w" in dir() else _PATH_FORMS[_hbyte(text) % 4]})')
    if list(d2) != list(d):
        return f'keys after the round trip {list(d2)[:8]} != {list(d)[:8]}'
    for k in d:
        if type(d2[k]) is not type(d[k]) or d2[k] != d[k]:
            return f'key {k!r}: {d[k]!r} was written and re-read as {d2[k]!r}'
    return None


def _fields(text):
    f = {}
    for line in re.split('\r\n|\r|\n', text):
        if '=' in line:
            k, v = line.split('=', 1)
            f[k.replace('~', '')] = v
    return f


_INT = re.compile(r'[0-9]+\Z')
_DEC = re.compile(r'([0-9]+\.?[0-9]*|\.[0-9]+)\Z')


def oracle_derived(sc, text):
    """Independent reading (decimal / fractions) of the fields the derived quantities come from.  Applies to well-formed
    acquisition metadata only (all needed fields present and well typed, IMRO table covering the saved channels)."""
    import spikeglx
    f = _fields(text)
    tt = f.get('typeThis')
    if tt not in ('imec', 'nidq') or not _INT.match(f.get('nSavedChans', '')):
        return None
    nc = int(f['nSavedChans'])
    # expected probe generation
    if 'typeEnabled' in f:
        ver = '3A'
    elif _DEC.match(f.get('imDatPrb_type', '')):
        pt = Fraction(f['imDatPrb_type'])
        ver = ('3B2' if ('imDatPrb_port' in f and 'imDatPrb_slot' in f) else '3B1') if pt == 0 else \
            {21: 'NP2.1', 1030: 'NP2.1', 24: 'NP2.4', 2013: 'NP2.4', 1100: 'NPultra'}.get(pt)
    else:
        ver = None
    if tt == 'imec':
        if ver is None or not re.match(r'[0-9]+,[0-9]+,[0-9]+\Z', f.get('snsApLfSy', '')):
            return None
        a, l, nsy = (int(x) for x in f['snsApLfSy'].split(','))
        if (a > 0) == (l > 0):
            return None
        typ = 'ap' if a > 0 else 'lf'
        nchn = a + l
        if nc != nchn + nsy or not _DEC.match(f.get('imAiRangeMax', '')) or not _DEC.match(f.get('imSampRate', '')):
            return None
        rng_v, fs_t = Fraction(f['imAiRangeMax']), f['imSampRate']
        np2 = ver in ('NP2.1', 'NP2.4')
        if 'imMaxInt' in f:
            if not _INT.match(f['imMaxInt']):
                return None
            maxint = int(f['imMaxInt'])
        elif np2:
            return None
        else:
            maxint = 512
        if 'imroTbl' not in f:
            return None
        if np2:
            gains = [Fraction(80)] * nchn
        else:
            ent = [e.split(' ') for e in re.findall(r'\(([^()]*)\)', f['imroTbl'])[1:]]
            if len(ent) < nchn or any(len(e) < 5 or not all(_INT.match(x) for x in e[:5]) for e in ent[:nchn]):
                return None
            gains = [Fraction(int(e[3 if typ == 'ap' else 4])) for e in ent[:nchn]]
        units = [True] * nchn + [False] * nsy
        gains = gains + [None] * nsy
    else:
        if 'snsApLfSy' in f or not re.match(r'[0-9]+,[0-9]+,[0-9]+,[0-9]+\Z', f.get('snsMnMaXaDw', '')):
            return None
        mn, ma, xa, dw = (int(x) for x in f['snsMnMaXaDw'].split(','))
        if nc != mn + ma + xa + dw or 'imMaxInt' in f and f['imMaxInt'] != '32768':
            return None
        if not all(_DEC.match(f.get(k, '')) for k in ('niAiRangeMax', 'niSampRate', 'niMNGain', 'niMAGain')):
            return None
        typ, nsy, maxint = 'nidq', dw, 32768
        rng_v, fs_t = Fraction(f['niAiRangeMax']), f['niSampRate']
        gains = [Fraction(f['niMNGain'])] * mn + [Fraction(f['niMAGain'])] * ma + [Fraction(1)] * xa + [None] * dw
        units = [True] * (mn + ma + xa) + [False] * dw
    if maxint <= 0 or rng_v <= 0 or any(g is not None and g <= 0 for g in gains):
        return None
    if not _well_formed(text):
        return None
    try:
        md = real_read(sc, text)
    except Exception as e:  # noqa
        return f'read_meta_data raised {type(e).__name__}: {e} on a file made of well-formed key=value lines'
    with warnings.catch_warnings(), np.errstate(all='ignore'):
        warnings.simplefilter('ignore')
        r, conv, cerr = shim_reader(md)
        if cerr:
            return f'_conversion_sample2v_from_meta raised {cerr} on well-formed metadata'
        try:
            got = {'version': r.version, 'type': r.type, 'nc': r.nc, 'nsync': r.nsync, 'fs': r.fs,
                   'maxint': spikeglx._get_max_int_from_meta(r.meta)}
            s2v = np.asarray(r.sample2volts)
            rv = np.asarray(r.range_volts)
        except Exception as e:  # noqa
            return f'derived quantity raised {type(e).__name__}: {e}'
        exp = {'version': ver, 'type': typ, 'nc': nc, 'nsync': nsy, 'fs': float(Fraction(fs_t)), 'maxint': maxint}
        for k in exp:
            if got[k] != exp[k]:
                return f'{k} = {got[k]!r}, the fields say {exp[k]!r}'
        if _DEC.match(f.get('fileTimeSecs', '')):
            exact = Fraction(f['fileTimeSecs']) * Fraction(fs_t)
            try:
                ns = r.ns
            except Exception as e:  # noqa
                return f'ns raised {type(e).__name__}: {e}'
            if abs(ns - exact) > Fraction(1, 2) + abs(exact) / 10 ** 9:
                return f'ns = {ns}, fileTimeSecs * fs = {float(exact)!r}'
        if s2v.shape != (nc,) or rv.shape != (nc,):
            return f'sample2volts has shape {s2v.shape}, range_volts {rv.shape}; {nc} channels are saved'
        tol = 4e-7 if s2v.dtype == np.float32 else 1e-14
        for i in range(nc):
            if units[i]:
                e = rng_v / maxint / gains[i]
                if abs(Fraction(float(s2v[i])) / e - 1) > tol:
                    return (f'sample2volts[{i}] = {float(s2v[i])!r}; range/maxint/gain = {float(rng_v)}/{maxint}/{float(gains[i])} '
                            f'= {float(e)!r} ({typ} stream, version {ver})')
                if abs(Fraction(float(rv[i])) / (rng_v / gains[i]) - 1) > 2 * tol:
                    return f'range_volts[{i}] = {float(rv[i])!r}; range/gain = {float(rng_v / gains[i])!r}'
            else:
                if float(s2v[i]) != 1.0:
                    return f'sample2volts[{i}] = {float(s2v[i])!r} on a sync channel (expected gain 1)'
    return None


def oracle_purity(sc, text):
    """Statefulness: see `purity_run`.  Independent of the model: results of repeated / interleaved calls on one dict and one Reader
    are compared with the results on freshly read dicts of the same file."""
    pr = purity_run(sc, text)
    if pr and pr['problems']:
        return pr['problems'][0]
    return None


def purity_calls(sc, text):
    pr = purity_run(sc, text)
    return pr['calls'] if pr else []


def oracle_forms(sc, text):
    """Input forms: the same values as Python / numpy scalars, int / float / numpy lists (tuples, ndarrays for the helpers), dict or
    Bunch, str or Path, positional or keyword arguments must give the same values as the dict as parsed.  The failing form is named."""
    for salt in range(3):
        for fn in (forms_roundtrip, forms_derived):
            fr = fn(sc, text, salt)
            if fr and fr[1]:
                return fr[1]
    return None


def oracle(sc, text):
    r = oracle_roundtrip(sc, text)
    if r:
        return 'roundtrip', r
    r = oracle_forms(sc, text)       # a defect of one representation is reported with that representation
    if r:
        return 'forms', r
    r = oracle_purity(sc, text)      # before `derived`: a stateful defect is reported as the call sequence that shows it
    if r:
        return 'purity', r
    r = oracle_derived(sc, text)
    if r:
        return 'derived', r
    return None


def fresh_oracle(text):
    """The oracles on `text` in a NEW interpreter (no cache / module state left by earlier cases), with shrinking.
    Returns {'kind', 'text', 'why', 'calls'} or None."""
    import json
    import subprocess
    import sys
    d = tempfile.mkdtemp(prefix='c09_fresh_')
    try:
        f = os.path.join(d, 'case.txt')
        with open(f, 'w', encoding='utf-8', newline='') as fid:
            fid.write(text)
        code = ('import json,sys; import props.c09 as m\n'
                'text=open(sys.argv[1],encoding="utf-8",newline="").read()\n'
                'print("C09FRESH"+json.dumps(m._oracle_shrunk(text)))')
        pr = subprocess.run([sys.executable, '-c', code, f], capture_output=True, text=True, timeout=300)
        for line in pr.stdout.splitlines():
            if line.startswith('C09FRESH'):
                return json.loads(line[len('C09FRESH'):])
        return None
    finally:
        shutil.rmtree(d, ignore_errors=True)


def _oracle_shrunk(text):
    import framework
    framework.setup_paths()
    fns = {'roundtrip': oracle_roundtrip, 'derived': oracle_derived, 'purity': oracle_purity, 'forms': oracle_forms}
    with Scratch() as sc:
        r = oracle(sc, text)
        if not r:
            return None
        kind, why = r
        t2 = _shrink(sc, text, kind)
        r2 = fns[kind](sc, t2)
        if r2:
            text, why = t2, r2
        return {'kind': kind, 'text': text, 'why': why, 'calls': purity_calls(sc, text) if kind == 'purity' else []}


def _shrink(sc, text, kind):
    """Greedy line removal while the same oracle keeps failing."""
    fn = {'roundtrip': oracle_roundtrip, 'derived': oracle_derived, 'purity': oracle_purity, 'forms': oracle_forms}[kind]
    lines = text.split('\n')
    changed = True
    while changed and len(lines) > 1:
        changed = False
        for i in range(len(lines)):
            cand = lines[:i] + lines[i + 1:]
            t = '\n'.join(cand)
            try:
                if t.strip('\n') and fn(sc, t):
                    lines, changed = cand, True
                    break
            except Exception:  # noqa
                pass
    return '\n'.join(lines)


def search(ctx, reasons):
    best = None
    with Scratch() as sc:
        cands = []
        for m in ctx.mismatches[:300]:
            t = CASES.get(m['case'].get('sha'))
            if t is not None:
                cands.append(t)
        rng = ctx.subrng(99)
        small = ['a=0.5\n', 'a=1,2\n', 'a=12\n', 'a=x\n', '~a=1.50\n', 'a=b=c\n', 'a=\n', 'a=1.1.1\n', 'a=30000.207\n', 'a=9007199254740993\n',
                 'a=1\nb=2\n', 'a=1\r\nb=2\r\n', 'imProbeSN=641251510\n', 'imDatPrb_sn=18005116811\nimDatPrb_type=0\n']
        cands += small
        for _ in range(400):
            cands.append(gen_acq(rng, small=True)[0])
        for _ in range(600):
            cands.append(gen_grammar_text(rng, 'clean')[0])
        for _ in range(300):
            cands.append(gen_acq(rng)[0])
        for _, t in fixture_texts():
            cands.append(t)
        fails = []
        for t in cands:
            try:
                r = oracle(sc, t)
            except Exception as e:  # noqa
                r = ('oracle', f'raised {type(e).__name__}: {e}')
            if r:
                fails.append((t, r))
                if len(fails) >= 25 and min(len(x[0]) for x in fails) < 400:
                    break
        fails.sort(key=lambda x: len(x[0]))
        expected = {
            'roundtrip': 'C09: parse(write(parse(file))) == parse(file) for string / scalar / integer-list values',
            'derived': 'C09: version/type/nc/nsync/fs/ns/max-int and volts-per-bit = range / max-int / channel gain (1 on sync) '
                       'agree with an independent reading of the fields',
            'purity': 'C09: the derived quantities and the written file are functions of the metadata: repeated and interleaved calls on '
                      'the same dict / the same Reader give the results obtained on a freshly read dict',
            'forms': 'C09: the answers depend on the metadata VALUES only: Python / numpy scalars, int / float lists, dict / Bunch, str / Path, '
                     'positional / keyword arguments give the values obtained from the dict as parsed',
            'oracle': 'C09 oracle runs'}
        how = {
            'forms': 'python: harness/props/c09.py oracle_forms(sc, text) — the forms named in `observed` (drawn from the hash of `text`, salts 0..2) '
                     'are applied to read_meta_data(text) and passed to write_meta_data / the _get_* helpers',
            'purity': 'python (fresh interpreter): harness/props/c09.py purity_run(sc, text) — the numbered call sequence in `calls` on the file `text`',
        }
        default_how = ("python: harness/props/c09.py oracle(sc, text) — write `text` to a .meta file, spikeglx.read_meta_data / "
                       "write_meta_data / _conversion_sample2v_from_meta, compare with the fields read with fractions.Fraction")
        # a failure seen here may be the effect of state left by the thousands of earlier calls in this process: the replay must be a
        # call sequence from a clean interpreter, so the smallest candidates are re-evaluated (and shrunk) in a new process
        for t, r in fails[:6]:
            try:
                fr = fresh_oracle(t)
            except Exception as e:  # noqa
                ctx.note(f'fresh-process oracle failed: {type(e).__name__}: {e}')
                fr = None
            if fr:
                out = {'input': {'check': fr['kind'], 'text': fr['text']}, 'observed': fr['why'],
                       'expected': expected.get(fr['kind'], ''), 'how': how.get(fr['kind'], default_how)}
                if fr['calls']:
                    out['calls'] = fr['calls']
                return out
        if fails:
            t, (kind, why) = fails[0]
            ctx.note('the failing input fails only after earlier calls in the same process (state carried across files)')
            return {'input': {'check': kind, 'text': t}, 'observed': why + '  [observed after the earlier cases of this run; a new process does not fail on it]',
                    'expected': expected.get(kind, ''), 'how': default_how}
    return None


def replay(ctx, rep):
    i = rep['input']
    with Scratch() as sc:
        r = oracle(sc, i['text'])
    print('oracle:', r)
    return r is not None


def known_findings(ctx):
    def scientific_repr_scalar():
        with Scratch() as sc:
            d = real_read(sc, 'a=0.00005\n')
            w = real_write(sc, d)
            d2 = real_read(sc, w)
            return w.startswith('a=5e-05') and d2['a'] == '5e-05' and d['a'] == 5e-05
    return {'scientific_repr_scalar': scientific_repr_scalar}


LEVEL_TEXT = ('Lean 4 theorems on an executable transcription of read_meta_data / write_meta_data / the _get_* helpers '
              '(for _get_neuropixel_version / _get_type / _get_max_int / _get_sync_trace_indices / _get_fs / _get_nchannels_from_meta and the '
              'array-building steps of _conversion_sample2v_from_meta the transcription is ALSO regenerated from the source text on every run '
              'and proved equal to the hand model — Tie/C09.lean, 14 theorems, incl. conversion = interpretation of the source\'s steps): '
              'parse(print(parse t)) = parse t for EVERY text whose numeric scalars are integer-valued or have a positional repr and whose '
              'lists are integer-valued (doubles modelled exactly as multiples of 2^-1074, float() = correct rounding, repr = shortest '
              'read-back string), the 0.00005 counterexample, total decision tables for version / type / counts / max-int, and the gain vector '
              'shape and source (AP = 4th, LF = 5th IMRO field of channel i, length = saved channels, sync = 1) for every IMRO table rendered '
              'from rows, every saved-channel count; the ASSEMBLY entry by entry (gain_assembly / gain_vector_entries / gain_vector_np2_entries: entry '
              'i < n - nsync is the i-th channel gain, the last nsync entries are 1, length = saved channels, for every nsync >= 0 incl. 0; '
              'reset_tail_counterexample: the `v[-nsync:] = 1` spelling is wrong exactly at nsync = 0); no parsed value is a one-element list; '
              'NP2 and nidq layouts; tied to the code by an exact differential run (dicts, written text, '
              'gains as IEEE bit patterns)')
LEVEL_NOTE = ('translator tie: decisions / indices / step order of the helpers above hold of the source text itself (per-item assumptions on the '
              'string tests; exceptions and the final range(...) expression outside the skeleton).  partial: the arithmetic inside the gains (float32/float64 products) is executed, not proved (compared bit for bit); that the '
              'model float()/repr() equal CPython is checked numerically on thousands of tokens/doubles per run, not proved; '
              'trusted: Lean kernel, harness, IEEE hardware floats')
TECHNIQUE = ('translator tie (pyfn2lean: decision tables, index arithmetic and the ordered array-building steps of the conversion regenerated '
             'from src/spikeglx.py each run, theorems `translated source = hand model` by unfold + simp/omega, parameters addressed by name so a '
             'changed metadata key breaks elaboration); Lean 4 proofs by structural induction on character lists / dictionaries (parser-printer round trip, regex scanner on rendered IMRO '
             'tables), exact integer softfloat (Nat.log2 bounds, omega), decide +kernel on the counterexample; exact correspondence run '
             '(dictionaries, written bytes, gains as IEEE bit patterns)')
