"""C07 — Fourier time shift is an exact, composable delay (ibldsp.fourier.fshift, waveforms.wave_shift_corrmax /
shift_waveform, utils.parabolic_max)."""
import ast
import concurrent.futures
import math
import os
import struct
from pathlib import Path

import numpy as np

ID = 'C07'
DRIVER = 'C07'
LEAN_TARGETS = ['IblVerif.Properties.C07']          # the tie module IblVerif.Tie.C07 is built by harness/ties.py
THEOREMS = [
    'IblVerif.FShift.fshiftAt_twosided',
    'IblVerif.C07.fshift_short_rejected',
    'IblVerif.C07.fshift_bad_axis_rejected',
    'IblVerif.C07.fshift_pertrace_size_rejected',
    'IblVerif.C07.fshift_int_eq_roll',
    'IblVerif.C07.fshift_zero',
    'IblVerif.C07.fshift_shape',
    'IblVerif.C07.fshift_add_defect',
    'IblVerif.C07.fshift_add',
    'IblVerif.C07.fshift_add_counterexample',
    'IblVerif.C07.fshift_bandlimited',
    'IblVerif.C07.fshift_linear',
    'IblVerif.C07.fshift_impulse_basis',
    'IblVerif.C07.fshift_pertrace_rows',
    'IblVerif.C07.fshift_pertrace_cols',
    'IblVerif.C07.argmax_first_max',
    'IblVerif.C07.parabolic_max_exact_vertex',
    'IblVerif.C07.parabolic_max_edge',
    # round h
    'IblVerif.C07.fshift_plan',
    'IblVerif.C07.fshift_freq_eq_time',
    'IblVerif.C07.fshift_freq_shape',
    'IblVerif.C07.fshift_freq_add',
    'IblVerif.C07.fshift_nd_pertrace',
    'IblVerif.C07.fshift_nd_one_dim',
    'IblVerif.C07.fshift_nd_two_dim_rows',
    'IblVerif.C07.fshift_nd_two_dim_cols',
    'IblVerif.C07.fshift_inverse_defect',
    'IblVerif.C07.fshift_inverse',
    'IblVerif.C07.fshift_add_iff',
    'IblVerif.C07.fshift_inverse_counterexample',
    'IblVerif.C07.parabolic_max_rows',
    'IblVerif.C07.parabolic_max_matrix',
    'IblVerif.C07.corrmax_integer_delay',
    'IblVerif.C07.corrmax_correlation',
    'IblVerif.C07.autocorrelation_peak',
]
RULE = ('fshift: every length n = 2..256 (thorough: every n <= 512, all primes < 300 included, plus sampled lengths up to 2048 incl. '
        'powers of two and primes) x a shift class (integer in (-n, n) incl. 0 and +-(n-1), integer with |m| >= n, uniform fractional in '
        '(-n, n), half-integer, near-integer, tiny) x a signal class (white noise, impulse, constant, alternating = pure Nyquist, '
        'band-limited harmonics, wavelet); every case is run in float64 AND float32 on the same (float32-representable) samples and '
        'compared with the Float twin of the Lean model; shape, dtype and "input untouched" are asserted on each; the full impulse basis '
        '(identity matrix, one 2-D call) for n <= 48 (thorough 96); 2-D arrays (1..9 x 2..24) with scalar and per-trace shifts along '
        'axes 0, 1, -1, -2, the per-trace vectors being all-distinct random, integer, REPEATED across traces (real ADC tables '
        'neuropixel.adc_shifts k/13 and k/16 incl. 384 traces, tiled random fractions, all-equal e.g. 1/3) or of the wrong size; error branches (n < 2, axis out of range, per-trace vector of the wrong size); np.roll vs the model roll '
        '(bit exact); scipy rfft/irfft vs their model sums on random complex half spectra; parabolic_max on integer-valued (bit exact) '
        'and random arrays incl. edge maxima, ties, plateaus, the 2-D branch; numeric oracle of the delay estimate on Ricker/Morlet '
        'wavelets. Round h: arrays of 1..4 dimensions (<= 360 samples, extent 2..12 along the shift axis) x every axis, positive and negative, x '
        'scalar / per-trace (distinct, integer, repeated ADC-like, wrong size) shifts given flat, in the broadcast shape or in the shape of the other '
        'axes x six memory layouts, vs the twin of fshiftND (and the twins of fshift1 / fshift2 bit for bit on 1-D / 2-D inputs); the '
        'frequency-domain entry point fshift(rfft(x), s, ns=n) for n = 2..40, 63..65, 96, 127, 128 in complex128 / complex64, three call '
        'spellings, declared lengths that do not fit the number of bins, vs the twin of fshiftFreq1 and vs the time-domain call; the 2-D branch of '
        'parabolic_max (1..6 rows x 1..9 columns; integer-valued, planted edge maxima, ties, NaN samples, random) vs the twin of parabolicMax2 and '
        'row by row vs the 1-D branch; scipy.signal.correlate(mode=same) vs the defining sum; wave_shift_corrmax vs the twin of waveShiftCorrmax on '
        'integer-valued compactly supported waveforms of 5..40 samples delayed by a whole number of samples without wrapping (estimate = delay '
        'demanded to 1e-9) and on random short traces; the stage list of the tie executed by the model interpreter vs the twin of fshiftCore. '
        'A case is non-trivial when the shift is non-zero and the signal is not constant; distinct by its description.')
ASSUMPTIONS = [
    'input FORMS are drawn independently of the values and tagged: data layout C / Fortran / strided view / negative-stride view / read-only; '
    'scalar shift as Python float, int, np.float64, np.float32, np.int64, np.int16, 0-d array (per-trace path) ; per-trace vector as float64, '
    'float32, int64, int16, read-only, strided view, shaped (ntr,1) or (1,ntr); call spelled fshift(w, s, axis=a) / fshift(w, s, a) / '
    'fshift(w, s, a, None) / all keywords / default axis — positional order PINNED to the unchanged signature (w, s, axis, ns); '
    'parabolic_max on float64/float32/int64/int16 data in four layouts, positional and x=; wave_shift_corrmax / shift_waveform on views. '
    'Excluded forms: per-trace shifts as a Python list/tuple (unsupported API: AttributeError no attribute reshape); integer-dtype DATA '
    '(outside the float32/float64 quantifier; the code truncates, known finding integer_dtype_truncation); a read-only cluster for '
    'shift_waveform (known finding shift_waveform_readonly_cluster)',
    'fshift, parabolic_max, wave_shift_corrmax and shift_waveform are treated as pure functions of their arguments (the model is one): on '
    'half of the fshift cases the same argument objects (data and shift vector) are passed three times, followed by equal fresh arguments, on '
    'a quarter other library calls are interleaved; every repeated result must equal the first bit for bit (= the model of the ORIGINAL values); '
    'only the DATA array of fshift is required to stay bit-identical (property text); a modified shift vector / other argument is reported '
    'only through a wrong later result; returned arrays are never written to (aliasing of results is not part of the property)',
    'Float twin of the model (O(n^2) DFT sums in binary64) vs the real code: |difference| <= 1e-9 * max(1, max|x|) for float64 input, '
    '<= 1e-5 * max(1, max|x|) for float32 input (measured 7e-13 and 5e-7 on the unchanged tree)',
    'composition fshift(fshift(x,a),b) = fshift(x,a+b) is demanded only for odd n, or a or b integer, or zero Nyquist coefficient; the '
    'complement is the known finding nyquist_noninteger_composition (theorem fshift_add_defect gives its exact size)',
    'delay estimation (wave_shift_corrmax / shift_waveform) is NUMERIC ONLY (partial): oracle domain Ricker wavelets of width 2..n/16 '
    'samples and Morlet (w=5) of width 5..n/16, centred, |shift| <= n/8, n in 64..512; tolerance 0.05 sample on the estimate '
    '(measured <= 0.019), 0.06 of the peak amplitude on the re-aligned copy (measured <= 0.021)',
    'the property is about real-valued input in float32/float64. The frequency-domain entry point (complex half spectrum + ns=) is checked only '
    'through what it means for the real path: fshift(rfft(x), s, ns=n) is compared with the model of the phase-ramp multiplication and its inverse '
    'transform with the time-domain call fshift(x, s); the complex input is passed as a copy (the code multiplies it in place; only a REAL input is '
    'required to stay untouched); the imaginary part of the Nyquist bin of the returned spectrum is not compared (np.angle(-1 +- 0j) = +-pi by the '
    'sign of a floating-point zero; every inverse real transform discards it) and, for the same reason, a declared even ns that differs from the '
    'true length while fitting the number of bins is not generated; which exception rejects an ill-fitting ns is not compared',
    'N-d arrays: empty arrays (an extent 0) are not generated; the per-trace vector is given as an ndarray whose size is the number of traces, in any '
    'shape NumPy can reshape to the broadcast shape (flat, broadcast shape, shape of the other axes)',
    'vectorised parabolic_max: finite or NaN samples (np.argmax treats NaN as the maximum; the Float twin uses the same order); infinite samples are '
    'not generated (0.5 * M @ v multiplies the zero matrix entries with them: 0 * inf = NaN, which the model, written without the zero terms, '
    'does not reproduce - no statement of the property is about infinite samples)',
    'wave_shift_corrmax vs its model: compared when the two largest correlation values differ by more than 1e-9 relative and the peak is not flat '
    '(otherwise argmax / the parabola are decided by rounding); tolerance 1e-7 on the shift, 1e-6 n max|x| on the re-aligned copy; on the '
    'theorem domain (integer-valued compact waveform, whole-sample delay, no wrap, interior peak) estimate = delay and copy = waveform to 1e-9',
    'parabolic_max random-float cases are compared with tolerance 1e-9 (NumPy matmul summation order is not modelled) and only when the '
    'curvature is not tiny; integer-valued cases are compared bit for bit',
]
TRUSTED = [
    'scipy.fft.rfft / irfft are external: modelled by their defining sums; irfft(Y, n) reads only the real parts of the zero-frequency '
    'and Nyquist bins (compared numerically each run on random complex half spectra, tolerance 1e-12)',
    'np.angle = Complex.arg, np.exp(1j t) = cos t + i sin t, np.roll(x, m)[t] = x[(t - m) mod n] (roll compared bit for bit each run)',
    'NumPy in-place `complex64 *= complex128` and float32 FFTs are not modelled bit for bit (tolerance comparison)',
    'scipy.signal.correlate(a, b, mode="same")[j] = sum_t a[t + j - n//2] b[t] for equal lengths (external; compared with the model sum each run, '
    'tolerance 1e-9); np.nanmedian / find_peak / get_array_peak inside shift_waveform are not modelled: oracle only',
    'tie (harness/tiespecs/c07.py): the translator harness/pyfn2lean.py, the regular expressions that name the stages, and the per-item '
    'assumptions that select a decision path (do_fft, np.isscalar(s), x.ndim == 1); `ns = ns or w.shape[axis]` is read as "ns is the length '
    'of the trace" (the `or` default itself is exercised only by the correspondence run)',
]
LEVEL_TEXT = ('Lean 4 theorems (Mathlib ZMod.dft) for every real trace of every length >= 2 and every real shift about the SAME generic '
              'definitions the driver executes at Float: the rfft/irfft pipeline equals the two-sided operator F^-1(mu_s F x); integer shift = '
              'np.roll (all m in Z); zero shift = identity; shape; composition with its exact defect X_{n/2} sin(pi a) sin(pi b) (-1)^t / n and '
              'hence additivity for odd n / an integer shift / no Nyquist energy, with the F13 counterexample; band-limited trigonometric '
              'polynomials are delayed analytically for every real s; linearity and the impulse-basis decomposition; per-trace shifts along '
              'either axis; error branches; parabolic_max: argmax = first maximum, exact vertex of a parabola, edge fallback. Round h: every '
              'trace of an array of ANY dimension along ANY axis (negative axes, error branches) receives its own shift (fshiftND; = fshift1 on 1-D, = fshift2 on 2-D); '
              'the time-domain call = inverse transform of the frequency-domain call, and in the frequency domain shifts add up for every length; a '
              'shift is undone by the opposite shift with the exact defect X_{n/2} sin^2(pi a) (-1)^t / n, and successive shifts add up IF AND ONLY IF '
              'n is odd or a shift is whole or X_{n/2} = 0 (F13 is exactly the complement); the vectorised parabolic_max is the 1-D function on every '
              'row and its interpolation is 0.5 * [[1,-2,1],[-1,0,1],[0,2,0]]; wave_shift_corrmax (correlate(same) -> parabolic_max -> '
              '-(ipeak - n//2) -> fshift) returns EXACTLY (x, m) for a whole-sample non-wrapping delay m of any non-zero waveform (autocorrelation '
              'peak lemma). Two ties: a differential run over all lengths 2..256 in both dtypes (+ N-d, frequency-domain, vectorised, delay-estimate '
              'cases), and the translator tie: the stage list of fshift on its three decision paths, shape[axis] / s_shape[axis], the positions / '
              'matrix / edge tests of parabolic_max and the peak-to-shift expression of wave_shift_corrmax are re-translated from the source on '
              'every run and proved equal to the model definitions; executing the translated stage list with the model primitives IS fshiftCore '
              '(theorem fshift_plan).')
LEVEL_NOTE = ('PARTIAL: the delay estimate is proved exact only for whole-sample, non-wrapping delays (corrmax_integer_delay); for FRACTIONAL '
              'delays its accuracy ("within a few hundredths of a sample", re-alignment) and all of shift_waveform (nanmedian template, peak '
              'channel) are only checked numerically by a calibrated oracle. Dtype preservation of the NumPy call and "real input untouched" are '
              'interface facts checked on every case, not theorems. The translator tie covers integer / decision / stage-order skeletons only '
              '(not the array arithmetic: np.angle, np.exp, the broadcast, astype); of shift_waveform only the per-spike loop (one estimate and one '
              'fshift of the spike\'s own traces per spike, in order) is tied, its template / peak-channel logic is not modelled. The N-d model is proved to agree with fshift1 (equality) and with fshift2 (trace by '
              'trace, both axes); the Float twins are also compared bit for bit on every 1-D / 2-D case of the run. Trusted: Lean kernel + Mathlib, the defining sums of '
              'scipy rfft/irfft/correlate (checked numerically), the Float-vs-real tolerance comparison, the Python harness, the translator.')
TECHNIQUE = ('Lean 4 + Mathlib proof over ZMod.dft (shift theorem, Hermitian half-spectrum bookkeeping, character orthogonality) and finsum '
             '(autocorrelation peak) about a scalar-generic model; executable Float twin of the same definitions compared with the real code '
             'under a tolerance; translator tie (integer / stage-order skeleton of fshift, parabolic_max, wave_shift_corrmax regenerated from the '
             'source and proved equal to the model on every run); numeric oracle (partial) for fractional delay estimation')

TOL64 = 1e-9
TOL32 = 1e-5
KNOWN_KEY = 'nyquist_noninteger_composition'


# ---------------------------------------------------------------------------------------------
# encoding helpers
# ---------------------------------------------------------------------------------------------
def _bits(a):
    a = np.atleast_1d(np.asarray(a, dtype=np.float64))
    if a.size == 0:
        return '-'
    return ','.join(map(str, np.frombuffer(a.tobytes(), dtype='<u8').tolist()))


def _dec(tok):
    if tok == '-':
        return np.zeros(0)
    return np.frombuffer(np.array([int(t) for t in tok.split(',')], dtype='<u8').tobytes(), dtype='<f8').copy()


def _rows_bits(w):
    return ';'.join(_bits(r) for r in w) if len(w) else '-'


def _dec_rows(tok):
    if tok == '-':
        return np.zeros((0, 0))
    return np.array([_dec(t) for t in tok.split(';')])


def _is_prime(n):
    return n >= 2 and all(n % p for p in range(2, int(n ** 0.5) + 1))


def _nclass(n):
    if n == 2:
        return 'n=2'
    if _is_prime(n):
        return 'n prime'
    if n & (n - 1) == 0:
        return 'n pow2'
    return 'n even' if n % 2 == 0 else 'n odd'


# ---------------------------------------------------------------------------------------------
# generators (deterministic from integer seeds drawn from ctx.rng)
# ---------------------------------------------------------------------------------------------
SIGS = ('randn', 'impulse', 'const', 'alt', 'bandlim', 'ricker', 'ramp')
SHIFTS = ('int', 'int_edge', 'int_big', 'frac', 'half', 'near_int', 'tiny', 'zero')


def ricker(n, a, c):
    t = (np.arange(n) - c) / a
    return (1 - t ** 2) * np.exp(-0.5 * t ** 2)


def morlet(n, a, c, w=5.0):
    t = (np.arange(n) - c) / a
    return np.exp(-0.5 * t * t) * np.cos(w * t)


def make_signal(n, kind, seed):
    """float32-representable samples (returned as float64) so that the float32 and float64 runs see the same input"""
    r = np.random.default_rng([int(seed), int(n), SIGS.index(kind)])
    if kind == 'randn':
        x = r.standard_normal(n) * float(r.choice([1.0, 1.0, 100.0, 0.01]))
    elif kind == 'impulse':
        x = np.zeros(n); x[int(r.integers(0, n))] = float(r.choice([1.0, -3.0, 250.0]))
    elif kind == 'const':
        x = np.full(n, float(r.choice([1.0, -2.5, 0.0])))
    elif kind == 'alt':
        x = np.where(np.arange(n) % 2 == 0, 1.0, -1.0) * float(r.choice([1.0, 7.0]))
    elif kind == 'bandlim':
        t = np.arange(n); x = np.full(n, float(r.normal()))
        for k in range(1, (n - 1) // 2 + 1):
            if r.random() < 0.5 or k == 1:
                x = x + r.normal() * np.cos(2 * np.pi * k * t / n) + r.normal() * np.sin(2 * np.pi * k * t / n)
    elif kind == 'ricker':
        x = ricker(n, max(0.7, n / 16), n / 2 + r.uniform(-1, 1)) * 50
    else:
        x = np.arange(n, dtype=float) - n / 3
    return x.astype(np.float32).astype(np.float64)


def make_shift(n, kind, seed):
    r = np.random.default_rng([int(seed), int(n), 100 + SHIFTS.index(kind)])
    if kind == 'int':
        return float(r.integers(-n + 1, n))
    if kind == 'int_edge':
        return float(r.choice([1, -1, n - 1, -(n - 1), n // 2, -(n // 2)]))
    if kind == 'int_big':
        return float(r.choice([n, -n, 2 * n + 1, -(3 * n + 2), n + 1]))
    if kind == 'frac':
        return float(r.uniform(-n, n))
    if kind == 'half':
        return float(r.integers(-n + 1, n - 1)) + 0.5
    if kind == 'near_int':
        return float(r.integers(-n + 1, n)) + float(r.choice([1e-6, -1e-6, 1e-3, -1e-3]))
    if kind == 'tiny':
        return float(r.choice([1e-9, -1e-9, 1e-4]))
    return 0.0


# ---------------------------------------------------------------------------------------------
# input FORMS: legitimate representations of the same mathematical call (drawn independently of the values)
# ---------------------------------------------------------------------------------------------
# parameter order of the unchanged tree; positional calls are spelled in THIS order, so a reordered signature shows up as a
# wrong result of a concrete positional call
PINNED = {'fshift': ['w', 's', 'axis', 'ns'], 'parabolic_max': ['x'], 'wave_shift_corrmax': ['spike', 'spike2'],
          'shift_waveform': ['wf_cluster']}
LAYOUTS_1D = ('C', 'strided', 'negstride', 'readonly')
LAYOUTS_2D = ('C', 'F', 'strided', 'negstride', 'readonly')
CALLS = ('kw', 'pos3', 'pos4', 'kwall', 'default')
SCALAR_FORMS = ('float', 'np.float64', 'np.float32', 'int', 'np.int64', 'np.int16', '0d')
VECTOR_FORMS = ('f64', 'f32', 'int64', 'int16', 'readonly', 'strided', 'col', 'row')


def layout_array(a, layout):
    """the same values in another memory layout"""
    a = np.asarray(a)
    if layout == 'F' and a.ndim >= 2:
        return np.asfortranarray(a)
    if layout == 'permuted' and a.ndim >= 2:          # a non-contiguous view whose strides are a rotation of the C strides
        return np.moveaxis(np.ascontiguousarray(np.moveaxis(a, 0, -1)), -1, 0)
    if layout == 'strided':
        big = np.full(tuple(2 * d for d in a.shape), 99, dtype=a.dtype)
        sl = tuple(slice(None, None, 2) for _ in a.shape)
        big[sl] = a
        return big[sl]
    if layout == 'negstride':
        sl = tuple(slice(None, None, -1) for _ in a.shape)
        return a[sl].copy()[sl]
    if layout == 'readonly':
        b = a.copy(); b.setflags(write=False)
        return b
    return np.ascontiguousarray(a).copy()


def shift_value(sv, sform):
    """(value as float / float64 array that the form can represent exactly, form actually used)"""
    if isinstance(sv, np.ndarray):
        if sform == 'f32':
            return sv.astype(np.float32).astype(np.float64), sform
        if sform in ('int64', 'int16') and not (sv.size and np.all(sv == np.round(sv)) and np.all(np.abs(sv) < 30000)):
            return sv, 'f64'
        return sv, sform
    if sform == 'np.float32':
        return float(np.float32(sv)), sform
    if sform in ('int', 'np.int64', 'np.int16') and not (float(sv) == round(float(sv)) and abs(sv) < 30000):
        return float(sv), 'float'
    return float(sv), sform


def shift_object(sv, sform):
    if isinstance(sv, np.ndarray):
        if sform == 'f32':
            return sv.astype(np.float32)
        if sform == 'int64':
            return sv.astype(np.int64)
        if sform == 'int16':
            return sv.astype(np.int16)
        if sform == 'readonly':
            b = sv.copy(); b.setflags(write=False)
            return b
        if sform == 'strided':
            return np.repeat(sv, 2)[::2]
        if sform == 'col':
            return sv.reshape(-1, 1).copy()
        if sform == 'row':
            return sv.reshape(1, -1).copy()
        return sv.copy()
    return {'np.float64': np.float64, 'np.float32': np.float32, 'int': lambda v: int(round(v)), 'np.int64': lambda v: np.int64(round(v)),
            'np.int16': lambda v: np.int16(round(v)), '0d': np.array}.get(sform, float)(sv)


def call_fshift(w, sv, axis, spelling='kw'):
    from ibldsp.fourier import fshift
    if spelling == 'pos3':
        return fshift(w, sv, axis)
    if spelling == 'pos4':
        return fshift(w, sv, axis, None)
    if spelling == 'kwall':
        return fshift(w=w, s=sv, axis=axis, ns=None)
    if spelling == 'default' and axis == -1:
        return fshift(w, sv)
    return fshift(w, sv, axis=axis)


def spelled(spelling, axis):
    return {'pos3': f'fshift(w, s, {axis})', 'pos4': f'fshift(w, s, {axis}, None)', 'kwall': f'fshift(w=w, s=s, axis={axis}, ns=None)',
            'default': 'fshift(w, s)' if axis == -1 else f'fshift(w, s, axis={axis})'}.get(spelling, f'fshift(w, s, axis={axis})')


# ---------------------------------------------------------------------------------------------
# running the real code
# ---------------------------------------------------------------------------------------------
def _err_name(e):
    return 'err ' + type(e).__name__


def _interleave(n, dt, k):
    """other library calls between two identical fshift calls, each on its own arrays"""
    from ibldsp import fourier, utils
    r = np.random.default_rng([n, k])
    a = r.standard_normal(n).astype(dt)
    fourier.fshift(a, float(r.uniform(-n, n)))
    b = r.standard_normal((3, n)).astype(dt)
    fourier.fshift(b, np.array([0.5, 1 / 3, 1 / 3]), axis=1)
    fourier.fshift(b.T.copy(), np.array([1.0, 2.0, 2.0]), axis=0)
    fourier.fscale(n, 1.0)
    utils.parabolic_max(a.astype(float))
    if n >= 4:
        from ibldsp.waveforms import wave_shift_corrmax
        wave_shift_corrmax(a.astype(float), np.roll(a.astype(float), 1))


_S_MODIFIED = [0]


def _run_impl(w64, s, axis, purity=0, form=None):
    """Run fshift in float64 and float32; return ('ok', y64, y32) or ('err X',) or a description of an interface / purity
    violation.  The DATA array must stay bit-identical (the property says so).  purity >= 1: the SAME argument objects (data and
    shift vector) are passed two more times, then equal fresh arguments; every result must be bit-identical to the first, which
    is the one compared with the model of the ORIGINAL values (a shift vector modified in place shows up here, through its
    consequence).  purity >= 2: other library calls are interleaved.  Returned arrays are never written to."""
    form = form or {}
    spelling = form.get('call', 'kw')

    def fshift(w_, s_, axis=-1):
        return call_fshift(w_, s_, axis, spelling)
    outs = []
    for dt in (np.float64, np.float32):
        name = np.dtype(dt).name + ''.join(f' {k}={v}' for k, v in form.items())
        w = layout_array(np.array(w64, dtype=dt), form.get('layout', 'C'))
        w0 = np.array(w, copy=True)
        s_in = shift_object(s, form.get('sform')) if (isinstance(s, np.ndarray) or 'sform' in form) else s
        s0 = np.array(s_in, copy=True) if isinstance(s_in, np.ndarray) else s_in
        try:
            y = fshift(w, s_in, axis=axis)
        except Exception as e:  # noqa
            if not np.array_equal(w, w0):
                return (f'bad: real input array was modified by a call that raised {type(e).__name__} ({name})',)
            outs.append(_err_name(e)); continue
        if not isinstance(y, np.ndarray):
            return (f'bad: result is {type(y).__name__}',)
        if y.shape != w.shape:
            return (f'bad: shape {y.shape} != input shape {w.shape} ({name})',)
        if y.dtype != w.dtype:
            return (f'bad: dtype {y.dtype} != input dtype {w.dtype} ({name})',)
        if not np.array_equal(w, w0):
            return (f'bad: real input array was modified ({name})',)
        if isinstance(s0, np.ndarray) and not np.array_equal(s_in, s0):
            _S_MODIFIED[0] += 1                              # informational only; the repeated calls below show any consequence
        if purity:
            y1 = y.copy()
            if purity >= 2:
                _interleave(w.shape[axis], dt, 1)
            try:
                y2 = fshift(w, s_in, axis=axis)              # the same objects again
                y2c = y2.copy()
                y3 = fshift(w, s_in, axis=axis)              # and once more
                from ibldsp.fourier import fshift as _fs
                y4 = _fs(w0.copy(), s0.copy() if isinstance(s0, np.ndarray) else s0, axis=axis)   # equal fresh arguments, plain spelling
            except Exception as e:  # noqa
                return (f'bad: purity: a repeated identical call raised {type(e).__name__}: {e} ({name})',)
            for k, yy in ((2, y2c), (3, y3), (4, y4)):
                if yy.shape != y1.shape or yy.dtype != y1.dtype or not np.array_equal(yy, y1):
                    return (f'bad: purity: call #{k} with ' + ('the same argument objects' if k < 4 else 'equal fresh arguments') +
                            f' returned a different result than call #1 ({name})',)
            if not np.array_equal(w, w0):
                return (f'bad: purity: real input array was modified by a repeated call ({name})',)
            y = y1
        outs.append(y)
    if isinstance(outs[0], str) or isinstance(outs[1], str):
        if outs[0] == outs[1]:
            return (outs[0],)
        return (f'bad: float64 gives {outs[0] if isinstance(outs[0], str) else "a result"}, float32 gives '
                f'{outs[1] if isinstance(outs[1], str) else "a result"}',)
    return ('ok', outs[0], outs[1])


def _compare_numeric(res, model_ans, w64, decode):
    """impl/model canonical strings for a numeric case"""
    if res[0] != 'ok':
        return res[0], model_ans[:60]
    if not model_ans.startswith('ok '):
        return 'ok', model_ans[:60]
    ym = decode(model_ans[3:])
    y64, y32 = res[1], res[2]
    if ym.shape != y64.shape:
        return f'ok shape={y64.shape}', f'ok shape={ym.shape}'
    scale = max(1.0, float(np.max(np.abs(w64))) if np.size(w64) else 1.0)
    e64 = float(np.max(np.abs(y64 - ym))) if ym.size else 0.0
    e32 = float(np.max(np.abs(y32.astype(np.float64) - ym))) if ym.size else 0.0
    if e64 <= TOL64 * scale and e32 <= TOL32 * scale:
        return 'ok', 'ok'
    idx = np.unravel_index(int(np.argmax(np.abs(y64 - ym))), ym.shape)
    return (f'float64 out{list(idx)}={float(y64[idx])!r} (err {e64:.3g}), float32 err {e32:.3g}',
            f'model out{list(idx)}={float(ym[idx])!r}')


def _lean_parallel(ctx, lines, costs):
    """ctx.lean over several processes; results in input order"""
    if not lines:
        return []
    nsh = int(os.environ.get('VERIF_SHARDS', '0') or 0) or min(ctx.n(6, 12), max(1, (os.cpu_count() or 2) - 2))
    nsh = max(1, min(nsh, len(lines)))
    order = sorted(range(len(lines)), key=lambda i: -costs[i])
    shards = [[] for _ in range(nsh)]
    load = [0.0] * nsh
    for i in order:
        j = load.index(min(load))
        shards[j].append(i); load[j] += costs[i] + 50
    out = [None] * len(lines)
    with concurrent.futures.ThreadPoolExecutor(max_workers=nsh) as ex:
        futs = {ex.submit(ctx.lean, [lines[i] for i in sh]): sh for sh in shards if sh}
        for f, sh in futs.items():
            for i, a in zip(sh, f.result()):
                out[i] = a
    return out


# ---------------------------------------------------------------------------------------------
# case lists
# ---------------------------------------------------------------------------------------------
def _lengths(ctx):
    if ctx.quick:
        return list(range(2, 257))
    big = [600, 768, 1000, 1021, 1024, 1031, 1500, 2039, 2047, 2048]
    return list(range(2, 513)) + big


def _cases_1d(ctx):
    rng = ctx.rng
    cases = []
    for n in _lengths(ctx):
        reps = 3 if n <= 64 else 2 if n <= 128 else 1
        for _ in range(reps):
            sk = SHIFTS[int(rng.integers(0, len(SHIFTS)))]
            if n <= 24 and rng.random() < 0.3:
                sk = 'frac'
            sg = SIGS[int(rng.integers(0, len(SIGS)))]
            if n > 600:
                sk = str(rng.choice(['frac', 'int', 'half'])); sg = str(rng.choice(['randn', 'impulse']))
            seed = int(rng.integers(0, 2 ** 31))
            axis = int(rng.choice([-1, -1, 0]))
            stype = str(rng.choice(['float', 'float', 'np.float64', 'np.float32', 'int', 'np.int64', 'np.int16', '0d', 'array1']))
            cases.append({'op': 'fshift1', 'n': n, 'axis': axis, 'shift': sk, 'sig': sg, 'seed': seed, 'stype': stype,
                          'layout': str(rng.choice(LAYOUTS_1D)), 'call': str(rng.choice(CALLS))})
    # error branches
    for n in (0, 1):
        for axis in (-1, 0):
            cases.append({'op': 'fshift1', 'n': n, 'axis': axis, 'shift': 'frac', 'sig': 'const', 'seed': 1, 'stype': 'float'})
    for axis in (1, -2, 2):
        cases.append({'op': 'fshift1', 'n': 8, 'axis': axis, 'shift': 'int', 'sig': 'randn', 'seed': 2, 'stype': 'float'})
    for k in (0, 2, 3):
        cases.append({'op': 'fshift1', 'n': 8, 'axis': -1, 'shift': 'frac', 'sig': 'randn', 'seed': 3, 'stype': f'array{k}'})
    return cases


def _build_1d(c):
    n = c['n']
    x = make_signal(n, c['sig'], c['seed']) if n > 0 else np.zeros(0)
    s = make_shift(max(n, 1), c['shift'], c['seed'])
    st = c['stype']
    if st == '0d':
        s, _ = shift_value(s, 'float')
        s_py, s_line = np.array(s), ('V', _bits([s]))          # a 0-d array is not np.isscalar: it takes the per-trace path
    elif not st.startswith('array'):
        s, st2 = shift_value(s, st)
        c['stype_used'] = st2
        s_py, s_line = shift_object(s, st2), ('S', _bits(s))
    else:
        k = int(st[5:])
        vec = np.array([s] + [0.25] * (k - 1), dtype=float)[:k] if k else np.zeros(0)
        s_py, s_line = vec, ('V', _bits(vec))
    return x, s_py, s_line


def _cases_2d(ctx):
    rng = ctx.rng
    cases = []
    for _ in range(ctx.n(140, 900)):
        a = int(rng.integers(1, 10)); b = int(rng.integers(2, 25))
        if rng.random() < 0.15:
            a, b = b, a
        if rng.random() < 0.06:
            a, b = int(rng.integers(1, 7)), int(rng.choice([64, 33, 47]))
        axis = int(rng.choice([0, 1, -1, -2]))
        n = b if axis in (1, -1) else a
        ntr = a if axis in (1, -1) else b
        mode = str(rng.choice(['scalar', 'pertrace', 'pertrace_int', 'wrongsize', 'adc', 'repeat', 'allequal'],
                              p=[.15, .25, .1, .05, .15, .15, .15]))
        if mode in ('adc', 'repeat', 'allequal') and ntr < 2:      # repeated shifts need at least two traces
            if axis in (1, -1):
                a = ntr = int(rng.integers(2, 10))
            else:
                b = ntr = int(rng.integers(2, 25))
        cases.append({'op': 'fshift2', 'nrow': a, 'ncol': b, 'axis': axis, 'mode': mode, 'seed': int(rng.integers(0, 2 ** 31)),
                      'n': n, 'ntr': ntr, 'layout': str(rng.choice(LAYOUTS_2D)), 'call': str(rng.choice(CALLS)),
                      'sform': str(rng.choice(SCALAR_FORMS[:6] if mode == 'scalar' else VECTOR_FORMS))})
    # many traces sharing the few distinct shifts of a real probe (ADC tables: 12 or 16 distinct values over 384 channels)
    for k in range(ctx.n(10, 60)):
        ntr = int(rng.choice([26, 32, 48, 96, 384])); n = int(rng.integers(4, 17)) if ntr < 384 else int(rng.integers(4, 9))
        axis = int(rng.choice([0, 1, -1, -2]))
        a, b = (ntr, n) if axis in (1, -1) else (n, ntr)
        cases.append({'op': 'fshift2', 'nrow': a, 'ncol': b, 'axis': axis, 'mode': str(rng.choice(['adc', 'repeat'])),
                      'seed': int(rng.integers(0, 2 ** 31)), 'n': n, 'ntr': ntr, 'layout': str(rng.choice(LAYOUTS_2D)),
                      'call': str(rng.choice(CALLS)), 'sform': str(rng.choice(VECTOR_FORMS))})
    for axis in (2, -3):
        cases.append({'op': 'fshift2', 'nrow': 3, 'ncol': 8, 'axis': axis, 'mode': 'scalar', 'seed': 5, 'n': 8, 'ntr': 3})
    cases.append({'op': 'fshift2', 'nrow': 1, 'ncol': 8, 'axis': 0, 'mode': 'scalar', 'seed': 6, 'n': 1, 'ntr': 8})
    cases.append({'op': 'fshift2', 'nrow': 4, 'ncol': 1, 'axis': 1, 'mode': 'pertrace', 'seed': 7, 'n': 1, 'ntr': 4})
    return cases


def adc_table(version):
    """h['sample_shift'] of a real probe: neuropixel.adc_shifts (k/13 for NP1 / NPultra, k/16 for NP2), 384 channels"""
    import neuropixel
    return np.asarray(neuropixel.adc_shifts(version=version)[0], dtype=float)


def repeated_shifts(r, mode, ntr, n):
    """per-trace shift vectors in which values REPEAT across traces, as the ADC sample shifts of a probe do"""
    if mode == 'adc':
        tab = adc_table([1, 2, 'NPultra'][int(r.integers(0, 3))])
        i0 = int(r.integers(0, max(1, len(tab) - ntr + 1)))
        s = np.resize(tab[i0:i0 + ntr], ntr) * float(r.choice([1.0, -1.0, -1.0, 2.0]))    # destriping applies -sample_shift
    elif mode == 'repeat':
        k = max(1, ntr // int(r.integers(2, 5)))                 # every value is used by >= 2 traces
        vals = np.concatenate([r.uniform(-max(n, 1), max(n, 1), size=k), [1 / 3, -2 / 3, 5 / 13, 1 / 7]])[:k] if r.random() < 0.5 \
            else r.uniform(-1, 1, size=k)
        s = np.resize(np.repeat(vals, 2), ntr)
        if r.random() < 0.5:
            s = r.permutation(s)
    else:
        s = np.full(ntr, float(r.choice([1 / 3, -1 / 3, 2 / 13, 7 / 16, 0.0005, float(r.uniform(-n, n))])))
    return np.asarray(s, dtype=float)


def _build_2d(c):
    r = np.random.default_rng([c['seed'], 77])
    a, b = c['nrow'], c['ncol']
    w = (r.standard_normal((a, b)) * float(r.choice([1.0, 30.0]))).astype(np.float32).astype(np.float64)
    if r.random() < 0.3:
        w = np.zeros((a, b)); w[r.integers(0, a, size=a), r.integers(0, b, size=a)] = 1.0
    n, ntr = c['n'], c['ntr']
    mode = c['mode']
    if mode == 'scalar':
        s = float(r.choice([r.uniform(-n, n), float(r.integers(-n, n + 1)), 0.5]))
        s, c['sform_used'] = shift_value(s, c.get('sform', 'float'))
        return w, s, ('S', _bits(s))
    if mode == 'pertrace':
        s = r.uniform(-max(n, 1), max(n, 1), size=ntr)
    elif mode == 'pertrace_int':
        s = r.integers(-n, n + 1, size=ntr).astype(float)
    elif mode in ('adc', 'repeat', 'allequal'):
        s = repeated_shifts(r, mode, ntr, n)
    else:
        s = r.uniform(-1, 1, size=ntr + int(r.choice([1, 2, -1]) if ntr > 1 else 1))
    s, c['sform_used'] = shift_value(np.asarray(s, dtype=float), c.get('sform', 'f64'))
    return w, s, ('V', _bits(s))


# ---------------------------------------------------------------------------------------------
# lengths that line up with plausible internal block sizes (round-e lesson: a blocked implementation is exact except when the
# number of samples or of rfft bins is an exact multiple of its block).  The O(n^2) Float twin is too slow there, so the real
# code is compared with the NumPy evaluation of the SAME model formula (irfft(rfft(w) * exp(-2 pi i k s / n)), Nyquist bin
# multiplied by cos(pi s)); that evaluation is itself compared with the Lean twin on every small length of this run.
# ---------------------------------------------------------------------------------------------
def np_model_fshift(w, s, axis):
    w = np.asarray(w, dtype=np.float64)
    n = w.shape[axis]
    k = np.arange(n // 2 + 1, dtype=np.float64)
    shp = [1] * w.ndim; shp[axis] = -1
    k = k.reshape(shp)
    s = np.asarray(s, dtype=np.float64)
    if s.ndim:
        ss = list(w.shape); ss[axis] = 1
        s = s.reshape(ss)
    ph = np.exp(-2j * np.pi * k * s / n)
    if n % 2 == 0:
        idx = [slice(None)] * w.ndim; idx[axis] = slice(n // 2, n // 2 + 1)
        ph = np.broadcast_to(ph, np.broadcast_shapes(ph.shape, tuple(1 if i == (axis % w.ndim) else d for i, d in enumerate(w.shape)))).copy()
        ph[tuple(idx)] = np.cos(np.pi * s)
    return np.fft.irfft(np.fft.rfft(w, axis=axis) * ph, n, axis=axis)


def block_lengths(ctx):
    out = set()
    for k in range(8, ctx.n(13, 15)):
        B = 2 ** k
        out |= {B - 2, B - 1, B, B + 1, B + 2, 2 * B - 2, 2 * B - 1, 3 * B, 3 * B - 2, 3 * B - 1}
    out |= {1000, 2000, 2500, 3000, 5000, 10000}
    return sorted(out)


def build_long(c):
    r = np.random.default_rng([c['seed'], 91])
    n, ntr = c['n'], c['ntr']
    w = r.standard_normal((ntr, n))
    if c['mode'] == 'scalar_int':
        sv = float(r.integers(-n, n + 1))
    elif c['mode'] == 'scalar_frac':
        sv = float(r.uniform(-5, 5))
    elif c['mode'] == 'pertrace_int':
        sv = r.integers(-7, 8, size=ntr).astype(float)
    elif c['mode'] == 'adc':
        sv = -np.resize(adc_table(2)[:ntr], ntr)
    else:
        sv = r.uniform(-3, 3, size=ntr)
    if c['axis'] in (0, -2):
        w = np.ascontiguousarray(w.T)
    return w, sv


def _corr_block_lengths(ctx):
    rng = ctx.rng
    from ibldsp.fourier import fshift
    worst = 0.0
    for n in block_lengths(ctx):
        for mode in ('scalar_frac', 'pertrace', 'pertrace_int', 'adc', 'scalar_int'):
            if ctx.quick and n > 4100 and mode in ('adc', 'scalar_int'):
                continue
            c = {'op': 'fshift_long', 'n': n, 'ntr': int(rng.choice([2, 3, 5])), 'axis': int(rng.choice([1, -1, 0])), 'mode': mode,
                 'seed': int(rng.integers(0, 2 ** 31)), 'dtype': str(rng.choice(['float64', 'float64', 'float32']))}
            w, sv = build_long(c)
            wd = w.astype(c['dtype'])
            ref = np_model_fshift(wd, sv, c['axis'])
            try:
                y = fshift(wd.copy(), sv.copy() if isinstance(sv, np.ndarray) else sv, axis=c['axis'])
                e = float(np.max(np.abs(y.astype(np.float64) - ref))) / max(1.0, float(np.max(np.abs(w))))
                worst = max(worst, e if c['dtype'] == 'float64' else 0.0)
                ok = y.shape == wd.shape and y.dtype == wd.dtype and e <= (TOL64 if c['dtype'] == 'float64' else TOL32)
                impl = 'ok' if ok else f'shape {y.shape} dtype {y.dtype} max relative difference {e:.3g}'
            except Exception as ex:  # noqa
                impl = _err_name(ex)
            ctx.compare('fshift_long', c, impl, 'ok', tags=('fshift_long', 'mode:' + mode, 'bins%256=0' if (n // 2 + 1) % 256 == 0 else
                                                            'n%256=0' if n % 256 == 0 else 'near-block', 'dtype:' + c['dtype']))
    # tie of the NumPy evaluation to the Lean twin: same formula on small lengths, through the driver
    lines, refs = [], []
    for n in (2, 3, 4, 5, 8, 9, 16, 17, 31, 32):
        r = np.random.default_rng([n, 5])
        w = r.standard_normal((2, n)); sv = r.uniform(-2, 2, size=2)
        lines.append(f'fshift2 {n} 1 V {_bits(sv)} {_rows_bits(w)}'); refs.append(np_model_fshift(w, sv, 1))
    for a, ref, ln in zip(ctx.lean(lines), refs, lines):
        ym = _dec_rows(a[3:]) if a.startswith('ok ') else None
        good = ym is not None and ym.shape == ref.shape and float(np.max(np.abs(ym - ref))) <= 1e-11
        ctx.compare('np_model_vs_lean', {'op': 'np_model_vs_lean', 'n': ref.shape[1]}, 'ok' if good else 'differs', 'ok', tags=('np_model_vs_lean',))
    ctx.note(f'block-aligned lengths: largest |real code - model formula| / max(1,max|x|) in float64 = {worst:.3g}')


def oracle_long(c):
    """direct oracle on a long array given by its generator parameters: integer shifts = np.roll, per-trace = per-row scalar"""
    from ibldsp.fourier import fshift
    w, sv = build_long(c)
    w = w.astype(c['dtype'])
    axis = c['axis']
    y = fshift(w.copy(), sv.copy() if isinstance(sv, np.ndarray) else sv, axis=axis)
    if y.shape != w.shape or y.dtype != w.dtype:
        return c, f'shape {y.shape} dtype {y.dtype}', f'shape {w.shape} dtype {w.dtype}'
    rows = axis in (1, -1)
    tol = 4 * _tol(w.dtype, w)
    ntr = w.shape[0] if rows else w.shape[1]
    for i in range(ntr):
        tr = (w[i, :] if rows else w[:, i]).copy()
        si = float(sv[i]) if isinstance(sv, np.ndarray) else float(sv)
        got = (y[i, :] if rows else y[:, i]).astype(float)
        ref = np.roll(tr, int(si)).astype(float) if si == int(si) else fshift(tr.copy(), si).astype(float)
        if isinstance(sv, np.ndarray) or si == int(si):
            d = float(np.max(np.abs(got - ref)))
            if d > tol:
                what = f'np.roll(trace, {int(si)})' if si == int(si) else f'fshift(trace, {si!r}) (scalar shift of that trace alone)'
                return c, f'trace {i} of fshift(w, s, axis={axis}) differs from {what} by {d:.3g} (n = {c["n"]}, {ntr} traces)', what
    return None


# ---------------------------------------------------------------------------------------------
# correspondence
# ---------------------------------------------------------------------------------------------
def _check_source_constants(ctx):
    """The two numeric literals the model owns: the one-sample impulse of fshift and the interpolation matrix of parabolic_max."""
    try:
        from framework import SRC
        src = Path(SRC)
        f = (src / 'ibldsp' / 'fourier.py').read_text()
        u = (src / 'ibldsp' / 'utils.py').read_text()
        ok1 = 'np.put(dephas, 1, 1)' in f
        ok2 = False
        for node in ast.walk(ast.parse(u)):
            if isinstance(node, ast.FunctionDef) and node.name == 'parabolic_max':
                txt = ast.unparse(node)
                ok2 = '0.5 * np.array([[1, -2, 1], [-1, 0, 1], [0, 2, 0]])' in txt
        ctx.note(f'source literals: np.put(dephas, 1, 1) {"found" if ok1 else "NOT FOUND (behavioural comparison still decides)"}; '
                 f'parabolic_max matrix 0.5*[[1,-2,1],[-1,0,1],[0,2,0]] {"found" if ok2 else "NOT FOUND (behavioural comparison still decides)"}')
    except Exception as e:  # noqa
        ctx.note(f'source literal check skipped: {type(e).__name__}: {e}')


def _corr_externals(ctx):
    """assumed laws of the externals: scipy rfft/irfft = the model sums; np.roll = the model roll; np.angle(rfft(delta_1))"""
    import scipy.fft
    rng = ctx.rng
    lines, meta = [], []
    for n in list(range(1, 34)) + [48, 63, 64, 97]:
        x = rng.standard_normal(n)
        lines.append(f'rfft {_bits(x)}'); meta.append(('rfft', n, x))
        m = n // 2 + 1
        Y = rng.standard_normal(m) + 1j * rng.standard_normal(m)   # imaginary parts at DC / Nyquist deliberately non-zero
        lines.append(f'irfft {n} {_bits(Y.real)} {_bits(Y.imag)}'); meta.append(('irfft', n, Y))
        if n >= 2:
            lines.append(f'dephas {n}'); meta.append(('dephas', n, None))
    for _ in range(ctx.n(300, 2000)):
        n = int(rng.integers(1, 40)); m = int(rng.integers(-3 * n - 2, 3 * n + 3)); x = rng.standard_normal(n)
        lines.append(f'roll {m} {_bits(x)}'); meta.append(('roll', n, (m, x)))
    ans = ctx.lean(lines)
    for (op, n, d), a in zip(meta, ans):
        parts = a.split()
        desc = {'op': op, 'n': n}
        if op == 'rfft':
            X = scipy.fft.rfft(d)
            ok = len(parts) == 3 and np.allclose(_dec(parts[1]) + 1j * _dec(parts[2]), X, atol=1e-12 * max(1, n), rtol=0)
            ctx.compare(op, desc, 'ok', 'ok' if ok else a[:80], nontrivial=n > 1, tags=('ext:rfft',))
        elif op == 'irfft':
            y = scipy.fft.irfft(d, n)
            ok = len(parts) == 2 and np.allclose(_dec(parts[1]), y, atol=1e-12, rtol=0)
            ctx.compare(op, desc, 'ok', 'ok' if ok else a[:80], nontrivial=n > 1, tags=('ext:irfft',))
        elif op == 'dephas':
            z = np.zeros(n); z[1] = 1
            ang = np.angle(scipy.fft.rfft(z))
            am = _dec(parts[1])
            # the angle is compared through exp(i angle): at the Nyquist bin +pi and -pi denote the same phase factor of D itself;
            # below Nyquist the angles themselves must agree
            ok = len(am) == len(ang) and np.allclose(np.exp(1j * am), np.exp(1j * ang), atol=1e-12)
            k = (n - 1) // 2 + 1
            ok = ok and np.allclose(am[:k], ang[:k], atol=1e-12) and (n % 2 == 1 or abs(abs(am[-1]) - np.pi) < 1e-12)
            ctx.compare(op, desc, 'ok', 'ok' if ok else a[:80], nontrivial=True, tags=('ext:angle',))
        else:
            m, x = d
            ctx.compare(op, {'op': op, 'n': n, 'm': m}, 'ok ' + _bits(np.roll(x, m)), a, nontrivial=(m % n != 0 and n > 1),
                        tags=('ext:roll', '|m|>=n' if abs(m) >= n else '|m|<n'))


def _corr_fshift(ctx):
    c1 = _cases_1d(ctx)
    c2 = _cases_2d(ctx)
    nb = ctx.n(48, 96)
    lines, costs, built = [], [], []
    for c in c1:
        x, s_py, (k, sb) = _build_1d(c)
        lines.append(f'fshift1 {c["axis"]} {k} {sb} {_bits(x)}'); costs.append(c['n'] ** 2); built.append((c, x, s_py))
    for c in c2:
        w, s_py, (k, sb) = _build_2d(c)
        lines.append(f'fshift2 {c["ncol"]} {c["axis"]} {k} {sb} {_rows_bits(w)}')
        costs.append(c['n'] ** 2 * c['ntr']); built.append((c, w, s_py))
    # the full impulse basis: identity matrix, shifted along the last axis in one call
    for n in range(2, nb + 1):
        for sk in ('frac', 'int'):
            seed = int(ctx.rng.integers(0, 2 ** 31))
            s = make_shift(n, sk, seed)
            w = np.eye(n)
            c = {'op': 'impulse_basis', 'n': n, 'shift': sk, 's': s, 'axis': 1}
            lines.append(f'fshift2 {n} 1 S {_bits(s)} {_rows_bits(w)}'); costs.append(n ** 3); built.append((c, w, s))
    ans = _lean_parallel(ctx, lines, costs)
    worst64 = worst32 = 0.0
    ncase = 0
    for (c, w, s_py), a in zip(built, ans):
        pur = 2 if (ncase % 4 == 0 and c.get('n', 99) <= 96) else 1 if ncase % 2 == 0 else 0
        ncase += 1
        form = {}
        if 'layout' in c:
            form = {'layout': c['layout'], 'call': c['call']}
            if c['op'] == 'fshift2':
                form['sform'] = c.get('sform_used', 'f64')
        res = _run_impl(w, s_py, c['axis'], purity=pur, form=form)
        ftags = tuple(f'form:{k}={v}' for k, v in form.items())
        dec = _dec if c['op'] == 'fshift1' else _dec_rows
        impl_s, model_s = _compare_numeric(res, a, w, dec)
        if res[0] == 'ok' and a.startswith('ok '):
            ym = dec(a[3:])
            if ym.shape == res[1].shape and ym.size:
                sc = max(1.0, float(np.max(np.abs(w))))
                worst64 = max(worst64, float(np.max(np.abs(res[1] - ym))) / sc)
                worst32 = max(worst32, float(np.max(np.abs(res[2] - ym))) / sc)
        if c['op'] == 'fshift1':
            desc = dict(c); desc['s'] = s_py.tolist() if isinstance(s_py, np.ndarray) else float(s_py)
            nontriv = c['n'] >= 2 and c['shift'] != 'zero' and c['sig'] != 'const'
            tags = ('purity:' + ('none', 'repeat', 'repeat+interleave')[pur], 'fshift1', _nclass(c['n']) if c['n'] >= 2 else 'n<2', 'shift:' + c['shift'], 'sig:' + c['sig'], f'axis={c["axis"]}',
                    's:' + c.get('stype_used', c['stype']), 'result:' + ('err' if res[0].startswith('err') else 'ok')) + ftags
        elif c['op'] == 'fshift2':
            desc = dict(c)
            nontriv = True
            tags = ('purity:' + ('none', 'repeat', 'repeat+interleave')[pur], 'fshift2', f'axis={c["axis"]}', 'mode:' + c['mode'], 'result:' + ('err' if res[0].startswith('err') else 'ok')) + ftags
        else:
            desc = dict(c); nontriv = True
            tags = ('impulse_basis', _nclass(c['n']), 'shift:' + c['shift'])
        ctx.compare(c['op'], desc, impl_s, model_s, nontrivial=nontriv, tags=tags)
    ctx.note(f'shift vector found modified after a call (informational; consequences are checked by the repeated calls): {_S_MODIFIED[0]} times')
    ctx.note(f'largest |real code - Float twin| / max(1, max|x|): float64 {worst64:.3g} (tolerance {TOL64}), '
             f'float32 {worst32:.3g} (tolerance {TOL32})')


def _pmax_cases(ctx):
    rng = ctx.rng
    out = []
    for _ in range(ctx.n(600, 4000)):
        n = int(rng.integers(1, 14))
        kind = str(rng.choice(['int', 'int', 'edge0', 'edgeN', 'tie', 'plateau', 'float']))
        if kind == 'float':
            x = rng.standard_normal(n) * 3
        else:
            x = rng.integers(-9, 10, size=n).astype(float)
            if kind == 'edge0':
                x[0] = 20
            elif kind == 'edgeN':
                x[-1] = 20
            elif kind == 'tie' and n >= 2:
                i, j = rng.integers(0, n, size=2); x[i] = x[j] = 15
            elif kind == 'plateau' and n >= 3:
                i = int(rng.integers(0, n - 2)); x[i:i + 3] = 12
        out.append((kind, x))
    return out


PFORMS = [(d, l, c) for d in ('float64', 'float32', 'int64', 'int16') for l in LAYOUTS_1D for c in ('pos', 'kw')]


def _corr_pmax(ctx):
    from ibldsp.utils import parabolic_max
    cases = _pmax_cases(ctx)
    ans = ctx.lean([f'pmax {_bits(x)}' for _, x in cases])
    for k_case, ((kind, x), a) in enumerate(zip(cases, ans)):
        desc = {'op': 'pmax', 'kind': kind, 'x': x.tolist()}
        try:
            pform = PFORMS[k_case % len(PFORMS)] if (kind != 'float' or PFORMS[k_case % len(PFORMS)][0] == 'float64') else ('float64', 'C', 'pos')
            desc['form'] = list(pform)
            xo = layout_array(x.astype(pform[0]), pform[1])
            if pform[2] == 'kw':
                parabolic_max(x=xo)                          # keyword spelling of the single parameter
            ip, mx = parabolic_max(xo)
            ip, mx = float(ip), float(mx)
            ipb, mxb = parabolic_max(xo)                      # the same object again
            if float(ipb) != ip or float(mxb) != mx:
                raise AssertionError('parabolic_max: second call with the same array returned a different result')
            p = a.split()
            mip, mmx = (float(_dec(p[1])[0]), float(_dec(p[2])[0])) if p[0] == 'ok' else (None, None)
            if kind == 'float':
                im = int(np.argmax(x))
                interior = 0 < im < len(x) - 1
                curv = abs(x[im - 1] - 2 * x[im] + x[im + 1]) if interior else 1.0
                if mip is not None and curv > 1e-3 and abs(ip - mip) <= 1e-9 * (1 + abs(ip)) and abs(mx - mmx) <= 1e-9 * (1 + abs(mx)):
                    impl_s = model_s = 'ok'
                elif mip is not None and curv <= 1e-3:
                    impl_s = model_s = 'ok'
                else:
                    impl_s, model_s = f'{ip!r} {mx!r}', f'{mip!r} {mmx!r}'
            else:
                impl_s, model_s = f'ok {_bits(ip)} {_bits(mx)}', a
        except Exception as e:  # noqa
            impl_s, model_s = _err_name(e), a
        ctx.compare('pmax', desc, impl_s, model_s, nontrivial=len(x) >= 3,
                    tags=('pmax', 'pmax:' + kind) + tuple(f'pmax form:{v}' for v in desc.get('form', ())))
    # the 2-D branch of parabolic_max works row by row like the 1-D branch
    rng = ctx.rng
    for _ in range(ctx.n(60, 400)):
        a, b = int(rng.integers(1, 6)), int(rng.integers(1, 10))
        x = rng.integers(-9, 10, size=(a, b)).astype(float)
        desc = {'op': 'pmax2d', 'x': x.tolist()}
        try:
            ip2, mx2 = parabolic_max(x.copy())
            rows = [parabolic_max(r.copy()) for r in x]
            same = all(float(ip2[i]) == float(rows[i][0]) and float(mx2[i]) == float(rows[i][1]) for i in range(a))
            ctx.compare('pmax2d', desc, 'ok' if same else f'{np.asarray(ip2).tolist()} {np.asarray(mx2).tolist()}',
                        'ok' if same else f'{[float(r[0]) for r in rows]} {[float(r[1]) for r in rows]}', nontrivial=b >= 3, tags=('pmax2d',))
        except Exception as e:  # noqa
            ctx.compare('pmax2d', desc, _err_name(e), 'ok', tags=('pmax2d',))


# ---------------------------------------------------------------------------------------------
# numeric oracle of the delay estimate (partial part of the property)
# ---------------------------------------------------------------------------------------------
DELAY_TOL = 0.05
REALIGN_TOL = 0.06


DELAY_AMPS = (1.0, 1.0, 1e-4, 1e-6, 1e3, 3e-5, 1.0, 2.5e-7)


def delay_case(n, wav, a, c, d, dtype):
    """wave_shift_corrmax on a wavelet and its shifted copy; None when the property holds, else a description"""
    from ibldsp.fourier import fshift
    from ibldsp.waveforms import wave_shift_corrmax
    # the estimate does not depend on the physical unit of the traces: counts, microvolts, volts (1e-4 .. 1e-6) - the amplitude is
    # derived from d so that a replay (n, wavelet, width, centre, shift, dtype) reproduces it
    amp = DELAY_AMPS[int(abs(d) * 1e4) % len(DELAY_AMPS)]
    w = (amp * (ricker(n, a, c) if wav == 'ricker' else morlet(n, a, c))).astype(dtype)
    w2 = fshift(w, d)
    lay = LAYOUTS_1D[int(abs(d) * 1000) % len(LAYOUTS_1D)]      # form of the two arguments, independent of the property
    w, w2 = layout_array(w, lay), layout_array(w2, LAYOUTS_1D[(int(abs(d) * 1000) // 7) % len(LAYOUTS_1D)])
    rs, dh = wave_shift_corrmax(w, w2)                        # positional, in the pinned order (spike, spike2)
    dh = float(dh)
    rs1 = np.array(rs, copy=True)
    rsb, dhb = wave_shift_corrmax(w, w2)                     # the same argument objects again
    if float(dhb) != dh or not np.array_equal(np.asarray(rsb), rs1):
        return (f'wave_shift_corrmax called twice with the same arrays: delay {dh!r} then {float(dhb)!r}, re-aligned copies '
                f'{"equal" if np.array_equal(np.asarray(rsb), rs1) else "differ"}'), 9.0, 9.0
    rs = rs1
    if not abs(dh - d) <= DELAY_TOL:
        return f'estimated delay {dh!r} for an applied shift {d!r} (error {abs(dh - d):.3g} > {DELAY_TOL})', abs(dh - d), 0.0
    re = float(np.max(np.abs(np.asarray(rs, dtype=float) - w.astype(float))) / np.max(np.abs(w)))
    if not re <= REALIGN_TOL:
        return f're-aligned copy differs from the waveform by {re:.3g} of its peak (> {REALIGN_TOL})', abs(dh - d), re
    return None, abs(dh - d), re


def _delay_cases(rng, count):
    out = []
    for _ in range(count):
        n = int(rng.choice([64, 81, 96, 121, 127, 128, 200, 255, 256, 512]))
        wav = str(rng.choice(['ricker', 'morlet'])) if n >= 96 else 'ricker'
        lo = 2.0 if wav == 'ricker' else 5.0
        a = float(rng.uniform(lo, n / 16))
        c = n / 2 + float(rng.uniform(-3, 3))
        d = float(rng.uniform(-n / 8, n / 8))
        if rng.random() < 0.15:
            d = float(np.round(d))
        out.append((n, wav, a, c, d, str(rng.choice(['float64', 'float32']))))
    return out


def cluster_params(seed):
    r = np.random.default_rng([seed, 909])
    n = int(r.choice([96, 121, 128])); ntr = int(r.integers(3, 8)); N = int(r.choice([5, 7, 9]))
    a = float(r.uniform(2, n / 16)); c = n / 2 + float(r.uniform(-2, 2))
    amps = r.uniform(0.2, 0.6, ntr); amps[int(r.integers(0, ntr))] = 1.0
    h = (N - 1) // 2
    pos = np.sort(r.uniform(0.1, 2.0, h))
    d = np.concatenate([-pos[::-1], [0.0], pos])
    return {'op': 'cluster', 'n': n, 'width': a, 'centre': c, 'trace_amplitudes': [float(v) for v in amps], 'delays': [float(v) for v in d]}


def cluster_case(p):
    """shift_waveform on copies of one multi-channel template (negative Ricker wavelet of the given width/centre, scaled per trace)
    shifted by known delays: the applied shifts undo them (up to the common offset of the median template) and the outputs
    coincide.  None when it holds."""
    from ibldsp.fourier import fshift
    from ibldsp.waveforms import shift_waveform
    n = p['n']; d = np.array(p['delays']); amps = np.array(p['trace_amplitudes'])
    base = -ricker(n, p['width'], p['centre'])
    tmpl = amps[:, None] * base[None, :]
    h = (len(d) - 1) // 2
    wf = np.stack([fshift(tmpl, float(di), axis=-1) for di in d])
    # a read-only cluster is excluded: known finding shift_waveform_readonly_cluster (the helper _validate_arr_in writes into a view of it)
    lay = ('C', 'F', 'negstride')[(len(d) + n) % 3]
    if lay == 'F':
        wf = np.asfortranarray(wf)
    elif lay != 'C':
        wf = layout_array(wf, lay)
    wf0 = wf.copy()
    out, sh = shift_waveform(wf)
    if out.shape != wf.shape:
        return f'output shape {out.shape} != input shape {wf.shape}', 0, 0
    out_b, sh_b = shift_waveform(wf)                         # the same cluster object again
    if not (np.array_equal(np.asarray(out_b), np.asarray(out)) and np.array_equal(np.asarray(sh_b), np.asarray(sh))):
        return 'shift_waveform called twice on the same cluster returned different results', 9.0, 9.0
    resid = np.asarray(sh, dtype=float) + d
    e = float(np.max(np.abs(resid - resid.mean())))
    spread = float(np.max(np.abs(out - out[h][None])) / np.max(np.abs(base)))
    if not e <= DELAY_TOL:
        return f'applied shifts {np.round(sh, 3).tolist()} do not undo the delays {np.round(d, 3).tolist()} (deviation {e:.3g} > {DELAY_TOL})', e, spread
    if not spread <= REALIGN_TOL:
        return f're-aligned waveforms differ by {spread:.3g} of the peak (> {REALIGN_TOL})', e, spread
    return None, e, spread


def _corr_delay(ctx):
    worst = worst_re = 0.0
    for (n, wav, a, c, d, dt) in _delay_cases(ctx.rng, ctx.n(400, 3000)):
        desc = {'op': 'delay', 'n': n, 'wavelet': wav, 'width': a, 'centre': c, 'shift': d, 'dtype': dt}
        try:
            r, e, re = delay_case(n, wav, a, c, d, np.dtype(dt).type)
            worst, worst_re = max(worst, e), max(worst_re, re)
        except Exception as ex:  # noqa
            r = f'raised {type(ex).__name__}: {ex}'
        ctx.compare('delay', desc, 'ok' if r is None else r, 'ok', nontrivial=abs(d) > 0.05,
                    tags=('delay', 'delay:' + wav, 'delay:' + dt, 'delay:integer' if d == round(d) else 'delay:fractional'))
    wc = ws = 0.0
    for k in range(ctx.n(40, 300)):
        seed = int(ctx.rng.integers(0, 2 ** 31))
        try:
            r, e, sp = cluster_case(cluster_params(seed))
            wc, ws = max(wc, e), max(ws, sp)
        except Exception as ex:  # noqa
            r = f'raised {type(ex).__name__}: {ex}'
        ctx.compare('cluster', cluster_params(seed), 'ok' if r is None else r, 'ok', tags=('shift_waveform',))
    ctx.note(f'delay oracle (numeric, partial): worst |estimate - applied| = {worst:.4f} sample (tolerance {DELAY_TOL}), worst re-alignment '
             f'error = {worst_re:.4f} of the peak (tolerance {REALIGN_TOL}); shift_waveform: worst deviation {wc:.4f}, worst spread {ws:.4f}')


# ---------------------------------------------------------------------------------------------
# round h: arrays of any dimension, the frequency-domain entry point, vectorised parabolic_max, the delay estimate as a model
# ---------------------------------------------------------------------------------------------
LAYOUTS_ND = ('C', 'F', 'strided', 'negstride', 'readonly', 'permuted')
ND_MODES = ('scalar', 'pertrace', 'pertrace_int', 'repeat', 'wrongsize')
ND_SSHAPES = ('flat', 'shaped', 'squeezed')


def build_nd(c):
    """(w float64 with float32-representable samples, shift object as given to fshift, flat shift values or scalar) from the
    generator parameters of an N-d case"""
    r = np.random.default_rng([c['seed'], 1207])
    shape = tuple(c['shape'])
    ndim = len(shape)
    w = (r.standard_normal(shape) * float(r.choice([1.0, 20.0]))).astype(np.float32).astype(np.float64)
    if r.random() < 0.25:
        w = np.round(w)
    ax = c['axis'] % ndim if -ndim <= c['axis'] < ndim else None
    if ax is None:
        return w, float(r.uniform(-2, 2)), None
    n = shape[ax]
    ntr = int(np.prod(shape)) // max(n, 1)
    mode = c['mode']
    if mode == 'scalar':
        s = float(r.choice([r.uniform(-n, n), float(r.integers(-n, n + 1)), 0.5, -1 / 3]))
        return w, s, s
    if mode == 'pertrace':
        s = r.uniform(-max(n, 1), max(n, 1), size=ntr)
    elif mode == 'pertrace_int':
        s = r.integers(-n, n + 1, size=ntr).astype(float)
    elif mode == 'repeat':
        s = repeated_shifts(r, str(r.choice(['adc', 'repeat', 'allequal'])), max(ntr, 2), n)[:ntr]
    else:
        s = r.uniform(-1, 1, size=ntr + int(r.choice([1, 2, -1]) if ntr > 1 else 1))
        return w, s, s
    ss = list(shape); ss[ax] = 1
    if c['sshape'] == 'shaped':
        so = s.reshape(ss)
    elif c['sshape'] == 'squeezed':
        so = s.reshape([d for k, d in enumerate(shape) if k != ax] or [1])
    else:
        so = s
    return w, so, s


def _cases_nd(ctx):
    rng = ctx.rng
    out = []
    for _ in range(ctx.n(150, 1200)):
        ndim = int(rng.choice([3, 3, 3, 4, 2, 1]))
        n = int(rng.integers(2, 13))
        shape = [int(rng.integers(1, 5)) for _ in range(ndim)]
        ax = int(rng.integers(0, ndim))
        shape[ax] = n
        while int(np.prod(shape)) > 360:
            k = int(np.argmax([d if i != ax else 0 for i, d in enumerate(shape)]))
            shape[k] = max(1, shape[k] - 1)
        axis = ax if rng.random() < 0.5 else ax - ndim
        mode = str(rng.choice(ND_MODES, p=[.2, .35, .15, .22, .08]))
        out.append({'op': 'fshiftnd', 'shape': shape, 'axis': axis, 'mode': mode, 'sshape': str(rng.choice(ND_SSHAPES)),
                    'seed': int(rng.integers(0, 2 ** 31)), 'layout': str(rng.choice(LAYOUTS_ND)), 'call': str(rng.choice(CALLS))})
    # error branches: axis the array does not have, an axis of extent 1
    for shape, axis in (([2, 3, 4], 3), ([2, 3, 4], -4), ([3, 1, 4], 1), ([3, 1, 4], -2), ([1, 1, 1], 0), ([2, 2], 2)):
        out.append({'op': 'fshiftnd', 'shape': shape, 'axis': axis, 'mode': 'scalar', 'sshape': 'flat', 'seed': 11, 'layout': 'C', 'call': 'kw'})
    return out


def _corr_nd(ctx):
    """fshift on arrays of 1..4 dimensions along every axis (positive and negative), scalar and per-trace shifts (the vector given
    flat, in the broadcast shape, or in the shape of the other axes), several memory layouts, both dtypes: the real code vs the
    Float twin of `fshiftND`.  On 1-D / 2-D cases the twin of `fshiftND` is also compared bit for bit with the twins of
    `fshift1` / `fshift2` (consistency of the three models; `fshift_nd_one_dim` proves the 1-D half)."""
    cases = _cases_nd(ctx)
    lines, costs, built = [], [], []
    for c in cases:
        w, s_obj, s_flat = build_nd(c)
        kind, sb = ('S', _bits(s_flat if s_flat is not None else s_obj)) if not isinstance(s_obj, np.ndarray) else ('V', _bits(np.ravel(s_flat)))
        lines.append(f'fshiftnd {",".join(map(str, c["shape"]))} {c["axis"]} {kind} {sb} {_bits(w.ravel())}')
        n = c['shape'][c['axis'] % len(c['shape'])] if -len(c['shape']) <= c['axis'] < len(c['shape']) else 1
        costs.append(n * int(np.prod(c['shape'])))
        built.append((c, w, s_obj, kind, sb))
    extra, extra_of = [], {}
    for k, (c, w, s_obj, kind, sb) in enumerate(built):          # the older 1-D / 2-D models on the same input
        if len(c['shape']) == 1:
            extra_of[k] = len(extra); extra.append(f'fshift1 {c["axis"]} {kind} {sb} {_bits(w)}')
        elif len(c['shape']) == 2:
            extra_of[k] = len(extra); extra.append(f'fshift2 {c["shape"][1]} {c["axis"]} {kind} {sb} {_rows_bits(w)}')
    ans = _lean_parallel(ctx, lines + extra, costs + [1] * len(extra))
    ans, ans_extra = ans[:len(lines)], ans[len(lines):]
    worst = 0.0
    for k, ((c, w, s_obj, kind, sb), a) in enumerate(zip(built, ans)):
        shape = tuple(c['shape'])
        res = _run_impl(w, s_obj, c['axis'], purity=1 if k % 3 == 0 else 0, form={'layout': c['layout'], 'call': c['call']})
        dec = (lambda tok, shape=shape: _dec(tok).reshape(shape))
        impl_s, model_s = _compare_numeric(res, a, w, dec)
        if res[0] == 'ok' and a.startswith('ok '):
            worst = max(worst, float(np.max(np.abs(res[1] - dec(a[3:])), initial=0.0)) / max(1.0, float(np.max(np.abs(w)))))
        ax = c['axis']
        ctx.compare('fshiftnd', dict(c), impl_s, model_s, nontrivial=True,
                    tags=('fshiftnd', f'ndim={len(shape)}', 'axis:' + ('neg' if ax < 0 else 'pos') + ('=last' if ax in (-1, len(shape) - 1) else '=first' if ax in (0, -len(shape)) else '=middle'),
                          'nd mode:' + c['mode'], 'nd s:' + c['sshape'], 'nd layout:' + c['layout'], 'result:' + ('err' if res[0].startswith('err') else 'ok')))
        if k in extra_of:
            b = ans_extra[extra_of[k]]
            same = (a == b) if len(shape) == 1 or not a.startswith('ok ') else (a.startswith('ok ') and b.startswith('ok ') and
                                                                                 np.array_equal(_dec(a[3:]), np.concatenate([_dec(x) for x in b[3:].split(';')])))
            if not same and not (a.startswith('err') and b.startswith('err')):
                ctx.note(f'MODEL INCONSISTENCY fshiftND vs fshift{len(shape)} on {c}: {a[:60]} / {b[:60]}')
            ctx.compare('nd_vs_lowdim_model', {'op': 'nd_vs_lowdim_model', 'case': dict(c)}, 'ok', 'ok' if same or (a.startswith('err') and b.startswith('err')) else 'differs',
                        tags=('model consistency fshiftND = fshift1/fshift2',))
    ctx.note(f'N-d arrays: largest |real code - Float twin of fshiftND| / max(1, max|x|) in float64 = {worst:.3g}')


def oracle_nd(c):
    """direct oracle on an N-d case given by its generator parameters: every trace (all indices fixed except the one along the axis)
    of the result is the 1-D scalar fshift of that trace by ITS entry of the shift vector (np.roll for an integer entry)"""
    from ibldsp.fourier import fshift
    w64, s_obj, s_flat = build_nd(c)
    if c['mode'] == 'wrongsize' or s_flat is None:
        return None
    shape = tuple(c['shape']); ndim = len(shape); ax = c['axis'] % ndim
    if shape[ax] < 2:
        return None
    for dt in (np.float64, np.float32):
        w = layout_array(w64.astype(dt), c.get('layout', 'C'))
        w0 = np.array(w, copy=True)
        so = s_obj.copy() if isinstance(s_obj, np.ndarray) else s_obj
        inp = dict(c, dtype=np.dtype(dt).name, w=w0.tolist(), s=np.asarray(s_obj).tolist())
        try:
            y = call_fshift(w, so, c['axis'], c.get('call', 'kw'))
        except Exception as e:  # noqa
            return inp, f'fshift raised {type(e).__name__}: {e}', 'a shifted array'
        if y.shape != w0.shape or y.dtype != w0.dtype:
            return inp, f'result shape {y.shape} dtype {y.dtype}', f'shape {w0.shape} dtype {w0.dtype}'
        if not np.array_equal(w, w0):
            return inp, 'input array modified', 'input untouched'
        wm = np.moveaxis(w0, ax, -1).reshape(-1, shape[ax]); ym = np.moveaxis(y, ax, -1).reshape(-1, shape[ax])
        sv = np.broadcast_to(np.asarray(s_flat, dtype=float).ravel(), (wm.shape[0],)) if np.ndim(s_flat) else np.full(wm.shape[0], float(s_flat))
        tol = 4 * _tol(dt, w0)
        for q in range(wm.shape[0]):
            si = float(sv[q])
            ref = np.roll(wm[q], int(si)).astype(float) if si == int(si) else fshift(wm[q].copy(), si).astype(float)
            d = float(np.max(np.abs(ym[q].astype(float) - ref)))
            if d > tol:
                idx = np.unravel_index(q, [dd for k, dd in enumerate(shape) if k != ax] or [1])
                what = f'np.roll(trace, {int(si)})' if si == int(si) else f'fshift(trace, {si!r}) (1-D scalar shift of that trace)'
                return inp, (f'trace at the other indices {list(map(int, idx))} of fshift(w, s, axis={c["axis"]}) = {ym[q].tolist()}'), f'{what} = {ref.tolist()}'
    return None


def _freq_cases(ctx):
    rng = ctx.rng
    out = []
    for n in list(range(2, 41)) + [63, 64, 65, 96, 127, 128]:
        for _ in range(1 if n > 24 else 2):
            out.append({'op': 'fshift_freq', 'n': n, 'ns': n, 'shift': str(rng.choice(SHIFTS)), 'sig': str(rng.choice(SIGS)), 'seed': int(rng.integers(0, 2 ** 31)),
                        'cdtype': str(rng.choice(['complex128', 'complex128', 'complex64'])), 'call': str(rng.choice(['kw', 'pos4', 'kwall']))})
    for n in (4, 5, 8, 9, 16):            # a declared length that does not go with the number of bins (error), or goes with it (n even: n + 1)
        for dn in (1, -1, 2):
            if (n + dn) % 2 == 0 and (n + dn) // 2 + 1 == n // 2 + 1:
                continue      # accepted, but the result then hinges on the sign of a floating-point zero (np.angle(-1 +- 0j) at a bin with an imaginary part)
            out.append({'op': 'fshift_freq', 'n': n, 'ns': n + dn, 'shift': 'frac', 'sig': 'randn', 'seed': int(rng.integers(0, 2 ** 31)),
                        'cdtype': 'complex128', 'call': 'kw'})
    return out


def call_fshift_freq(W, s, ns, spelling):
    from ibldsp.fourier import fshift
    if spelling == 'pos4':
        return fshift(W, s, -1, ns)
    if spelling == 'kwall':
        return fshift(w=W, s=s, axis=-1, ns=ns)
    return fshift(W, s, ns=ns)


def freq_case(c):
    """fshift on an already transformed trace: (outcome of the real code, spectrum given, shift).  The complex input is a copy (the
    code multiplies it in place; only a REAL input is required to stay untouched)."""
    import scipy.fft
    x = make_signal(c['n'], c['sig'], c['seed'])
    s = make_shift(c['n'], c['shift'], c['seed'])
    W = scipy.fft.rfft(x).astype(c['cdtype'])
    try:
        Y = call_fshift_freq(W.copy(), s, c['ns'], c.get('call', 'kw'))
    except Exception as e:  # noqa
        return _err_name(e), W, s, x
    return np.asarray(Y), W, s, x


def oracle_freq(c):
    """the frequency-domain call between the two transforms equals the time-domain call (values; tolerance of the narrower dtype)"""
    import scipy.fft
    from ibldsp.fourier import fshift
    if c['ns'] != c['n']:
        return None
    Y, W, s, x = freq_case(c)
    inp = dict(c, x=[float(v) for v in x], s=s)
    if isinstance(Y, str):
        return inp, f'fshift(rfft(x), s, ns=n) raised {Y[4:]}', 'the shifted half spectrum'
    if Y.shape != W.shape:
        return inp, f'shape {Y.shape}', f'shape {W.shape} of the half spectrum'
    y = scipy.fft.irfft(Y.astype(np.complex128), c['n'])
    ref = fshift(x.copy(), s)
    tol = (1e-9 if c['cdtype'] == 'complex128' else 2e-5) * max(1.0, float(np.max(np.abs(x)))) * 4
    if float(np.max(np.abs(y - ref))) > tol:
        return inp, f'irfft(fshift(rfft(x), {s!r}, ns={c["n"]}), {c["n"]}) = {y.tolist()}', f'fshift(x, {s!r}) = {ref.tolist()}'
    return None


def _corr_freq(ctx):
    cases = _freq_cases(ctx)
    lines, runs = [], []
    for c in cases:
        Y, W, s, x = freq_case(c)
        W64 = W.astype(np.complex128)
        lines.append(f'fshiftfreq {c["ns"]} {_bits(s)} {_bits(W64.real)} {_bits(W64.imag)}')
        runs.append((c, Y, W, s, x))
    worst = 0.0
    for (c, Y, W, s, x), a in zip(runs, ctx.lean(lines)):
        p = a.split()
        if isinstance(Y, str) or p[0] != 'ok':
            impl_s, model_s = (Y if isinstance(Y, str) else 'ok'), ('ok' if p[0] == 'ok' else a[:40])
        else:
            Ym = _dec(p[1]) + 1j * _dec(p[2])
            sc = max(1.0, float(np.max(np.abs(W))))
            Yc = np.array(Y, dtype=np.complex128)
            if c['ns'] % 2 == 0 and Ym.shape == Yc.shape:
                # the imaginary part of the Nyquist bin is not compared: np.angle(-1 +- 0j) is +-pi according to the sign of a
                # floating-point zero, and every inverse real transform discards that imaginary part
                Yc[-1] = Yc[-1].real; Ym[-1] = Ym[-1].real
            e = float(np.max(np.abs(Yc - Ym), initial=0.0)) / sc if Ym.shape == Y.shape else np.inf
            if c['cdtype'] == 'complex128':
                worst = max(worst, e)
            good = Y.shape == W.shape and e <= (TOL64 if c['cdtype'] == 'complex128' else TOL32)
            impl_s, model_s = ('ok', 'ok') if good else (f'shape {Y.shape}, max |difference| / scale = {e:.3g}', 'ok')
            if good and oracle_freq(c):
                impl_s = 'irfft of the result differs from the time-domain call'
        ctx.compare('fshift_freq', dict(c), impl_s, model_s, nontrivial=c['shift'] != 'zero',
                    tags=('fshift_freq', 'freq ' + c['cdtype'], 'freq ns=' + ('n' if c['ns'] == c['n'] else 'other'), 'freq call:' + c['call'],
                          'result:' + ('err' if isinstance(Y, str) else 'ok')))
    ctx.note(f'frequency-domain entry point: largest |real code - Float twin| / scale in complex128 = {worst:.3g}')


def _pmax2_cases(ctx):
    rng = ctx.rng
    out = []
    for _ in range(ctx.n(160, 1200)):
        a, b = int(rng.integers(1, 7)), int(rng.integers(1, 10))
        kind = str(rng.choice(['int', 'int', 'edges', 'ties', 'nan', 'float']))
        if kind == 'float':
            x = rng.standard_normal((a, b)) * 3
        else:
            x = rng.integers(-9, 10, size=(a, b)).astype(float)
            for i in range(a):
                u = rng.random()
                if kind == 'edges' and u < 0.7:
                    x[i, 0 if u < 0.35 else -1] = 20
                elif kind == 'ties' and b >= 2:
                    j, k = rng.integers(0, b, size=2); x[i, j] = x[i, k] = 15
                elif kind == 'nan' and u < 0.6:
                    x[i, int(rng.integers(0, b))] = np.nan
                    if u < 0.2:
                        x[i, int(rng.integers(0, b))] = np.nan
        out.append((kind, x))
    return out


def _same_float(u, v, tol):
    u, v = np.asarray(u, dtype=float), np.asarray(v, dtype=float)
    if u.shape != v.shape or not np.array_equal(np.isnan(u), np.isnan(v)):
        return False
    m = ~np.isnan(u)
    fin = m & np.isfinite(u) & np.isfinite(v)
    return bool(np.array_equal(u[m & ~fin], v[m & ~fin]) and np.all(np.abs(u[fin] - v[fin]) <= tol * (1 + np.abs(v[fin]))))


def _corr_pmax2(ctx):
    """the 2-D branch of parabolic_max vs the Float twin of `parabolicMax2` (bit for bit on integer-valued rows, NaN / infinite
    samples and edge rows included; tolerance on random rows), and row by row vs the 1-D branch of the real code"""
    from ibldsp.utils import parabolic_max
    cases = _pmax2_cases(ctx)
    ans = ctx.lean([f'pmax2 {_rows_bits(x)}' for _, x in cases])
    for (kind, x), a in zip(cases, ans):
        desc = {'op': 'pmax2', 'kind': kind, 'x': [[None if np.isnan(v) else float(v) for v in r] for r in x]}
        try:
            with np.errstate(all='ignore'):
                ip, mx = parabolic_max(x.copy())
                rows = [parabolic_max(r.copy()) for r in x]
            ip, mx = np.asarray(ip, dtype=float), np.asarray(mx, dtype=float)
            p = a.split()
            mip, mmx = _dec(p[1]), _dec(p[2])
            exact = kind in ('int', 'edges', 'ties', 'nan')
            curv_ok = True
            if kind == 'float':
                for r in x:
                    im = int(np.argmax(r))
                    if 0 < im < len(r) - 1 and abs(r[im - 1] - 2 * r[im] + r[im + 1]) <= 1e-3:
                        curv_ok = False
            good = (not curv_ok) or (_same_float(ip, mip, 0.0 if exact else 1e-9) and _same_float(mx, mmx, 0.0 if exact else 1e-9))
            rowwise = _same_float(ip, [float(r[0]) for r in rows], 0.0) and _same_float(mx, [float(r[1]) for r in rows], 0.0)
            impl_s = 'ok' if good and rowwise else (f'ipeak {ip.tolist()} maxi {mx.tolist()}' + ('' if rowwise else ' (differs from the 1-D call on each row)'))
            model_s = 'ok' if good and rowwise else f'ipeak {mip.tolist()} maxi {mmx.tolist()}'
        except Exception as e:  # noqa
            impl_s, model_s = _err_name(e), a[:60]
        ctx.compare('pmax2', desc, impl_s, model_s, nontrivial=x.shape[1] >= 3, tags=('pmax2', 'pmax2:' + kind))


def compact_wavelet(n, seed):
    """integer-valued waveform of n samples whose non-zero samples sit in a short central stretch, and an integer delay that keeps the
    delayed copy (and the correlation peak) inside the window: the domain of theorem corrmax_integer_delay"""
    r = np.random.default_rng([seed, n, 616])
    width = int(r.integers(1, max(2, n // 4) + 1))
    lo = int(r.integers(n // 4, max(n // 4 + 1, n - n // 4 - width + 1)))
    x = np.zeros(n)
    x[lo:lo + width] = r.integers(-9, 10, size=width)
    if not np.any(x):
        x[lo] = 3.0
    cands = [m for m in range(-n, n + 1) if 0 <= lo + m and lo + width + m <= n and 0 < n // 2 - m < n - 1]
    m = int(r.choice(cands)) if cands else 0
    return x, m


def corrmax_case(x, y):
    from ibldsp.waveforms import wave_shift_corrmax
    a, b = np.array(x, dtype=float), np.array(y, dtype=float)
    rs, sh = wave_shift_corrmax(a, b)
    rs2, sh2 = wave_shift_corrmax(a, b)
    if float(sh2) != float(sh) or not np.array_equal(np.asarray(rs2), np.asarray(rs)):
        raise AssertionError('wave_shift_corrmax: second call with the same arrays returned a different result')
    return np.asarray(rs, dtype=float), float(sh)


def oracle_corrmax_int(x, m):
    """an integer-valued waveform with compact support, delayed by a whole number m of samples without wrapping: the estimate is m and
    the re-aligned copy is the waveform (theorem corrmax_integer_delay; exact up to float rounding)"""
    x = np.asarray(x, dtype=float)
    y = np.roll(x, m)
    inp = {'op': 'corrmax', 'spike': x.tolist(), 'delay': int(m)}
    try:
        rs, sh = corrmax_case(x, y)
    except Exception as e:  # noqa
        return inp, f'wave_shift_corrmax(x, np.roll(x, {m})) raised {type(e).__name__}: {e}', f'(x, {m})'
    if abs(sh - m) > 1e-9:
        return inp, f'wave_shift_corrmax(x, np.roll(x, {m})) estimates the shift {sh!r}', f'the applied shift {m}'
    if float(np.max(np.abs(rs - x))) > 1e-9 * max(1.0, float(np.max(np.abs(x)))):
        return inp, f're-aligned copy {rs.tolist()}', f'the waveform itself {x.tolist()}'
    return None


def _corr_corrmax(ctx):
    """scipy.signal.correlate(mode='same') = the model's defining sum (external law); wave_shift_corrmax vs the Float twin of
    `waveShiftCorrmax` (correlation, argmax, parabolic interpolation, zero lag floor(n/2), sign, re-alignment by fshift) on
    integer-valued compact waveforms delayed by whole samples (the theorem's domain: estimate = delay exactly) and on random short
    traces (tolerance; skipped when the two largest correlation values are within 1e-9 of each other: argmax is then decided by
    rounding)"""
    import scipy.signal
    rng = ctx.rng
    lines, meta = [], []
    for _ in range(ctx.n(120, 800)):
        n = int(rng.integers(1, 25))
        a, b = rng.standard_normal(n), rng.standard_normal(n)
        if rng.random() < 0.5:
            a, b = np.round(a * 4), np.round(b * 4)
        lines.append(f'corr {_bits(a)} {_bits(b)}'); meta.append(('corr', a, b, None))
    for _ in range(ctx.n(160, 1200)):
        n = int(rng.integers(5, 41))
        x, m = compact_wavelet(n, int(rng.integers(0, 2 ** 31)))
        lines.append(f'corrmax {_bits(x)} {_bits(np.roll(x, m))}'); meta.append(('corrmax_int', x, np.roll(x, m), m))
    for _ in range(ctx.n(80, 600)):
        n = int(rng.integers(3, 33))
        a = rng.standard_normal(n) * np.exp(-0.5 * ((np.arange(n) - n / 2) / max(1.0, n / 6)) ** 2)
        b = np.roll(a, int(rng.integers(-n // 4, n // 4 + 1))) + 0.05 * rng.standard_normal(n)
        lines.append(f'corrmax {_bits(a)} {_bits(b)}'); meta.append(('corrmax', a, b, None))
    costs = [len(m_[1]) ** 2 for m_ in meta]
    ans = _lean_parallel(ctx, lines, costs)
    for (op, a, b, m), ans_ in zip(meta, ans):
        p = ans_.split()
        if op == 'corr':
            c = scipy.signal.correlate(a, b, mode='same')
            ok = p[0] == 'ok' and _dec(p[1]).shape == c.shape and np.allclose(_dec(p[1]), c, atol=1e-9 * max(1.0, float(np.max(np.abs(c)))), rtol=0)
            ctx.compare('corr', {'op': 'corr', 'a': a.tolist(), 'b': b.tolist()}, 'ok', 'ok' if ok else ans_[:80], nontrivial=len(a) > 1, tags=('ext:correlate same',))
            continue
        desc = {'op': op, 'spike': a.tolist(), 'spike2': b.tolist()}
        if m is not None:
            desc['delay'] = int(m)
        try:
            rs, sh = corrmax_case(a, b)
            msh, mrs = float(_dec(p[1])[0]), _dec(p[2])
            c = scipy.signal.correlate(a, b, mode='same')
            top = np.sort(c)[::-1]
            ambiguous = len(top) > 1 and abs(top[0] - top[1]) <= 1e-9 * max(1.0, abs(top[0]))
            im = int(np.argmax(c))
            flat = 0 < im < len(c) - 1 and abs(c[im - 1] - 2 * c[im] + c[im + 1]) <= 1e-6 * max(1.0, abs(c[im]))
            sc = max(1.0, float(np.max(np.abs(b))))
            good = ambiguous or flat or (abs(sh - msh) <= 1e-7 * (1 + abs(msh)) and mrs.shape == rs.shape and float(np.max(np.abs(rs - mrs), initial=0.0)) <= 1e-6 * sc * len(a))
            impl_s, model_s = ('ok', 'ok') if good else (f'shift {sh!r} re-aligned {rs.tolist()}', f'shift {msh!r} re-aligned {mrs.tolist()}')
            if good and m is not None and oracle_corrmax_int(a, m):
                impl_s = oracle_corrmax_int(a, m)[1]
        except Exception as e:  # noqa
            impl_s, model_s = _err_name(e), 'ok'
        ctx.compare(op, desc, impl_s, model_s, nontrivial=True, tags=('corrmax', 'corrmax:' + ('integer delay of a compact waveform' if m is not None else 'random')))


def _corr_plan(ctx):
    """the stage list (the one the tie proves equal to the translated source) executed by the model's interpreter gives, bit for bit,
    the twin of `fshiftCore` (theorem fshift_plan, here on the Float instance), and the list without the data transform gives nothing"""
    rng = ctx.rng
    lines, meta = [], []
    for n in (2, 3, 4, 5, 8, 9, 16):
        x = rng.standard_normal(n); s = float(rng.uniform(-n, n))
        for kind in ('scalar', 'pertrace', 'freq'):
            lines.append(f'plan {kind} -1 {n} {_bits(s)} {_bits(x)}'); meta.append((kind, n))
        lines.append(f'fshift1 -1 S {_bits(s)} {_bits(x)}'); meta.append(('ref', n))
    ans = ctx.lean(lines)
    for k in range(0, len(ans), 4):
        ref = ans[k + 3]
        ok = ans[k] == ref and ans[k + 1] == ref and ans[k + 2] == 'none' and ref.startswith('ok ')
        ctx.compare('plan', {'op': 'plan', 'n': meta[k][1]}, 'ok', 'ok' if ok else f'{ans[k][:40]} | {ans[k + 2][:40]} | {ref[:40]}', tags=('stage list = fshiftCore (Float)',))


def correspondence(ctx):
    import time
    _check_source_constants(ctx)
    spent = []
    for f in (_corr_externals, _corr_fshift, _corr_block_lengths, _corr_pmax, _corr_nd, _corr_freq, _corr_pmax2, _corr_corrmax, _corr_plan,
              _corr_delay):
        t0 = time.time()
        f(ctx)
        spent.append(f'{f.__name__[6:]} {time.time() - t0:.1f}s')
    ctx.note('correspondence wall time per part: ' + ', '.join(spent))


# ---------------------------------------------------------------------------------------------
# direct oracle of the property on the real code (independent of the Lean model)
# ---------------------------------------------------------------------------------------------
def _tol(dtype, x):
    return (1e-9 if np.dtype(dtype) == np.float64 else 2e-5) * max(1.0, float(np.max(np.abs(x))) if np.size(x) else 1.0)


def _nyquist(x):
    n = len(x)
    return float(np.sum(x * np.where(np.arange(n) % 2 == 0, 1.0, -1.0))) if n % 2 == 0 else 0.0


def oracle_1d(x, shifts, dtype):
    """C07 on one real trace.  `shifts` = list of shifts to try.  Returns None or (input dict, observed, expected)."""
    from ibldsp.fourier import fshift
    x = np.asarray(x, dtype=dtype)
    n = len(x)
    tol = _tol(dtype, x)
    inp = {'x': [float(v) for v in x], 'dtype': np.dtype(dtype).name}

    def run(w, s, **kw):
        w0 = w.copy()
        y = fshift(w, s, **kw)
        if not np.array_equal(w, w0):
            raise AssertionError('input modified')
        return y

    for s in shifts:
        try:
            y = run(x, s)
        except AssertionError:
            return dict(inp, s=s), 'the real-valued input array was modified by fshift', 'input left untouched'
        except Exception as e:  # noqa
            return dict(inp, s=s), f'fshift raised {type(e).__name__}: {e}', 'a shifted array'
        if y.shape != x.shape or y.dtype != x.dtype:
            return dict(inp, s=s), f'result shape {y.shape} dtype {y.dtype}', f'shape {x.shape} dtype {x.dtype} preserved'
        if float(s) == int(s):
            r = np.roll(x, int(s))
            if np.max(np.abs(y.astype(float) - r.astype(float))) > tol:
                return dict(inp, s=s), f'fshift(x, {s}) = {y.tolist()}', f'np.roll(x, {int(s)}) = {r.tolist()}'
    # composition (outside the known finding: odd n, or an integer shift, or no Nyquist energy)
    for a in shifts:
        for b in shifts:
            frac = float(a) != int(a) and float(b) != int(b)
            if n % 2 == 0 and frac and abs(_nyquist(x.astype(float))) > 1e-12:
                continue
            lhs = run(run(x, a), b).astype(float)
            rhs = run(x, a + b).astype(float)
            if np.max(np.abs(lhs - rhs)) > 4 * tol:
                return dict(inp, a=a, b=b), f'fshift(fshift(x,{a}),{b}) = {lhs.tolist()}', f'fshift(x,{a + b}) = {rhs.tolist()}'
    # linearity on the impulse basis
    if n <= 24:
        s = shifts[-1]
        basis = run(np.eye(n, dtype=dtype), s, axis=1).astype(float)
        sup = x.astype(float) @ basis
        y = run(x, s).astype(float)
        if np.max(np.abs(sup - y)) > 8 * tol:
            return dict(inp, s=s), f'fshift(x, {s}) = {y.tolist()}', f'superposition of the shifted impulses = {sup.tolist()}'
    return None


def oracle_bandlimited(n, seed, s, dtype):
    from ibldsp.fourier import fshift
    r = np.random.default_rng([seed, n, 4242])
    K = (n - 1) // 2
    c0 = float(r.normal()); a = r.normal(size=K); b = r.normal(size=K)
    if K > 3:
        keep = r.random(K) < 0.6; a = a * keep; b = b * keep

    def p(tau):
        k = np.arange(1, K + 1)[:, None]
        return c0 + np.sum(a[:, None] * np.cos(2 * np.pi * k * tau[None, :] / n) + b[:, None] * np.sin(2 * np.pi * k * tau[None, :] / n), axis=0)
    t = np.arange(n, dtype=float)
    x = p(t).astype(dtype)
    y = fshift(x, s).astype(float)
    e = p(t - s)
    tol = (1e-9 if np.dtype(dtype) == np.float64 else 3e-5) * max(1.0, float(np.max(np.abs(x)))) * max(1, K)
    if np.max(np.abs(y - e)) > tol:
        return ({'x': [float(v) for v in x], 's': s, 'dtype': np.dtype(dtype).name, 'n': n,
                 'note': 'x = samples of a trigonometric polynomial with harmonics below n/2'},
                f'fshift(x, {s}) = {y.tolist()}', f'analytically delayed polynomial p(t - {s}) = {e.tolist()}')
    return None


def oracle_2d(a, b, axis, seed, dtype):
    """each trace receives its own shift along either axis = loop of 1-D scalar shifts"""
    from ibldsp.fourier import fshift
    r = np.random.default_rng([seed, a, b, 31])
    w = r.integers(-5, 6, size=(a, b)).astype(dtype)
    ntr = a if axis in (1, -1) else b
    n = b if axis in (1, -1) else a
    s = np.round(r.uniform(-n, n, size=ntr) * 4) / 4
    w0 = w.copy()
    try:
        y = fshift(w, s.copy(), axis=axis)
    except Exception as e:  # noqa
        return ({'w': w.tolist(), 's': s.tolist(), 'axis': axis, 'dtype': np.dtype(dtype).name},
                f'fshift raised {type(e).__name__}: {e}', 'per-trace shifted array')
    inp = {'w': w0.tolist(), 's': s.tolist(), 'axis': axis, 'dtype': np.dtype(dtype).name}
    if y.shape != w.shape or y.dtype != w.dtype:
        return inp, f'result shape {y.shape} dtype {y.dtype}', f'shape {w.shape} dtype {w.dtype}'
    if not np.array_equal(w, w0):
        return inp, 'input array modified', 'input untouched'
    ref = np.zeros((a, b))
    for i in range(ntr):
        if axis in (1, -1):
            ref[i, :] = fshift(w0[i, :].copy(), float(s[i]))
        else:
            ref[:, i] = fshift(w0[:, i].copy(), float(s[i]))
    if np.max(np.abs(y.astype(float) - ref)) > 4 * _tol(dtype, w0):
        return inp, f'fshift(w, s, axis={axis}) = {y.tolist()}', f'trace-by-trace scalar shifts = {ref.tolist()}'
    # scalar shift on a 2-D array = the same shift on every trace
    y2 = fshift(w0.copy(), 1, axis=axis)
    if np.max(np.abs(y2.astype(float) - np.roll(w0, 1, axis=axis).astype(float))) > 4 * _tol(dtype, w0):
        return dict(inp, s=1), f'fshift(w, 1, axis={axis}) = {y2.tolist()}', f'np.roll(w, 1, axis={axis}) = {np.roll(w0, 1, axis=axis).tolist()}'
    return None


def oracle_pertrace(w, s, axis, dtype):
    """each trace receives ITS OWN shift: result trace i = scalar fshift of trace i by s[i] (= np.roll for an integer s[i]);
    per-trace shifts compose (three times the same vector = once three times the vector) on odd n or Nyquist-free traces"""
    from ibldsp.fourier import fshift
    w = np.asarray(w, dtype=dtype); s = np.asarray(s, dtype=float)
    w0 = w.copy()
    inp = {'w': w0.tolist(), 's': s.tolist(), 'axis': axis, 'dtype': np.dtype(dtype).name}
    try:
        y = fshift(w, s.copy(), axis=axis)
    except Exception as e:  # noqa
        return inp, f'fshift raised {type(e).__name__}: {e}', 'per-trace shifted array'
    if y.shape != w0.shape or y.dtype != w0.dtype:
        return inp, f'result shape {y.shape} dtype {y.dtype}', f'shape {w0.shape} dtype {w0.dtype}'
    if not np.array_equal(w, w0):
        return inp, 'input array modified', 'input untouched'
    rows = axis in (1, -1)
    tol = 4 * _tol(dtype, w0)
    for i in range(len(s)):
        tr = (w0[i, :] if rows else w0[:, i]).copy()
        got = (y[i, :] if rows else y[:, i]).astype(float)
        ref = fshift(tr.copy(), float(s[i])).astype(float)
        if float(s[i]) == int(s[i]):
            ref = np.roll(tr, int(s[i])).astype(float)
        if np.max(np.abs(got - ref)) > tol:
            what = f'np.roll(trace, {int(s[i])})' if float(s[i]) == int(s[i]) else f'fshift(trace, {float(s[i])!r}) (scalar shift)'
            return inp, f'trace {i} of fshift(w, s, axis={axis}) = {got.tolist()}', f'{what} = {ref.tolist()}'
    n = w0.shape[axis]
    nyq = np.abs(np.sum(w0 * np.where(np.arange(n) % 2 == 0, 1.0, -1.0).reshape((1, -1) if rows else (-1, 1)), axis=axis)).max() if n % 2 == 0 else 0.0
    if nyq < 1e-12:
        z = fshift(fshift(fshift(w0.copy(), s.copy(), axis=axis), s.copy(), axis=axis), s.copy(), axis=axis).astype(float)
        z1 = fshift(w0.copy(), 3 * s, axis=axis).astype(float)
        if np.all(3 * s == np.round(3 * s)):
            z1 = np.stack([np.roll(w0[i, :] if rows else w0[:, i], int(round(3 * s[i]))) for i in range(len(s))], axis=0 if rows else 1).astype(float)
        if np.max(np.abs(z - z1)) > 3 * tol:
            return inp, f'three successive per-trace shifts by s = {z.tolist()}', f'one shift by 3*s = {z1.tolist()}'
    return None


def oracle_pmax(x):
    """parabolic_max: exact on samples of a parabola around an interior maximum; edge maxima returned as they are"""
    from ibldsp.utils import parabolic_max
    x = np.asarray(x, dtype=float)
    try:
        ip, mx = parabolic_max(x.copy())
    except Exception as e:  # noqa
        return {'x': x.tolist()}, f'parabolic_max(x) raised {type(e).__name__}: {e}', 'the interpolated position and value of the maximum'
    im = int(np.argmax(x))
    if im == 0 or im == len(x) - 1:
        if float(ip) != im or float(mx) != x[im]:
            return {'x': x.tolist()}, f'parabolic_max = ({float(ip)}, {float(mx)})', f'edge maximum returned as is: ({im}, {x[im]})'
        return None
    vm, v0, vp = x[im - 1], x[im], x[im + 1]
    A = (vm - 2 * v0 + vp) / 2
    if A == 0:
        return None
    B1 = (vp - vm) / 2
    c = im - B1 / (2 * A); top = v0 - B1 * B1 / (4 * A)
    if abs(float(ip) - c) > 1e-9 * (1 + abs(c)) or abs(float(mx) - top) > 1e-9 * (1 + abs(top)):
        return {'x': x.tolist()}, f'parabolic_max = ({float(ip)}, {float(mx)})', f'vertex of the parabola through the three samples: ({c}, {top})'
    return None


def oracle_pmax2d(x):
    """the 2-D branch of parabolic_max treats every row like the 1-D branch"""
    from ibldsp.utils import parabolic_max
    x = np.asarray(x, dtype=float)
    try:
        with np.errstate(all='ignore'):
            ip, mx = parabolic_max(x.copy())
    except Exception as e:  # noqa
        return ({'x': [[None if np.isnan(v) else float(v) for v in r] for r in x]}, f'parabolic_max(x) raised {type(e).__name__}: {e}',
                'one interpolated position and value per row')
    for i, row in enumerate(x):
        im = int(np.argmax(row))
        if im == 0 or im == len(row) - 1:
            exp = (float(im), float(row[im]))
        else:
            vm, v0, vp = row[im - 1], row[im], row[im + 1]
            A = (vm - 2 * v0 + vp) / 2; B1 = (vp - vm) / 2
            if A == 0:
                continue
            exp = (im - B1 / (2 * A), v0 - B1 * B1 / (4 * A))
        if abs(float(ip[i]) - exp[0]) > 1e-9 * (1 + abs(exp[0])) or abs(float(mx[i]) - exp[1]) > 1e-9 * (1 + abs(exp[1])):
            return {'x': x.tolist()}, f'parabolic_max row {i} = ({float(ip[i])}, {float(mx[i])})', f'vertex / edge value of row {i}: {exp}'
    return None


def run_sequence(seq):
    """Executes a concrete sequence of library calls (JSON-able) and checks what C07 says of each: the real-valued data array of
    fshift untouched, shape and dtype preserved, integer shifts = np.roll, and a call whose ORIGINAL argument values equal those
    of an earlier call gives the same result, whatever happened in between (same objects passed again, other calls interleaved).
    Calls with the same 'args_id' receive the SAME Python objects, so an argument modified in place by the library shows up as a
    wrong later result.  Returned arrays are never written to.  Returns None or (index, observed, expected)."""
    import json
    from ibldsp import fourier, utils
    from ibldsp.waveforms import wave_shift_corrmax
    objs, last = {}, {}
    for idx, c in enumerate(seq):
        fn = c['fn']
        FORM_KEYS = ('args_id', 'layout', 'sform', 'call')
        sig = json.dumps({k: v for k, v in c.items() if k not in FORM_KEYS}, sort_keys=True)      # the VALUES of the call
        formsig = json.dumps({k: c.get(k) for k in FORM_KEYS[1:]}, sort_keys=True)
        if fn == 'fshift':
            dt = np.dtype(c['dtype'])
            key = c.get('args_id', f'#{idx}')
            if key not in objs:
                sval = np.array(c['s'], dtype=float) if isinstance(c['s'], list) else c['s']
                sobj = shift_object(sval, c.get('sform')) if (isinstance(sval, np.ndarray) or 'sform' in c) else sval
                objs[key] = (layout_array(np.array(c['w'], dtype=dt), c.get('layout', 'C')), sobj)
            w, sv = objs[key]
            w0 = np.array(c['w'], dtype=dt)
            how = spelled(c.get('call', 'kw'), c['axis']) + ''.join(f', {k}={c[k]}' for k in ('layout', 'sform') if k in c)
            try:
                y = call_fshift(w, sv, c['axis'], c.get('call', 'kw'))
            except Exception as e:  # noqa
                return idx, f'call #{idx} {how} raised {type(e).__name__}: {e}', 'a shifted array'
            if not np.array_equal(w, w0):
                return idx, f'call #{idx}: fshift modified its real-valued input array: now {w.tolist()}', f'input left untouched: {w0.tolist()}'
            if y.shape != w0.shape or y.dtype != w0.dtype:
                return idx, f'call #{idx}: result shape {y.shape} dtype {y.dtype}', f'shape {w0.shape} dtype {w0.dtype}'
            if sig in last:
                j, yj, fj = last[sig]
                same = np.array_equal(y, yj) if fj == formsig else \
                    (y.shape == yj.shape and float(np.max(np.abs(y.astype(float) - yj.astype(float)), initial=0.0)) <= 4 * _tol(dt, w0))
                if not same:
                    return (idx, f'call #{idx} {how} has the same argument values as call #{j} but returns {y.tolist()}',
                            f'the result of call #{j}: {yj.tolist()}')
            svec = np.asarray(sv, dtype=float).ravel()
            if np.all(svec == np.round(svec)):
                ax = c['axis']
                if w0.ndim == 1 or svec.size == 1:
                    ref = np.roll(w0, int(svec[0]), axis=ax)
                else:
                    rows = ax in (1, -1)
                    ref = np.stack([np.roll(w0[i, :] if rows else w0[:, i], int(svec[i])) for i in range(svec.size)], axis=0 if rows else 1)
                if np.max(np.abs(y.astype(float) - ref.astype(float))) > 4 * _tol(dt, w0):
                    return idx, f'call #{idx}: {how} with the integer shift(s) {svec.tolist()} = {y.tolist()}', f'np.roll = {ref.tolist()}'
            last[sig] = (idx, y.copy(), formsig)
        elif fn == 'parabolic_max':
            key = c.get('args_id', f'#{idx}')
            if key not in objs:
                objs[key] = layout_array(np.array(c['x'], dtype=c.get('dtype', 'float64')), c.get('layout', 'C'))
            x = objs[key]
            r = utils.parabolic_max(x=x) if c.get('call') == 'kw' else utils.parabolic_max(x)
            val = (np.asarray(r[0], dtype=float).tolist(), np.asarray(r[1], dtype=float).tolist())
            if sig in last and val != last[sig][1]:
                return idx, f'call #{idx} = {val}', f'same as the identical call #{last[sig][0]}: {last[sig][1]}'
            chk = oracle_pmax(c['x']) if np.ndim(c['x']) == 1 else oracle_pmax2d(c['x'])
            if chk:
                return idx, f'call #{idx}: ' + chk[1], chk[2]
            last[sig] = (idx, val)
        elif fn == 'wave_shift_corrmax':
            key = c.get('args_id', f'#{idx}')
            if key not in objs:
                objs[key] = (np.array(c['spike'], dtype=float), np.array(c['spike2'], dtype=float))
            a, b = objs[key]
            rs, dh = wave_shift_corrmax(a, b)
            val = (float(dh), np.asarray(rs, dtype=float).tolist())
            if sig in last and val != last[sig][1]:
                return idx, f'call #{idx} = {val}', f'same as the identical call #{last[sig][0]}: {last[sig][1]}'
            last[sig] = (idx, val)
        elif fn == 'fscale':            # interleaved library call
            fourier.fscale(c['n'], 1.0)
        else:
            raise ValueError(fn)
    return None


def purity_sequences(w, sv, axis, dtype):
    """call sequences around one fshift call: the same argument objects passed again, other calls interleaved"""
    w = np.asarray(w, dtype=dtype)
    n = w.shape[axis]
    call = {'fn': 'fshift', 'w': w.tolist(), 'dtype': np.dtype(dtype).name, 's': sv.tolist() if isinstance(sv, np.ndarray) else sv,
            'axis': axis, 'args_id': 'A'}
    other = {'fn': 'fshift', 'w': (np.arange(n, dtype=float) + 1).tolist(), 'dtype': np.dtype(dtype).name, 's': 0.5, 'axis': -1}
    other_int = dict(other, s=1)
    seqs = [[dict(call), dict(call)],
            [dict(call), other, {'fn': 'fscale', 'n': n}, dict(call), dict(call, args_id='B')],
            [other_int, dict(other_int, s=2), dict(call), other, dict(call)]]
    return seqs


_FRESH_DETAIL = [None]


def run_sequence_cold(seq):
    """the verdict text of the replay just executed in this (fresh) interpreter: re-running would see warm state, so the first
    verdict is kept"""
    return _LAST_SEQ[0]


_LAST_SEQ = [None]


def _fresh(code_obj):
    """run `replay` on a candidate in a NEW interpreter (state carried between calls must not leak from this process into the
    verdict, and a replay must reproduce from a cold start); True when it fails there"""
    import json, subprocess, sys
    prog = ('import sys, json\n'
            'sys.path[:0] = json.loads(sys.argv[1])\n'
            'import props.c07 as m\n'
            'rep = json.load(sys.stdin)\n'
            'import io, contextlib\n'
            'buf = io.StringIO()\n'
            'with contextlib.redirect_stdout(buf):\n'
            '    r = m.replay(None, rep)\n'
            'print("FAILS" if r else "HOLDS")\n'
            'if "sequence" in rep["input"]:\n'
            '    print("DETAIL " + json.dumps(m.run_sequence_cold(rep["input"]["sequence"])))\n')
    try:
        p = subprocess.run([sys.executable, '-c', prog, json.dumps([q for q in sys.path if q])], input=json.dumps(code_obj, default=str),
                           capture_output=True, text=True, timeout=300)
        if 'FAILS' in p.stdout:
            for line in p.stdout.splitlines():
                if line.startswith('DETAIL '):
                    _FRESH_DETAIL[0] = json.loads(line[7:])
            return True
        return False if 'HOLDS' in p.stdout else None
    except Exception:  # noqa
        return None


def _size(inp):
    if 'sequence' in inp:
        return sum(int(np.size(c.get('w', c.get('x', c.get('spike', 0))))) for c in inp['sequence'])
    for k in ('x', 'w', 'spike'):
        if k in inp:
            return int(np.size(inp[k]))
    return 10 ** 9


def search(ctx, reasons):
    found = []

    def add(r, how):
        if r:
            found.append({'input': r[0], 'observed': r[1], 'expected': 'C07: ' + r[2], 'how': how})

    def guarded(f, *a):
        try:
            return f(*a)
        except Exception as e:  # noqa
            return ({'call': f.__name__, 'args': [str(v)[:200] for v in a]}, f'raised {type(e).__name__}: {e}', 'no exception')

    ops = {m['op'] for m in ctx.mismatches}
    # 1. the cases on which implementation and model disagreed
    for m in ctx.mismatches[:60]:
        c = m['case']
        if c.get('op') == 'fshift1' and c.get('n', 0) >= 2:
            x = make_signal(c['n'], c['sig'], c['seed'])
            s = make_shift(c['n'], c['shift'], c['seed'])
            for dt in (np.float64, np.float32):
                add(guarded(oracle_1d, x, [s, 1, 0.5], dt), 'harness/props/c07.py oracle_1d(x, shifts, dtype) on the disagreeing case')
        elif c.get('op') == 'fshift2' and c.get('n', 2) >= 2:      # an axis shorter than 2 samples is outside the property
            for dt in (np.float64, np.float32):
                add(guarded(oracle_2d, c['nrow'], c['ncol'], c['axis'], c['seed'], dt), 'harness/props/c07.py oracle_2d on the disagreeing case')
            if c.get('mode') in ('pertrace', 'pertrace_int', 'adc', 'repeat', 'allequal') and c['n'] >= 2 and c['nrow'] * c['ncol'] <= 600:
                w, sv, _ = _build_2d(c)
                for dt in (np.float64, np.float32):
                    add(guarded(oracle_pertrace, w, sv, c['axis'], dt), 'harness/props/c07.py oracle_pertrace(w, s, axis, dtype) on the disagreeing case')
        elif c.get('op') == 'fshift_long':
            add(guarded(oracle_long, c), 'harness/props/c07.py oracle_long(input) (input = generator parameters of build_long)')
        elif c.get('op') == 'pmax':
            add(guarded(oracle_pmax, c['x']), 'harness/props/c07.py oracle_pmax(x)')
            if c.get('form') and c['form'] != ['float64', 'C', 'pos']:
                sq = [{'fn': 'parabolic_max', 'x': c['x'], 'dtype': c['form'][0], 'layout': c['form'][1], 'call': c['form'][2]}]
                r = guarded(run_sequence, sq)
                if r:
                    found.append({'input': {'sequence': sq}, 'observed': str(r[1]), 'expected': 'C07: ' + str(r[2]),
                                  'how': 'harness/props/c07.py run_sequence(input["sequence"]) (dtype / layout / call give the form of x)'})
        elif c.get('op') == 'pmax2d':
            add(guarded(oracle_pmax2d, c['x']), 'harness/props/c07.py oracle_pmax2d(x)')
        elif c.get('op') == 'pmax2':
            add(guarded(oracle_pmax2d, [[np.nan if v is None else v for v in r] for r in c['x']]), 'harness/props/c07.py oracle_pmax2d(x)')
        elif c.get('op') == 'fshiftnd':
            add(guarded(oracle_nd, c), 'harness/props/c07.py oracle_nd(input) (shape / axis / mode / sshape / seed are the generator parameters of build_nd; w, s = its arrays)')
        elif c.get('op') == 'fshift_freq':
            add(guarded(oracle_freq, c), 'harness/props/c07.py oracle_freq(input)')
        elif c.get('op') in ('corrmax', 'corrmax_int') and 'delay' in c:
            add(guarded(oracle_corrmax_int, c['spike'], c['delay']), 'harness/props/c07.py oracle_corrmax_int(input["spike"], input["delay"])')
        elif c.get('op') == 'delay':
            r = guarded(lambda: delay_case(c['n'], c['wavelet'], c['width'], c['centre'], c['shift'], np.dtype(c['dtype']).type)[0])
            if r:
                found.append({'input': c, 'observed': r if isinstance(r, str) else r[1], 'how': 'harness/props/c07.py delay_case(**input)',
                              'expected': f'C07: wave_shift_corrmax(w, fshift(w, d)) returns d within {DELAY_TOL} sample and re-aligns the copy'})
        elif c.get('op') == 'cluster':
            r = guarded(lambda: cluster_case(c)[0])
            if r:
                found.append({'input': c, 'observed': r if isinstance(r, str) else r[1], 'how': 'harness/props/c07.py cluster_case(input)',
                              'expected': 'C07: shift_waveform re-aligns shifted copies of a template'})
        if found and _size(found[-1]['input']) <= 8:
            break
    # 2. systematic sweep from the smallest inputs upwards
    if not found or min(_size(f['input']) for f in found) > 6:
        for n in list(range(2, 17)) + [31, 32, 64]:
            for dt in (np.float64, np.float32):
                sigs = [np.eye(n)[0], np.eye(n)[n - 1], np.arange(1, n + 1, dtype=float), np.where(np.arange(n) % 2 == 0, 1.0, -1.0)]
                for x in sigs:
                    add(guarded(oracle_1d, x, [1, -1, n - 1, 0, n + 1, 0.5, -1.25, 2.0], dt), 'harness/props/c07.py oracle_1d(x, [1,-1,n-1,0,n+1,0.5,-1.25,2.0], dtype)')
                for s in (0.5, -0.3, 1.0, 2.75):
                    add(guarded(oracle_bandlimited, n, 1, s, dt), 'harness/props/c07.py oracle_bandlimited(n, seed, s, dtype)')
                if found:
                    break
            if found:
                break
    if 'fshift2' in ops or not found:
        hit = False
        for (a, b) in [(2, 2), (2, 3), (3, 2), (3, 4), (4, 3), (2, 5), (5, 2), (3, 8)]:
            for axis in (0, 1, -1, -2):
                for dt in (np.float64, np.float32):
                    res = guarded(oracle_2d, a, b, axis, 3, dt)
                    if res:
                        add(res, 'harness/props/c07.py oracle_2d(nrow, ncol, axis, seed, dtype)'); hit = True
            if hit:
                break
        # repeated (non-distinct) per-trace shifts, smallest arrays first
        hit = False
        third = 1.0 / 3.0
        for n in (3, 2, 5, 4, 7):
            for ntr in (2, 3):
                for svals in ([third] * ntr, [5 / 13] * ntr, [third, third, -2 / 3][:ntr], [0.0005] * ntr, [1.0] * ntr):
                    for axis in (1, 0):
                        tr = np.arange(1, n + 1, dtype=float) if n % 2 else np.array([1.0, 1.0] * (n // 2)) * np.arange(1, n + 1)
                        if n % 2 == 0:
                            tr = np.repeat(np.arange(1, n // 2 + 1, dtype=float), 2)      # Nyquist-free
                        w = np.stack([tr * (k + 1) for k in range(ntr)])
                        w = w if axis == 1 else w.T.copy()
                        for dt in (np.float64, np.float32):
                            res = guarded(oracle_pertrace, w, svals, axis, dt)
                            if res:
                                add(res, 'harness/props/c07.py oracle_pertrace(w, s, axis, dtype)'); hit = True
                    if hit:
                        break
                if hit:
                    break
            if hit:
                break
    if 'fshiftnd' in ops or not found:
        hit = False
        for shape in ([2, 2, 2], [2, 3, 2], [3, 2, 2], [2, 2, 3], [1, 3, 2], [2, 3, 1], [2, 2, 2, 2]):
            for axis in list(range(len(shape))) + [-1, -2, -len(shape)]:
                for mode in ('pertrace_int', 'pertrace', 'scalar'):
                    for sshape in ND_SSHAPES:
                        if shape[axis] < 2 or hit:
                            continue
                        res = guarded(oracle_nd, {'op': 'fshiftnd', 'shape': shape, 'axis': axis, 'mode': mode, 'sshape': sshape, 'seed': 3,
                                                  'layout': 'C', 'call': 'kw'})
                        if res:
                            add(res, 'harness/props/c07.py oracle_nd(input)'); hit = True
    if 'fshift_freq' in ops or not found:
        hit = False
        for n in range(2, 10):
            for sk in ('int', 'frac', 'half'):
                res = None if hit else guarded(oracle_freq, {'op': 'fshift_freq', 'n': n, 'ns': n, 'shift': sk, 'sig': 'ramp', 'seed': 1, 'cdtype': 'complex128', 'call': 'kw'})
                if res:
                    add(res, 'harness/props/c07.py oracle_freq(input)'); hit = True
    if 'corrmax' in ops or 'corrmax_int' in ops or 'corr' in ops or 'pmax' in ops or 'pmax2' in ops or not found:
        hit = False
        for n in range(5, 14):
            for sd in range(6):
                x, m_ = compact_wavelet(n, sd)
                res = None if hit else guarded(oracle_corrmax_int, x, m_)
                if res:
                    add(res, 'harness/props/c07.py oracle_corrmax_int(input["spike"], input["delay"])'); hit = True
    if 'pmax' in ops or 'pmax2' in ops or 'pmax2d' in ops or 'delay' in ops or 'cluster' in ops or not found:
        r = np.random.default_rng(5)
        hit = False
        for n in range(1, 9):
            for _ in range(60):
                res = guarded(oracle_pmax, r.integers(-9, 10, size=n).astype(float))
                if res:
                    add(res, 'harness/props/c07.py oracle_pmax(x)'); hit = True
                    break
            if hit:
                break
        hit = False
        for n in range(1, 6):
            for rows in ([list(range(n))], [list(range(n))[::-1]], [list(range(n)), [0] * n], [[1, 3, 2, 0, 1][:n], list(range(n))]):
                res = None if hit else guarded(oracle_pmax2d, np.array(rows, dtype=float))
                if res:
                    add(res, 'harness/props/c07.py oracle_pmax2d(x)'); hit = True
    if 'delay' in ops or 'cluster' in ops or not found:
        for case in _delay_cases(np.random.default_rng(11), 200):
            r = guarded(lambda: delay_case(*case[:5], np.dtype(case[5]).type)[0])
            if r:
                found.append({'input': dict(zip(('n', 'wavelet', 'width', 'centre', 'shift', 'dtype'), case)),
                              'observed': r if isinstance(r, str) else r[1], 'how': 'harness/props/c07.py delay_case(**input)',
                              'expected': f'C07: wave_shift_corrmax(w, fshift(w, d)) returns d within {DELAY_TOL} sample and re-aligns the copy'})
                break
        for seed in range(30):
            r = guarded(lambda: cluster_case(cluster_params(seed))[0])
            if r:
                found.append({'input': cluster_params(seed), 'observed': r if isinstance(r, str) else r[1],
                              'how': 'harness/props/c07.py cluster_case(input)', 'expected': 'C07: shift_waveform re-aligns shifted copies of a template'})
                break
    # input forms: the same call in another legitimate representation (layout, spelling of the shift, positional arguments in the
    # order of the unchanged signature) must give the same values
    form_seqs = []
    for m in ctx.mismatches[:120]:
        c = m['case']
        if len(form_seqs) >= 6:
            break
        if c.get('layout') is None or c.get('n', 0) < 2:
            continue
        if c.get('op') == 'fshift1' and c['n'] <= 16 and not c['stype'].startswith('array'):
            x, s_py, _ = _build_1d(c)
            sv = float(np.asarray(s_py, dtype=float))
            base = {'fn': 'fshift', 'w': x.tolist(), 'dtype': 'float64', 's': sv, 'axis': c['axis']}
            form_seqs.append([dict(base), dict(base, layout=c['layout'], call=c['call'], sform=c.get('stype_used', 'float'))])
        elif c.get('op') == 'fshift2' and c['nrow'] * c['ncol'] <= 40 and c.get('mode') != 'wrongsize':
            w, sv, _ = _build_2d(c)
            base = {'fn': 'fshift', 'w': w.tolist(), 'dtype': 'float64', 's': sv.tolist() if isinstance(sv, np.ndarray) else sv, 'axis': c['axis']}
            form_seqs.append([dict(base), dict(base, layout=c['layout'], call=c['call'], sform=c.get('sform_used', 'f64'))])
    w23 = [[1.0, 2.0, 4.0], [3.0, 5.0, 9.0]]
    for call in CALLS:
        for axis, sv in ((0, 1), (1, 1), (0, [1.0, 0.0, 1.0]), (1, [1.0, 2.0]), (-1, 0.5), (0, 0.5)):
            base = {'fn': 'fshift', 'w': w23, 'dtype': 'float64', 's': sv, 'axis': axis}
            form_seqs.append([dict(base), dict(base, call=call)])
        form_seqs.append([{'fn': 'fshift', 'w': [1.0, 2.0, 4.0], 'dtype': 'float64', 's': 1, 'axis': 0, 'call': call}])
    for layout in LAYOUTS_2D[1:]:
        for axis, sv in ((0, [0.5, 1.0, 0.25]), (1, [0.5, 1.0])):
            base = {'fn': 'fshift', 'w': w23, 'dtype': 'float64', 's': sv, 'axis': axis}
            form_seqs.append([dict(base), dict(base, layout=layout)])
    for sform in VECTOR_FORMS[1:]:
        sv = [1.0, 2.0] if sform.startswith('int') else [0.5, 1.25]
        base = {'fn': 'fshift', 'w': w23, 'dtype': 'float64', 's': sv, 'axis': 1}
        form_seqs.append([dict(base), dict(base, sform=sform)])
    for sform in SCALAR_FORMS[1:6]:
        sv = 0.5 if 'float' in sform else 1
        base = {'fn': 'fshift', 'w': w23, 'dtype': 'float64', 's': sv, 'axis': 1}
        form_seqs.append([dict(base), dict(base, sform=sform)])
    nform = 0
    for sq in sorted(form_seqs, key=lambda q: _size({'sequence': q})):
        if nform >= 3:
            break
        try:
            r = run_sequence(sq)
        except Exception as e:  # noqa
            r = (0, f'raised {type(e).__name__}: {e}', 'no exception')
        if r:
            if r[0] == 0 and len(sq) > 1:
                sq = sq[:1]
            found.append({'input': {'sequence': sq}, 'observed': r[1], 'expected': 'C07: ' + r[2],
                          'how': 'harness/props/c07.py run_sequence(input["sequence"]); keys layout / sform / call give the concrete form of '
                                 'the arguments and the spelling of the call (positional order pinned to fshift(w, s, axis, ns))'})
            nform += 1
    # state carried between calls: concrete call sequences (same objects repeated, results overwritten, calls interleaved),
    # each tried in a fresh interpreter
    seq_inputs = []
    for m in ctx.mismatches[:200]:
        c = m['case']
        if len(seq_inputs) >= 4:
            break
        if c.get('op') == 'fshift1' and 2 <= c.get('n', 0) <= 32:
            x, s_py, _ = _build_1d(c)
            if not isinstance(s_py, np.ndarray):
                seq_inputs.append((x, float(s_py), -1))
        elif c.get('op') == 'fshift2' and c.get('n', 0) >= 2 and c['nrow'] * c['ncol'] <= 60 and c.get('mode') != 'wrongsize':
            w, sv, _ = _build_2d(c)
            seq_inputs.append((w, sv, c['axis']))
    seq_inputs += [(np.array([1.0, 2.0, 3.0]), 0.5, -1), (np.array([[1.0, 2.0, 3.0], [2.0, 4.0, 6.0]]), np.array([1 / 3, 1 / 3]), 1),
                   (np.array([1.0, 2.0, 3.0, 5.0]), 1, -1)]
    seqs = []
    for (w, sv, ax) in seq_inputs:
        seqs += purity_sequences(w, sv, ax, np.float64)
    px = [1.0, 3.0, 2.0, 0.0]
    seqs.append([{'fn': 'parabolic_max', 'x': px, 'args_id': 'A'}, {'fn': 'parabolic_max', 'x': px, 'args_id': 'A'},
                 {'fn': 'parabolic_max', 'x': [px, px[::-1]], 'args_id': 'B'}, {'fn': 'parabolic_max', 'x': px}])
    wv = [round(float(v), 6) for v in ricker(32, 2.5, 15.3)]
    wv2 = [round(float(v), 6) for v in ricker(32, 2.5, 17.0)]
    cm = {'fn': 'wave_shift_corrmax', 'spike': wv, 'spike2': wv2, 'args_id': 'A'}
    seqs.append([cm, {'fn': 'fshift', 'w': wv, 'dtype': 'float64', 's': 0.25, 'axis': -1}, cm, dict(cm, args_id='B')])
    nseq = 0
    for sq in sorted(seqs, key=lambda q: _size({'sequence': q})):
        if nseq >= 2:
            break
        item = {'input': {'sequence': sq}}
        _FRESH_DETAIL[0] = None
        if _fresh(item):
            r = _FRESH_DETAIL[0]              # the verdict text comes from the fresh interpreter (this process may carry state)
            found.append({'input': {'sequence': sq}, 'observed': r[1] if r else 'fails when executed from a cold start (see how)',
                          'expected': 'C07: ' + (r[2] if r else 'equal arguments give equal results; arguments untouched'),
                          'how': 'fresh interpreter: harness/props/c07.py run_sequence(input["sequence"]) — calls with the same args_id get the same objects',
                          'confirmed_fresh': True})
            nseq += 1
    if not found:
        return None
    # a replay must reproduce from a cold start: confirm the candidates in a fresh interpreter, smallest first
    ranked = sorted(found, key=lambda f: (_size(f['input']), len(str(f['input']))))
    budget = 8
    for f in ranked:
        if f.get('confirmed_fresh'):
            ok = True
        elif budget > 0:
            budget -= 1
            ok = _fresh(f)
        else:
            continue
        if ok or ok is None:
            f.pop('confirmed_fresh', None)
            return f
    return None


def replay(ctx, rep):
    i = rep['input']
    try:
        if 'sequence' in i:
            r = run_sequence(i['sequence'])
            _LAST_SEQ[0] = list(r) if r else None
            print('call sequence:', r); return r is not None
        if i.get('op') == 'fshift_long':
            r = oracle_long(i)
            print('oracle_long:', r[1:] if r else None); return r is not None
        if i.get('op') == 'fshiftnd':
            r = oracle_nd({k: v for k, v in i.items() if k not in ('w', 's', 'dtype')})
            print('oracle_nd:', r[1:] if r else None); return r is not None
        if i.get('op') == 'fshift_freq':
            r = oracle_freq({k: v for k, v in i.items() if k not in ('x', 's')})
            print('oracle_freq:', r[1:] if r else None); return r is not None
        if i.get('op') == 'corrmax':
            r = oracle_corrmax_int(i['spike'], i['delay'])
            print('oracle_corrmax_int:', r[1:] if r else None); return r is not None
        if 'w' in i:
            from ibldsp.fourier import fshift
            w = np.array(i['w'], dtype=i['dtype']); s = np.array(i['s'], dtype=float) if isinstance(i['s'], list) else i['s']
            axis = i['axis']
            y = fshift(w.copy(), s.copy() if isinstance(s, np.ndarray) else s, axis=axis)
            if isinstance(s, np.ndarray):
                ref = np.zeros(w.shape)
                for k in range(len(s)):
                    if axis in (1, -1):
                        ref[k, :] = fshift(w[k, :].copy(), float(s[k]))
                    else:
                        ref[:, k] = fshift(w[:, k].copy(), float(s[k]))
            else:
                ref = np.roll(w, int(s), axis=axis)
            bad = y.shape != w.shape or y.dtype != w.dtype or np.max(np.abs(y.astype(float) - ref)) > 4 * _tol(w.dtype, w)
            print('oracle_2d replay:', 'fails' if bad else 'holds'); return bool(bad)
        if 'wavelet' in i:
            r = delay_case(i['n'], i['wavelet'], i['width'], i['centre'], i['shift'], np.dtype(i['dtype']).type)[0]
            print('delay oracle:', r); return r is not None
        if i.get('op') == 'cluster':
            r = cluster_case(i)[0]
            print('cluster oracle:', r); return r is not None
        if 'x' in i and 'dtype' in i:
            x = np.array(i['x'], dtype=i['dtype'])
            if 'note' in i:    # band-limited case: re-derive from the stored samples is not possible; re-run the generator
                r = oracle_bandlimited(i['n'], 1, i['s'], x.dtype)
            else:
                shifts = [i[k] for k in ('s', 'a', 'b') if k in i]
                r = oracle_1d(x, shifts, x.dtype)
            print('oracle:', r[1:] if r else None); return r is not None
        if 'x' in i:
            xx = [[np.nan if v is None else v for v in r] for r in i['x']] if np.ndim(i['x']) == 2 else i['x']
            r = oracle_pmax2d(xx) if np.ndim(i['x']) == 2 else oracle_pmax(xx)
            print('oracle_pmax:', r[1:] if r else None); return r is not None
    except Exception as e:  # noqa
        print('replay raised', type(e).__name__, e)
        return True
    return False


# ---------------------------------------------------------------------------------------------
def known_findings(ctx):
    def demo():
        """F13: even n, Nyquist energy, both shifts fractional: two half-sample shifts of [1, 0] give [0.5, 0.5], one whole-sample
        shift gives [0, 1]; the difference is X_{n/2} sin(pi a) sin(pi b) (-1)^t / n = 1/2 (theorem fshift_add_defect)."""
        from ibldsp.fourier import fshift
        x = np.array([1.0, 0.0])
        lhs = fshift(fshift(x, 0.5), 0.5)
        rhs = fshift(x, 1.0)
        pred = 1.0 * math.sin(math.pi * 0.5) ** 2 / 2
        ctx.known_hits[KNOWN_KEY] += 1
        return bool(abs((lhs[0] - rhs[0]) - pred) < 1e-12 and abs(lhs[0] - rhs[0]) > 0.4)
    def demo_readonly():
        """shift_waveform -> get_array_peak -> _validate_arr_in does `arr_in[np.isnan(arr_in)] = 0` on a swapaxes VIEW of the caller's
        cluster: a read-only cluster (e.g. np.load(..., mmap_mode='r')) raises ValueError, and NaN samples of a writable cluster are
        overwritten with 0 in the caller's array."""
        from ibldsp.fourier import fshift
        from ibldsp.waveforms import shift_waveform
        base = -ricker(96, 3.0, 48.0)
        tmpl = np.array([0.5, 1.0, 0.3])[:, None] * base[None, :]
        wf = np.stack([fshift(tmpl, d, axis=-1) for d in (-1.0, 0.0, 1.0)])
        ro = wf.copy(); ro.setflags(write=False)
        try:
            shift_waveform(ro)
            raised = False
        except ValueError as e:
            raised = 'read-only' in str(e)
        wn = wf.copy(); wn[0, 2, 5] = np.nan
        try:
            shift_waveform(wn)
        except Exception:  # noqa
            pass
        return bool(raised and not np.isnan(wn[0, 2, 5]))

    def demo_int():
        """integer-dtype data (outside the property's float32/float64 quantifier): the result is cast back with astype, which
        truncates 0.9999999 to 0: an integer shift of int16 data is not the roll"""
        from ibldsp.fourier import fshift
        x = np.array([3, 1, 4, 1, 5, 9, 2, 6], dtype=np.int16)
        return not np.array_equal(fshift(x, 3), np.roll(x, 3))
    return {KNOWN_KEY: demo, 'shift_waveform_readonly_cluster': demo_readonly, 'integer_dtype_truncation': demo_int}
