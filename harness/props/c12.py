"""C12 — LFP extraction equals low-pass plus decimation, independent of windowing (neuropixel.NP2Converter, LF path)."""
import contextlib
import hashlib
import logging
import os
import re
import shutil
import tempfile
from fractions import Fraction
from pathlib import Path

import numpy as np

ID = 'C12'
DRIVER = 'C12'
LEAN_TARGETS = ['IblVerif.Properties.C12']
THEOREMS = [
    'IblVerif.C12.lf_count',
    'IblVerif.C12.lf_index_map',
    'IblVerif.C12.lf_sync',
    'IblVerif.C12.lf_window_independent',
    'IblVerif.C12.lf_values_of_local',
    'IblVerif.C12.lf_short_recording_error',
    'IblVerif.C12.lf_meta',
    'IblVerif.C12.lf_files',
    'IblVerif.C12.lf_file_opens',
]
RULE = ('scratch NP2.1 / NP2.4 recordings (385 channels, fixture meta data with rewritten size/duration, sample rate 30000 or the '
        "fixture's 29999.757983; NP2.4: the 384 channels assigned to 1..4 shanks in arbitrary consecutive blocks - 4x96 fixture, 144/48/96/96, "
        '300/84, 383/1, one shank, unused shanks, random cuts - by rewriting snsShankMap / imroTbl, ~3/4 of the NP2.4 cases) x processing window nwindow = 12k > 576 (biased to the minimum 588, 600, 2*576, 1200, 2400, 9000; '
        'default 60000 once) x length ns placed on the boundaries of the window grid (ns = w + j*stride + d, |d| <= 13, single-window '
        'lengths, ns = taper .. , every ns mod 12 class) and below one taper (error branch); optionally nsamples < file length. '
        'Structural cases compare, for EVERY shank file, LF row count, sync column, channel list, LF meta data (acqApLfSy, snsApLfSy, nSavedChans, '
        'fileSizeBytes, imSampRate, snsSaveChanSubset and _orig, shank number) and the shape spikeglx.Reader opens the file with against '
        'the Lean model; the FORM of the call is drawn independently of the values for ~55 % of the cases (str / Path, .bin / .cbin original, positional / keyword '
        'arguments, int / float / numpy-typed nwindow and nsamples; sync words restricted to 0x8000, 0x7fff, 0xffff, 0, 1; AP values over the full int16 range); '
        'about a third of the cases (and of the numeric ones) make the examined extraction the 2nd/3rd one of the SAME converter object '
        '(other window sizes before, overwrite=True) and demand the same answers from the history-free model plus byte identity with a fresh object; '
        'and (scipy.signal.sosfiltfilt replaced by the identity) the voltage columns against AP[12 m] picked through '
        "the model's index map. Numeric cases (broadband content: white / gaussian / coloured noise, spikes, steps; amplitude within the "
        'NP2 ADC range +-8191) run two window sizes and compare LF values pairwise (<= 1 LSB) and with whole-trace sosfiltfilt + [::12] '
        '(<= 1 LSB, 30 LF samples away from both ends). A case is non-trivial when it has >= 2 windows or ns is not a multiple of 12.')
ASSUMPTIONS = [
    'window sizes <= samples_overlap (576) are outside the property: WindowGenerator does not advance there; never generated (model: err diverges)',
    'recordings shorter than samples_taper (144 samples, 4.8 ms) make extract_lfp raise ValueError (taper broadcast); the model has the same '
    'error branch (theorem lf_short_recording_error), the oracle treats such lengths as outside the domain of the property',
    'AP content: any int16 values whose zero-phase low-pass stays inside int16 (always true within the NP2 ADC range |x| <= 8192: overshoot <= 7 %); where the '
    'filtered whole trace itself exceeds +-32766 (e.g. a full-swing +-32767 square wave: +-34955) the unchanged code wraps modulo 2^16 in astype(int16) - '
    'those samples are outside the oracle\'s domain (known_findings demo lf-overshoot-beyond-int16-wraps), contents generated stay inside',
    'input forms: ap_file as str or Path, original .bin or mtscomp .cbin/.ch, constructor / init_params / process arguments positional (current signature order) '
    'or by keyword, nwindow / nsamples as int, float, numpy int64/int32/uint16/uint32/float64 - all must give the answer of the mathematical value; '
    'the model has no notion of form',
    'one sync channel (snsApLfSy[2] = 1) and, for NP2.1, every saved channel kept (nSavedChans = channels written): hypotheses of lf_meta / lf_file_opens',
    'the reference for "zero-phase low-pass of the whole trace" uses the converter\'s own sos_lp (any low-pass with |H(0)| = 1, |H(Nyquist)| < 1e-3 is accepted), '
    'the property does not fix the cut-off',
    'Reader.open reconciles the declared duration (copied from the AP meta data) with the file size; openShape in the model is rows = bytes // (2 nSavedChans) (C11)',
]
TRUSTED = [
    'scipy.signal.butter / sosfiltfilt and the cosine taper are parameters of the model (G in lf_values_of_local); that their output at >= 288 samples '
    'from an interior window edge is within 1 LSB of whole-trace filtering is NOT proved, only checked numerically each run',
    'unittest.mock patch of scipy.signal.sosfiltfilt by the identity (used only for the exact voltage-column index check)',
]
LEVEL_TEXT = ('Lean 4 theorems for every recording length ns >= 144 and every window 12k > 576, with the constants extracted from init_params: '
              'row count = ceil(ns/12); the m-th LF sample is taken at AP sample 12m inside a generator window, > 288 samples from each interior '
              'window edge (window independence of the index map); sync column = every 12th AP sync word; LF meta data declares 2500 Hz, type lf, '
              'channel counts = columns written, size = bytes written, so the file maps as ceil(ns/12) x len(chns); conditional theorem: if the '
              'per-window filter is R-close to the whole-trace filter away from interior edges, every LF value is R-close to the filtered trace at 12m. '
              'Model tied to NP2Converter by exact differential runs on real scratch recordings (NP2.1 and NP2.4).')
LEVEL_NOTE = ('partial: the numeric half of the property (LF values independent of the window to 1 LSB; equal to whole-trace sosfiltfilt + [::12] '
              'to 1 LSB beyond 30 LF samples from the file ends) is an oracle run on broadband content every run, not a theorem — the decay of the '
              'Butterworth transients below 1 LSB within 288 samples is not proved. Trusted: Lean kernel, the Python harness, SciPy filters, '
              'Reader.open frame counting (C11), int16 round trip through volts (C03).')
TECHNIQUE = ('Lean 4 proof by functional induction over the WindowGenerator loop (omega, List.range\' algebra) reusing the C17 window lemmas; '
             'exact correspondence run on real files incl. identity-filter index check; calibrated numeric oracle for the filter part (partial)')

NCH = 385
AMP = 8191
MARGIN_LF = 30


# ---------------------------------------------------------------------------------------------
# scratch recordings and the real converter
# ---------------------------------------------------------------------------------------------
def _src():
    return Path(os.environ.get('IBL_REPO', '/repo')) / 'src'


def _fixture_meta(version):
    d = 'NP24_meta' if version == 'NP2.4' else 'NP21_meta'
    return (_src() / 'tests' / 'fixtures' / 'np2split' / d / '_spikeglx_ephysData_g0_t0.imec0.ap.meta').read_text()


def _expand_layout(layout):
    """layout = [[shank, count], ...] (consecutive blocks of the 384 channels) -> list of 384 shank numbers."""
    sm = [int(s) for s, c in layout for _ in range(int(c))]
    assert len(sm) == NCH - 1, f'layout covers {len(sm)} channels'
    return sm


def _meta_text(version, layout=None):
    """Fixture meta data; for an NP2.4 `layout` the shank of every channel is rewritten in snsShankMap and imroTbl."""
    txt = _fixture_meta(version)
    if layout is None:
        return txt
    sm = _expand_layout(layout)

    def relabel(m, sep, ish):
        ent = re.findall(r'\(([^()]*)\)', m.group(2))
        head, ent = ent[0], ent[1:]
        assert len(ent) == len(sm)
        out = []
        for e, sh in zip(ent, sm):
            f = e.split(sep)
            f[ish] = str(sh)
            out.append(sep.join(f))
        return m.group(1) + f'({head})' + ''.join(f'({e})' for e in out)
    txt = re.sub(r'(?m)^(~?snsShankMap=)(.*)$', lambda m: relabel(m, ':', 0), txt)
    txt = re.sub(r'(?m)^(~?imroTbl=)(.*)$', lambda m: relabel(m, ' ', 1), txt)
    return txt


_META_CACHE = {}


def _ap_meta_info(version, layout=None):
    """Own parse of the scratch meta data (independent of spikeglx): triples, nSavedChans, shank map, subset."""
    key = (version, repr(layout))
    if key not in _META_CACHE:
        txt = _meta_text(version, layout)
        kv = dict(l.split('=', 1) for l in txt.splitlines() if '=' in l)
        sm = [int(x.split(':')[0]) for x in re.findall(r'\((\d+:\d+:\d+:\d+)\)', kv.get('~snsShankMap') or kv['snsShankMap'])]
        _META_CACHE[key] = {
            'acq': [int(x) for x in kv['acqApLfSy'].split(',')], 'sns': [int(x) for x in kv['snsApLfSy'].split(',')],
            'nsaved': int(kv['nSavedChans']), 'shank_map': sm, 'subset': kv['snsSaveChanSubset'], 'rate': float(kv['imSampRate'])}
    return _META_CACHE[key]


def _parse_subset(txt):
    """'0:47,96:143,384' -> [0..47, 96..143, 384]"""
    out = []
    for part in str(txt).split(','):
        if ':' in part:
            a, b = part.split(':')
            out += list(range(int(a), int(b) + 1))
        elif part != '':
            out.append(int(part))
    return out


def _make_recording(tmp, version, D, rate, layout=None):
    ns, nc = D.shape
    d = Path(tmp) / 'probe00'
    d.mkdir(parents=True)
    fs = float(rate) if rate else _ap_meta_info(version)['rate']
    out = []
    for line in _meta_text(version, layout).splitlines():
        if line.startswith('fileSizeBytes='):
            line = f'fileSizeBytes={ns * nc * 2}'
        elif line.startswith('imSampRate='):
            line = 'imSampRate=' + (str(int(fs)) if float(fs).is_integer() else repr(fs))
        elif line.startswith('fileTimeSecs='):
            line = 'fileTimeSecs=' + np.format_float_positional(ns / fs, unique=True, trim='0')
        out.append(line)
    (d / '_spikeglx_ephysData_g0_t0.imec0.ap.meta').write_text('\n'.join(out) + '\n')
    binf = d / '_spikeglx_ephysData_g0_t0.imec0.ap.bin'
    np.ascontiguousarray(D, dtype=np.int16).tofile(binf)
    return binf


@contextlib.contextmanager
def _quiet():
    import io
    prev = logging.root.manager.disable
    logging.disable(logging.CRITICAL)
    try:
        with contextlib.redirect_stderr(io.StringIO()):      # mtscomp progress bars
            yield
    finally:
        logging.disable(prev)


@contextlib.contextmanager
def _identity_filter(on):
    if not on:
        yield
        return
    import scipy.signal
    orig = scipy.signal.sosfiltfilt
    scipy.signal.sosfiltfilt = lambda sos, x, *a, **k: x
    try:
        yield
    finally:
        scipy.signal.sosfiltfilt = orig


NUM_FORMS = ('int', 'float', 'np.int64', 'np.int32', 'np.uint16', 'np.uint32', 'np.float64')
DEFAULT_FORM = {'path': 'Path', 'source': 'bin', 'ctor': 'kw', 'init': 'kw', 'nwindow': 'int', 'nsamples': 'int', 'process': 'kw', 'post_check': False}


def _num(x, form):
    """The integer x in one of its legitimate representations (None stays None)."""
    if x is None or form == 'int':
        return x
    if form == 'float':
        return float(x)
    ty = getattr(np, form.split('.')[1])
    if form.startswith('np.uint') and x > np.iinfo(ty).max:
        return np.int64(x)
    return ty(x)


def _convert(version, D, nwindow, nsamples=None, rate=None, identity=False, layout=None, prior=None, form=None):
    """Run the real NP2Converter on a scratch copy of D.  Returns {'err': str} or {'files': [...], 'sos': sos, 'ns_read': int}.
    `prior` = window sizes of earlier extractions made with the SAME converter object before the one that is returned:
    conv.init_params(nwindow=prior[k], extra=...); conv.process(overwrite=k>0) ...; conv.init_params(nwindow=nwindow); conv.process(overwrite=True)."""
    import spikeglx
    from neuropixel import NP2Converter
    fm = dict(DEFAULT_FORM, **(form or {}))
    tmp = tempfile.mkdtemp(prefix='c12_')
    conv = None

    def init(w, extra):
        wv, nv = _num(w, fm['nwindow']), _num(nsamples, fm['nsamples'])
        if fm['init'] == 'pos':     # init_params(self, nsamples=None, nwindow=None, extra=None, nshank=None)
            conv.init_params(nv, wv, extra)
        else:
            conv.init_params(nsamples=nv, nwindow=wv, extra=extra)

    def process(ow):
        if fm['process'] == 'pos':  # process(self, overwrite=False)
            return conv.process(ow)
        return conv.process(overwrite=ow) if ow else conv.process()
    try:
        with _quiet(), _identity_filter(identity):
            binf = _make_recording(tmp, version, D, rate, layout)
            if fm['source'] == 'cbin':      # the original is an mtscomp-compressed file (.cbin + .ch), the flat binary is gone
                sr0 = spikeglx.Reader(binf, sort=False)
                cbin = sr0.compress_file(keep_original=False)
                sr0.close()
                binf = Path(cbin)
            apf = str(binf) if fm['path'] == 'str' else Path(binf)
            pc = bool(fm['post_check'])      # a value, not a form: makes the three options distinguishable (True, False, False)
            if fm['ctor'] == 'pos':         # __init__(self, ap_file, post_check=True, delete_original=False, compress=True)
                conv = NP2Converter(apf, pc, False, False)
            else:
                conv = NP2Converter(apf, post_check=pc, delete_original=False, compress=False)
            ns_read = int(conv.sr.ns)
            for k, pw in enumerate(prior or []):
                try:
                    init(pw, f'_c12p{k}')
                    process(k > 0)
                except Exception as e:
                    for info in getattr(conv, 'shank_info', {}).values():
                        for kk in ('lf_open_file', 'ap_open_file'):
                            if kk in info:
                                info[kk].close()
                    return {'err': f'err prior-extraction {type(e).__name__}', 'ns_read': ns_read, 'msg': str(e)[:120]}
            try:
                init(nwindow, '_c12')
            except Exception as e:      # which exception class rejects the parameters is not part of the property
                which = 'window' if 'nwindow' in str(e) else 'overlap' if 'overlap' in str(e) else 'taper' if 'taper' in str(e) else '?'
                return {'err': f'err {type(e).__name__} {which}', 'ns_read': ns_read}
            try:
                status = process(bool(prior))
            except Exception as e:
                for info in getattr(conv, 'shank_info', {}).values():
                    for k in ('lf_open_file', 'ap_open_file'):
                        if k in info:
                            info[k].close()
                name = type(e).__name__
                return {'err': 'err ' + (name + ' shanks' if name == 'AssertionError' else name), 'ns_read': ns_read, 'msg': str(e)[:120]}
            files = []
            for key, info in conv.shank_info.items():
                f = Path(info['lf_file'])
                nbytes = f.stat().st_size
                raw = np.fromfile(f, dtype=np.int16)
                md = spikeglx.read_meta_data(f.with_suffix('.meta'))
                shape, typ, fs, mapped, open_err = None, None, float('nan'), None, None
                try:
                    sr = spikeglx.Reader(f, sort=False)
                    try:
                        shape, typ, fs = tuple(int(x) for x in sr.shape), sr.type, float(sr.fs)
                        mapped = np.array(sr._raw).copy()
                    finally:
                        sr.close()
                except Exception as e:      # a file whose meta data contradicts its content may not open at all
                    open_err = f'{type(e).__name__}: {str(e)[:100]}'
                files.append({'name': f.name, 'dir': f.parent.name, 'key': key, 'chns': [int(c) for c in info['chns']], 'nbytes': int(nbytes), 'raw': raw, 'meta': dict(md),
                              'shape': shape, 'type': typ, 'fs': fs, 'mapped': mapped, 'open_err': open_err})
            return {'files': files, 'sos': np.array(conv.sos_lp), 'status': status, 'ns_read': ns_read}
    finally:
        if conv is not None:
            with contextlib.suppress(Exception):
                conv.sr.close()
        shutil.rmtree(tmp, ignore_errors=True)


# ---------------------------------------------------------------------------------------------
# contents
# ---------------------------------------------------------------------------------------------
def _sync_words(ns, kind, rng):
    if kind == 'index':          # the word is the AP sample index (mod 2^16): the LF sync column shows the index map itself
        w = (np.arange(ns) % 65536).astype(np.uint16)
    elif kind == 'square':       # 16 lines toggling at different periods
        t = np.arange(ns)
        w = np.zeros(ns, dtype=np.uint16)
        for b in range(16):
            w |= (((t // (b + 1)) % 2).astype(np.uint16) << b)
    elif kind == 'extreme':      # only the extreme int16 patterns: 0x8000 (-32768, bit 15 alone), 0x7fff, 0xffff (-1), 0, 1, 0x8001
        w = rng.choice(np.array([0x8000, 0x7fff, 0xffff, 0, 1, 0x8001], dtype=np.uint16), size=ns)
    else:
        w = rng.integers(0, 65536, size=ns).astype(np.uint16)
    return w.view(np.int16)


def _content(ns, kind, seed, sync_kind='random'):
    """Deterministic AP content (ns x 385 int16), broadband and not constant; |x| <= 8191 (NP2 ADC range) except for the kinds
    ending in 16, which use the whole int16 range including -32768 and 32767."""
    rng = np.random.default_rng([int(seed), 12])
    nv = NCH - 1
    if kind == 'white':
        x = rng.integers(-AMP, AMP + 1, size=(ns, nv)).astype(float)
    elif kind == 'gauss':
        x = rng.normal(0, 2000, size=(ns, nv))
    elif kind == 'coloured':
        x = np.cumsum(rng.normal(0, 60, size=(ns, nv)), axis=0) + rng.normal(0, 300, size=(ns, nv))
        x += rng.integers(-2000, 2000, size=(1, nv))
    elif kind == 'spikes':
        x = rng.normal(0, 30, size=(ns, nv))
        k = max(ns // 40, 1)
        x[rng.integers(0, ns, size=k), rng.integers(0, nv, size=k)] += rng.choice([-1, 1], size=k) * rng.integers(2000, 8000, size=k)
    elif kind == 'step':
        x = rng.normal(0, 100, size=(ns, nv))
        pos = rng.integers(0, ns, size=nv)
        x += (np.arange(ns)[:, None] >= pos[None, :]) * rng.integers(-6000, 6000, size=(1, nv))
    elif kind == 'white16':      # full int16 range, the two extremes planted; its low-pass stays inside int16
        x = rng.integers(-32768, 32768, size=(ns, nv)).astype(float)
        k = max(ns // 20, 2)
        x[rng.integers(0, ns, size=k), rng.integers(0, nv, size=k)] = rng.choice([-32768.0, 32767.0], size=k)
    elif kind == 'square8191':   # full-swing square wave inside the ADC range (filter overshoot to about +-8740)
        per = int(rng.integers(20, 300))
        x = np.where(((np.arange(ns)[:, None] + rng.integers(0, per, size=(1, nv))) // per) % 2 == 0, float(AMP), float(-AMP - 1)) + rng.integers(-1, 2, size=(ns, nv))
    elif kind == 'square16':     # full-swing square wave over the int16 range: the low-pass overshoots beyond int16 (see known_findings)
        x = np.where((np.arange(ns)[:, None] // 100) % 2 == 0, 32767.0, -32768.0) * np.ones((1, nv))
    elif kind == 'ramp16':       # distinct values over the whole int16 range, both extremes present
        x = (np.arange(ns)[:, None] * 89 + np.arange(nv)[None, :] * 131) % 65536 - 32768.0
    elif kind == 'ramp':         # distinct values everywhere, cheap: identifies (sample, channel) for the index checks
        x = (np.arange(ns)[:, None] * 7 + np.arange(nv)[None, :] * 13) % (2 * AMP + 1) - AMP
    else:
        raise ValueError(kind)
    D = np.zeros((ns, NCH), dtype=np.int16)
    lim = (-32768, 32767) if kind.endswith('16') else (-AMP - 1 if kind == 'square8191' else -AMP, AMP)
    D[:, :nv] = np.clip(np.rint(x), *lim).astype(np.int16)
    D[:, -1] = _sync_words(ns, sync_kind, rng)
    return D


# ---------------------------------------------------------------------------------------------
# canonical forms
# ---------------------------------------------------------------------------------------------
def _trip(v):
    return ','.join(str(int(x)) for x in v)


def _canon_files(version, res, layout=None):
    """Same text as `showFile` of lean/Drivers/C12.lean, built from the files on disk / the Reader."""
    if 'err' in res:
        return res['err']
    info = _ap_meta_info(version, layout)
    out = []
    for f in res['files']:
        md = f['meta']
        nch = len(f['chns'])
        rows = f['nbytes'] // (2 * nch) if f['nbytes'] % (2 * nch) == 0 else f'{f["nbytes"]}/{2 * nch}'
        fr = Fraction(md['imSampRate']).limit_denominator(10 ** 6) if not isinstance(md['imSampRate'], str) else md['imSampRate']
        rate = f'{fr.numerator}/{fr.denominator}' if isinstance(fr, Fraction) else str(fr)
        # NP2.1 leaves the key alone ('kept' = still the AP file's text); NP2.4 always rewrites it, possibly to the same text (one shank: 0:384)
        subset = 'kept' if (version != 'NP2.4' and md.get('snsSaveChanSubset') == info['subset']) else str(md.get('snsSaveChanSubset'))
        so = md.get('snsSaveChanSubset_orig', None)
        suborig = 'none' if so is None else (','.join(map(str, _parse_subset(so))) or '-')
        shank = md.get(f'{version}_shank', None)
        shank = 'none' if shank is None else str(int(shank))
        orig = 'true' if 'original_meta' not in md else str(md['original_meta']).lower()
        out.append(f'sh={int(f["key"][5:])} rows={rows} nbytes={f["nbytes"]} chns={",".join(map(str, f["chns"]))} '
                   f'acq={_trip(md["acqApLfSy"])} sns={_trip(md["snsApLfSy"])} nsaved={int(md["nSavedChans"])} '
                   f'size={int(md["fileSizeBytes"])} rate={rate} subset={subset} suborig={suborig} shank={shank} orig={orig} '
                   + (f'type={f["type"] or "none"} shape={f["shape"][0]}x{f["shape"][1]}' if f['shape'] is not None else 'does-not-open ' + f['open_err'].split(':')[0]))
    return 'ok ' + ' | '.join(out)


def _files_line(version, nwindow, n, layout=None):
    info = _ap_meta_info(version, layout)
    v = 'np24' if version == 'NP2.4' else 'np21'
    return f'files {v} {nwindow} {n} {_trip(info["acq"])} {_trip(info["sns"])} {info["nsaved"]} {",".join(map(str, info["shank_map"]))}'


def _lf_matrix(f):
    nch = len(f['chns'])
    if nch == 0 or f['raw'].size % nch:
        return None
    return f['raw'].reshape(-1, nch)


def _canon_sync(res):
    if 'err' in res:
        return res['err']
    cols = []
    for f in res['files']:
        m = _lf_matrix(f)
        cols.append(None if m is None else m[:, -1])
    if any(c is None for c in cols) or any(not np.array_equal(c, cols[0]) for c in cols[1:]):
        return 'ok shanks-disagree ' + ';'.join('?' if c is None else hashlib.sha1(c.tobytes()).hexdigest()[:8] for c in cols)
    return 'ok ' + (','.join(str(int(x)) for x in cols[0]) or '-')


def _sha(a):
    return hashlib.sha1(np.ascontiguousarray(a).tobytes()).hexdigest()[:16]


# ---------------------------------------------------------------------------------------------
# generator
# ---------------------------------------------------------------------------------------------
_DOMAIN = {}


def _domain():
    """(overlap, taper, ratio) of the tree under test, through the constants translator (init_params literals); the domain of the
    property's quantifier (window > overlap, recording >= one taper) is expressed with them, not with 576 / 144."""
    if not _DOMAIN:
        c = {}
        try:
            import extract_consts
            c = extract_consts.extract(_src())
        except Exception:
            pass
        _DOMAIN['v'] = _consts_from(c)
    return _DOMAIN['v']


def _consts(ctx):
    v = _consts_from(ctx.consts or {})
    _DOMAIN['v'] = v
    return v


def _consts_from(c):
    ov = int(c.get('CONV_OVERLAP', 576))
    taper = ov // int(c.get('CONV_TAPER_DIV', 4))
    ratio = int(c.get('CONV_FS_AP', 30000)) // int(c.get('CONV_FS_LF', 2500))
    return ov, taper, ratio


def _windows(ov, ratio):
    lo = (ov // ratio + 1) * ratio
    return [lo, lo + ratio, 2 * ov, 2 * ov + ratio, 1200, 2400, 3000, 9000]


def _gen_w_ns(rng, ov, taper, ratio, max_windows=40):
    """One (nwindow, ns, kind) drawn from the property's quantifier, boundary biased."""
    ws = [w for w in _windows(ov, ratio) if w > ov and w % ratio == 0]
    r = rng.random()
    if r < 0.55:
        w = int(ws[rng.integers(0, 5 if r < 0.4 else len(ws))])
    else:
        w = int(ratio * rng.integers(ov // ratio + 1, ov // ratio + 1 + 260))
    stride = w - ov
    kind = rng.choice(['short', 'single', 'single', 'grid', 'grid', 'grid', 'grid', 'grid', 'random', 'random', 'random'])
    if kind == 'short':
        ns = int(rng.integers(1, taper))
        if rng.random() < 0.4:
            ns = int(rng.choice([1, taper - 1, taper - 2, 12, 13]))
    elif kind == 'single':
        ns = int(rng.choice([taper, taper + 1, taper + 11, taper + 12, 2 * taper - 1, 2 * taper, 2 * taper + 1, w - 1, w, w - 12, w - 13,
                             int(rng.integers(taper, w + 1))]))
    elif kind == 'grid':
        jmax = max(1, min(max_windows, 30000 // stride))
        j = int(rng.integers(0, jmax + 1))
        if rng.random() < 0.3:
            j = int(rng.integers(0, min(3, jmax) + 1))
        d = int(rng.integers(-13, 14))
        ns = w + j * stride + d
        if ns <= w:
            ns = w + abs(d) + 1
    else:
        jmax = max(1, min(max_windows, 30000 // stride))
        ns = int(rng.integers(w + 1, w + jmax * stride + 1))
    return w, max(ns, 1), str(kind)


SPECIAL_LAYOUTS = [
    [[0, 144], [1, 48], [2, 96], [3, 96]],          # one 48-channel block moved to shank 0
    [[0, 300], [1, 84]],                            # two shanks, very unequal
    [[0, 383], [3, 1]],                             # a shank with a single channel
    [[2, 384]],                                     # everything on one shank that is not shank 0
    [[1, 100], [0, 92], [1, 92], [3, 100]],         # first shank in file order is not shank 0; shank 2 unused
    [[0, 1], [1, 127], [2, 128], [3, 128]],
    [[0, 192], [2, 192]],                           # equal, two shanks
]


def _gen_layout(rng):
    """NP2.4 assignment of the 384 channels to 1..4 shanks as consecutive blocks; None = the fixture's 4 x 96 stripes."""
    r = rng.random()
    if r < 0.25:
        return None
    if r < 0.55:
        return [list(b) for b in SPECIAL_LAYOUTS[int(rng.integers(0, len(SPECIAL_LAYOUTS)))]]
    nb = int(rng.integers(1, 9))
    cuts = sorted(set(int(x) for x in rng.integers(1, NCH - 1, size=nb - 1))) if nb > 1 else []
    edges = [0] + cuts + [NCH - 1]
    used = rng.permutation(4)[:int(rng.integers(1, 5))]
    lay = []
    for a, b in zip(edges[:-1], edges[1:]):
        sh = int(used[int(rng.integers(0, len(used)))])
        if lay and lay[-1][0] == sh:
            lay[-1][1] += b - a
        else:
            lay.append([sh, b - a])
    return lay


def _layout_tag(version, layout):
    if version != 'NP2.4':
        return 'layout=np21'
    if layout is None:
        return 'layout=4x96'
    cnt = {}
    for sh, c in layout:
        cnt[sh] = cnt.get(sh, 0) + c
    return 'layout=uneven' if len(set(cnt.values())) > 1 else 'layout=even-custom'


def _gen_form(rng, p=0.55):
    """Representation of the call, drawn independently of the values: only the non-default entries (see DEFAULT_FORM)."""
    f = {}
    if rng.random() >= p:
        return f
    if rng.random() < 0.4:
        f['path'] = 'str'
    if rng.random() < 0.25:
        f['source'] = 'cbin'
    for k in ('ctor', 'init', 'process'):
        if rng.random() < 0.4:
            f[k] = 'pos'
    if rng.random() < 0.5:
        f['post_check'] = True
    for k in ('nwindow', 'nsamples'):
        if rng.random() < 0.6:
            f[k] = str(NUM_FORMS[int(rng.integers(1, len(NUM_FORMS)))])
    return f


def _form_tags(form):
    return tuple(f'form:{k}={v}' for k, v in sorted((form or {}).items())) or ('form:default',)


def _nwin(ns, w, ov):
    return max(-(-(ns - w) // (w - ov)), 0) + 1


def _tags(version, ns, w, ov, taper, extra=()):
    nw = _nwin(ns, w, ov)
    last_len = ns - (nw - 1) * (w - ov)
    t = [version, f'ns%12={"0" if ns % 12 == 0 else "nz"}',
         'nwin=1' if nw == 1 else 'nwin=2' if nw == 2 else 'nwin=3..9' if nw < 10 else 'nwin>=10',
         'ns<taper' if ns < taper else 'ns>=taper', 'w=min' if w == (ov // 12 + 1) * 12 else 'w>min']
    if nw > 1:
        t.append('last_window<=ov+24' if last_len <= ov + 24 else 'last_window_full' if last_len == w else 'last_window_mid')
    if ns % w == 0:
        t.append('ns%w=0')
    return tuple(t) + tuple(extra)


# ---------------------------------------------------------------------------------------------
# correspondence
# ---------------------------------------------------------------------------------------------
def _structural_case(ctx, version, w, ns, extra_file, rate, sync_kind, seed, with_identity, lines, pending, tags, layout=None, prior=None, form=None, content='ramp'):
    """Runs the real code now, queues the model requests; comparison happens after the Lean batch."""
    ns_file = ns + extra_file
    D = _content(ns_file, content, seed, sync_kind)
    nsamples = ns if extra_file else None
    desc = {'version': version, 'ns': ns, 'nwindow': w, 'file_extra': extra_file, 'rate': rate or 'fixture', 'sync': sync_kind, 'seed': seed}
    if layout is not None:
        desc['layout'] = layout
    if form:
        desc['form'] = form
    if content != 'ramp':
        desc['content'] = content
    res = _convert(version, D, w, nsamples=nsamples, rate=rate, layout=layout, form=form)
    if res.get('ns_read') != ns_file:
        raise RuntimeError(f'scratch recording of {ns_file} samples is read as {res.get("ns_read")} samples (harness, not the property)')
    nw_model = w
    k0 = len(lines)
    lines.append(_files_line(version, nw_model, ns, layout))
    lines.append(f'sync {nw_model} {ns} ' + (','.join(str(int(x)) for x in D[:ns, -1]) or '-'))
    lines.append(f'src {nw_model} {ns}')
    ident = _convert(version, D, w, nsamples=nsamples, rate=rate, identity=True, layout=layout, form=form) if with_identity else None
    reuse = reuse_ident = None
    if prior:
        # the same extraction as the last of a sequence on ONE converter object (history must not matter)
        reuse = _convert(version, D, w, nsamples=nsamples, rate=rate, layout=layout, prior=prior, form=form)
        if with_identity and seed % 2 == 0:
            reuse_ident = _convert(version, D, w, nsamples=nsamples, rate=rate, identity=True, layout=layout, prior=prior, form=form)
    pending.append({'desc': desc, 'k0': k0, 'res': res, 'ident': ident, 'D': D, 'tags': tags, 'version': version, 'layout': layout,
                    'prior': prior, 'reuse': reuse, 'reuse_ident': reuse_ident})


def _compare_structural(ctx, item, answers, taper):
    desc, res, D, version = item['desc'], item['res'], item['D'], item['version']
    ns = desc['ns']
    a_files, a_sync, a_src = answers[item['k0']:item['k0'] + 3]
    nontriv = 'ns>=taper' in item['tags'] and ((ns % 12 != 0) or ('nwin=1' not in item['tags']))
    tags = item['tags']
    ctx.compare('files', dict(desc, op='files'), _canon_files(version, res, item.get('layout')), a_files, nontrivial=nontriv, tags=('op=files',) + tags)
    ctx.compare('sync', dict(desc, op='sync'), _canon_sync(res), a_sync, nontrivial=nontriv, tags=('op=sync',))
    # row count on its own (bytes on disk / columns written) against the model's number of index-map entries
    if 'err' in res:
        impl_n = res['err']
    else:
        impl_n = 'ok n=' + ','.join(str(f['nbytes'] // (2 * len(f['chns']))) if f['nbytes'] % (2 * len(f['chns'])) == 0 else 'ragged' for f in res['files'])
    if a_src.startswith('ok'):
        n_model = a_src.split()[1][2:]
        model_n = 'ok n=' + ','.join([n_model] * (len(res['files']) if 'files' in res else 1))
    else:
        model_n = a_src
    ctx.compare('count', dict(desc, op='count'), impl_n, model_n, nontrivial=nontriv, tags=('op=count',))
    if 'files' in res:
        d = dict(desc, op='lf-file-name')
        ctx.case(d, nontrivial=False, tags=('op=lf-file-name',))
        bad = _bad_names(version, res)
        if bad:
            ctx.mismatch('lf-file-name', d, bad, 'flat binary *.lf.bin next to the AP file (NP2.1) / in probe00<a-d><extra> (NP2.4), since compress=False')
    if item.get('reuse') is not None:
        _compare_reuse(ctx, item, a_files, a_sync, nontriv)
    for ident, opname in ((item['ident'], 'volt-identity'), (item.get('reuse_ident'), 'volt-identity-reuse')):
        _compare_identity(ctx, item, ident, opname, a_files, a_src, nontriv, taper)


def _bad_names(version, res):
    """compress=False was requested: every LF stream must be the flat binary <run>.lf.bin in its expected folder."""
    out = []
    for f in res['files']:
        want_dir = 'probe00' if version != 'NP2.4' else 'probe00' + chr(97 + int(f['key'][5:])) + '_c12'
        if f['name'] != '_spikeglx_ephysData_g0_t0.imec0.lf.bin' or f['dir'] != want_dir:
            out.append(f'{f["dir"]}/{f["name"]}')
    return ', '.join(out)


def _files_digest(res):
    if 'err' in res:
        return res['err']
    return 'ok ' + ' | '.join(f'{f["key"]} bytes={f["nbytes"]} sha={_sha(f["raw"])}' for f in res['files'])


def _compare_reuse(ctx, item, a_files, a_sync, nontriv):
    """Second (or third) extraction by the same converter object: against the model (which knows no history) and, byte for byte,
    against the extraction of the same parameters by a fresh object."""
    desc, version = dict(item['desc'], prior=item['prior']), item['version']
    reuse = item['reuse']
    tg = ('reuse', f'prior_runs={len(item["prior"])}')
    ctx.compare('files-reuse', dict(desc, op='files-reuse'), _canon_files(version, reuse, item.get('layout')), a_files, nontrivial=nontriv, tags=('op=files-reuse',) + tg)
    ctx.compare('sync-reuse', dict(desc, op='sync-reuse'), _canon_sync(reuse), a_sync, nontrivial=nontriv, tags=('op=sync-reuse',))
    d = dict(desc, op='bytes-reuse')
    ctx.case(d, nontrivial=nontriv, tags=('op=bytes-reuse',))
    a, b = _files_digest(reuse), _files_digest(item['res'])
    if a != b:
        ctx.mismatch('bytes-reuse', d, a, b + '   (same parameters, fresh converter object)')


def _compare_identity(ctx, item, ident, opname, a_files, a_src, nontriv, taper):
    desc, D, version = item['desc'], item['D'], item['version']
    if opname.endswith('reuse'):
        desc = dict(desc, prior=item.get('prior'))
    ns = desc['ns']
    if ident is not None:
        # voltage columns with the filter replaced by the identity: LF[m, c] must be AP[src_m, chns_c] wherever the file-end taper is 1
        if 'err' in ident or not a_src.startswith('ok') or not a_files.startswith('ok'):
            impl_s = ident.get('err', 'ok')
            model_s = a_src if not a_src.startswith('ok') else 'ok'
            ctx.compare(opname, dict(desc, op=opname), impl_s.split(' n=')[0], model_s.split(' n=')[0], nontrivial=nontriv, tags=('op=' + opname,))
            return
        src_tok = a_src.split('src=')[1]
        src = np.array([int(x) for x in src_tok.split(',')], dtype=int) if src_tok != '-' else np.zeros(0, int)
        keep = (src >= taper) & (src < ns - taper)
        chns_model = [[int(x) for x in part.split('chns=')[1].split()[0].split(',')] for part in a_files[3:].split(' | ')]
        impl_parts, model_parts = [], []
        for i, f in enumerate(ident['files']):
            m = _lf_matrix(f)
            if m is None or m.shape[0] != len(src):
                impl_parts.append(f'rows={None if m is None else m.shape[0]}')
            else:
                impl_parts.append(f'rows={m.shape[0]} interior={int(keep.sum())} sha={_sha(m[keep])}')
            if i < len(chns_model):
                model_parts.append(f'rows={len(src)} interior={int(keep.sum())} sha={_sha(D[src[keep]][:, chns_model[i]])}')
        while len(model_parts) < len(chns_model):
            model_parts.append('missing')
        ctx.compare(opname, dict(desc, op=opname), 'ok ' + ' | '.join(impl_parts), 'ok ' + ' | '.join(model_parts[:max(len(impl_parts), len(chns_model))]),
                    nontrivial=nontriv, tags=('op=' + opname, 'interior>0' if keep.any() else 'interior=0'))


def _numeric_check(version, D, w1, w2, rate=None, res1=None, layout=None, prior=None, form=None):
    """The numeric half of the property on the real code: returns (None | failure text, stats)."""
    import scipy.signal
    ns = D.shape[0]
    r1 = res1 or _convert(version, D, w1, rate=rate, layout=layout, prior=prior, form=form)
    r2 = _convert(version, D, w2, rate=rate, layout=layout) if w2 != w1 else r1
    stats = {}
    if 'err' in r1 or 'err' in r2:
        return f'conversion raised: {r1.get("err")} / {r2.get("err")} ({r1.get("msg", r2.get("msg", ""))})', stats
    sos = r1['sos']
    w_, h_ = scipy.signal.sosfreqz(sos, worN=np.array([0.0, np.pi]))
    stats['H0'], stats['Hpi'] = float(abs(h_[0])), float(abs(h_[1]))
    if abs(abs(h_[0]) - 1) > 1e-6 or abs(h_[1]) > 1e-3:
        return f'the filter is not a low-pass: |H(0)| = {abs(h_[0]):.6g}, |H(Nyquist)| = {abs(h_[1]):.3g}', stats
    if len(r1['files']) != len(r2['files']):
        return f'{len(r1["files"])} LF files with window {w1}, {len(r2["files"])} with window {w2}', stats
    nrows = -(-ns // 12)
    ref_all = None
    worst_w, worst_r = 0.0, 0.0
    for f1, f2 in zip(r1['files'], r2['files']):
        m1, m2 = _lf_matrix(f1), _lf_matrix(f2)
        if m1 is None or m2 is None or m1.shape != m2.shape:
            return f'LF files of shank {f1["key"][5:]} have different shapes for windows {w1} / {w2}: {None if m1 is None else m1.shape} vs {None if m2 is None else m2.shape}', stats
        if m1.shape[0] != nrows:
            return f'LF file of shank {f1["key"][5:]} has {m1.shape[0]} rows, expected ceil({ns}/12) = {nrows}', stats
        dw = np.abs(m1[:, :-1].astype(int) - m2[:, :-1].astype(int))
        worst_w = max(worst_w, float(dw.max()) if dw.size else 0.0)
        if dw.size and dw.max() > 1:
            r, c = np.unravel_index(int(np.argmax(dw)), dw.shape)
            return (f'window dependence: shank {f1["key"][5:]} LF sample {int(r)} column {int(c)} is {int(m1[r, c])} with window {w1} '
                    f'and {int(m2[r, c])} with window {w2} (difference {int(dw[r, c])} LSB > 1)'), stats
        if nrows > 2 * MARGIN_LF and len(f1['chns']) > 1:
            if ref_all is None:
                ref_all = scipy.signal.sosfiltfilt(sos, D[:, :-1].astype(np.float64), axis=0)[::12]
            cols = np.array(f1['chns'][:-1])
            sl = slice(MARGIN_LF, nrows - MARGIN_LF)
            for m, wv in ((m1, w1), (m2, w2)):
                dr = np.abs(m[sl, :-1].astype(float) - ref_all[sl][:, cols])
                dr[np.abs(ref_all[sl][:, cols]) > 32766] = 0      # outside the domain: the filtered trace itself does not fit int16
                worst_r = max(worst_r, float(dr.max()))
                if dr.max() > 1.0:
                    r, c = np.unravel_index(int(np.argmax(dr)), dr.shape)
                    return (f'window {wv}: shank {f1["key"][5:]} LF sample {int(r) + MARGIN_LF} (AP sample {12 * (int(r) + MARGIN_LF)}) channel {int(cols[c])} is '
                            f'{int(m[sl][r, c])}, whole-trace zero-phase low-pass + [::12] gives {ref_all[sl][r, cols[c]]:.3f} (difference {dr[r, c]:.3f} LSB > 1)'), stats
    stats['max_window_diff'], stats['max_ref_diff'] = worst_w, worst_r
    return None, stats


def correspondence(ctx):
    ov, taper, ratio = _consts(ctx)
    rng = ctx.rng
    lines, pending = [], []
    # --- structural cases -------------------------------------------------------------------
    fixed = [('NP2.1', ov + ratio, taper - 1), ('NP2.4', ov + ratio, taper), ('NP2.1', ov + ratio, ov + ratio + 1),
             ('NP2.4', 1200, 1200 + 3 * (1200 - ov) + 7), ('NP2.1', 1200, 2 * 1200), ('NP2.4', 2 * ov, 2 * ov + 1)]
    cases = [(v, w, ns, 'fixed') for v, w, ns in fixed]
    for i in range(ctx.n(90, 800)):
        w, ns, kind = _gen_w_ns(rng, ov, taper, ratio, max_windows=ctx.n(16, 40))
        cases.append(('NP2.4' if rng.random() < 0.5 else 'NP2.1', w, ns, kind))
    for i, (version, w, ns, kind) in enumerate(cases):
        extra_file = int(rng.integers(1, 400)) if rng.random() < 0.12 else 0
        rate = 30000 if rng.random() < 0.5 else None
        sync_kind = ['index', 'random', 'square', 'extreme'][int(rng.integers(0, 4))]
        seed = int(rng.integers(0, 2 ** 31))
        with_identity = ctx.quick or (i % 2 == 0)
        tags = _tags(version, ns, w, ov, taper, extra=('gen=' + kind, 'rate=30000' if rate else 'rate=fixture',
                                                         'nsamples<file' if extra_file else 'nsamples=file', 'sync=' + sync_kind))
        layout = None
        if version == 'NP2.4':
            layout = [list(b) for b in SPECIAL_LAYOUTS[i // 3 % len(SPECIAL_LAYOUTS)]] if (kind == 'fixed' and ns >= taper) else _gen_layout(rng)
        tags = tags + (_layout_tag(version, layout),)
        if layout is not None:
            tags = tags + (f'nshanks={len(set(sh for sh, _ in layout))}',) + (('min_shank_size<=4',) if min(
                sum(c for s2, c in layout if s2 == sh) for sh in set(s3 for s3, _ in layout)) <= 4 else ())
        prior = None
        if ns >= taper and (rng.random() < 0.3 or (kind == 'fixed' and i % 2 == 1)):
            # earlier extraction(s) with the same object, other window size(s)
            prior = [int(x) for x in rng.choice([wp for wp in _windows(ov, ratio) if wp > ov and wp != w], size=1 if rng.random() < 0.8 else 2, replace=False)]
            tags = tags + ('same-object-after-' + str(len(prior)),)
        else:
            tags = tags + ('fresh-object',)
        form = _gen_form(rng)
        content = 'ramp16' if rng.random() < 0.5 else 'ramp'
        tags = tags + _form_tags(form) + ('content=' + content,)
        _structural_case(ctx, version, w, ns, extra_file, rate, sync_kind, seed, with_identity, lines, pending, tags, layout=layout, prior=prior,
                         form=form, content=content)
    # default window (nwindow=None -> 2 s): two windows
    for version in (['NP2.1'] if ctx.quick else ['NP2.1', 'NP2.4']):
        wdef = int(ctx.consts.get('CONV_WINDOW_SECS', 2)) * int(ctx.consts.get('CONV_FS_AP', 30000))
        ns = wdef + int(rng.integers(1, 3000))
        tags = _tags(version, ns, wdef, ov, taper, extra=('gen=default-window', 'rate=30000', 'nsamples=file', 'sync=index'))
        D = _content(ns, 'ramp', 1, 'index')
        desc = {'version': version, 'ns': ns, 'nwindow': None, 'file_extra': 0, 'rate': 30000, 'sync': 'index', 'seed': 1}
        res = _convert(version, D, None, rate=30000)
        k0 = len(lines)
        lines.append(_files_line(version, 0, ns))
        lines.append(f'sync 0 {ns} ' + ','.join(str(int(x)) for x in D[:, -1]))
        lines.append(f'src 0 {ns}')
        pending.append({'desc': desc, 'k0': k0, 'res': res, 'ident': None, 'D': D, 'tags': tags, 'version': version})
    # init_params on its own: assertion branch for windows that are not a multiple of the ratio, and the constants it leaves behind
    init_cases = [0, ov + ratio, 600, 601, 590, 1199, 1200, 9000, 60000, 60001] + [int(x) for x in rng.integers(1, 70000, size=ctx.n(20, 200))]
    init_impl = []
    init_forms = [str(NUM_FORMS[int(rng.integers(0, len(NUM_FORMS)))]) if k % 2 else 'int' for k in range(len(init_cases))]
    for w, nf in zip(init_cases, init_forms):
        init_impl.append(_impl_init(w, nf))
        lines.append(f'init {w}')
    answers = ctx.lean(lines)
    for item in pending:
        _compare_structural(ctx, item, answers, taper)
    for w, nf, a, b in zip(init_cases, init_forms, init_impl, answers[len(answers) - len(init_cases):]):
        ctx.compare('init', {'op': 'init', 'nwindow': w, 'form': nf}, a, b, nontrivial=True,
                    tags=('op=init', 'init_ok' if a.startswith('ok') else 'init_assert', 'init-form:' + nf))
    # --- numeric oracle (partial: not a theorem) ----------------------------------------------
    kinds = ['white', 'gauss', 'coloured', 'spikes', 'step', 'white16', 'square8191']
    worst = {'max_window_diff': 0.0, 'max_ref_diff': 0.0}
    nnum = ctx.n(20, 100)
    for i in range(nnum):
        version = 'NP2.4' if i % 2 else 'NP2.1'
        kind = kinds[i % len(kinds)]
        ws = [w for w in _windows(ov, ratio) if w > ov]
        w1 = int(ws[int(rng.integers(0, len(ws) - 1))])
        w2 = int(ratio * rng.integers(ov // ratio + 2, ov // ratio + 300))
        if w2 == w1:
            w2 += ratio
        smax = ctx.n(14, 30)
        ns = int(max(w1, w2) + rng.integers(1, smax) * (min(w1, w2) - ov) + rng.integers(-13, 14))
        ns = min(max(ns, 2 * MARGIN_LF * 12 + 200), ctx.n(9000, 24000))
        seed = int(rng.integers(0, 2 ** 31))
        desc = {'op': 'numeric', 'version': version, 'ns': ns, 'nwindow': w1, 'nwindow2': w2, 'content': kind, 'seed': seed}
        layout = _gen_layout(rng) if version == 'NP2.4' else None
        if layout is not None:
            desc['layout'] = layout
        prior = None
        if i % 3 == 2:      # the window-w1 extraction is the second one made by its converter object
            prior = [int(ratio * rng.integers(ov // ratio + 2, ov // ratio + 300))]
            desc['prior'] = prior
        form = _gen_form(rng)
        if form:
            desc['form'] = form
        D = _content(ns, kind, seed, 'extreme' if i % 4 == 0 else 'random')
        if i % 4 == 0:
            desc['sync'] = 'extreme'
        fail, stats = _numeric_check(version, D, w1, w2, layout=layout, prior=prior, form=form)
        ctx.case(desc, nontrivial=True, tags=('op=numeric', 'content=' + kind, version + '-numeric', 'numeric-' + _layout_tag(version, layout),
                                              'numeric-same-object' if prior else 'numeric-fresh-object') + tuple('numeric-' + t for t in _form_tags(form)))
        for k in worst:
            worst[k] = max(worst[k], stats.get(k, 0.0))
        if fail:
            ctx.mismatch('numeric', desc, fail, 'LF values independent of the window (<= 1 LSB) and within 1 LSB of whole-trace sosfiltfilt + [::12] beyond 30 LF samples from the ends')
    if not ctx.quick:   # default window against half of it on a longer recording
        wdef = int(ctx.consts.get('CONV_WINDOW_SECS', 2)) * int(ctx.consts.get('CONV_FS_AP', 30000))
        ns = wdef + 20011
        desc = {'op': 'numeric', 'version': 'NP2.1', 'ns': ns, 'nwindow': None, 'nwindow2': wdef // 2, 'content': 'white', 'seed': 7}
        fail, stats = _numeric_check('NP2.1', _content(ns, 'white', 7), None, wdef // 2)
        ctx.case(desc, nontrivial=True, tags=('op=numeric', 'content=white', 'default-window-numeric'))
        for k in worst:
            worst[k] = max(worst[k], stats.get(k, 0.0))
        if fail:
            ctx.mismatch('numeric', desc, fail, 'as above')
    ctx.note(f'numeric oracle calibration this run: max |LF(w1) - LF(w2)| = {worst["max_window_diff"]:.0f} LSB over all samples (tolerance 1); '
             f'max |LF - whole-trace reference| = {worst["max_ref_diff"]:.4f} LSB beyond {MARGIN_LF} LF samples from the ends (tolerance 1); '
             f'{nnum} broadband recordings, contents {kinds}')
    ctx.note(f'constants from init_params: overlap {ov}, taper {taper}, ratio {ratio}; structural cases {len(pending)}, init cases {len(init_cases)}')


def _impl_init(w, nform='int'):
    """init_params on a tiny scratch recording (the recording is irrelevant to the parameters)."""
    from neuropixel import NP2Converter
    tmp = tempfile.mkdtemp(prefix='c12_')
    conv = None
    try:
        with _quiet():
            binf = _make_recording(tmp, 'NP2.1', np.zeros((200, NCH), dtype=np.int16), 30000)
            conv = NP2Converter(binf, post_check=False, compress=False)
            try:
                conv.init_params(nwindow=_num(w, nform))
            except Exception as e:
                return 'err ' + type(e).__name__ + ' ' + ('window' if 'nwindow' in str(e) else 'overlap' if 'overlap' in str(e) else 'taper')
            return f'ok ratio={int(conv.ratio)} window={int(conv.samples_window)} overlap={int(conv.samples_overlap)} taper={int(conv.samples_taper)}'
    finally:
        if conv is not None:
            with contextlib.suppress(Exception):
                conv.sr.close()
        shutil.rmtree(tmp, ignore_errors=True)


# ---------------------------------------------------------------------------------------------
# oracle (written from the property text; does not use the Lean model)
# ---------------------------------------------------------------------------------------------
def oracle(inp):
    """C12 on the real code for one input {'version','ns','nwindow','nwindow2','content','seed'[, 'file_extra','rate','sync','layout']}
    (`layout` = [[shank, count], ...]: NP2.4 assignment of the 384 channels to shanks in consecutive blocks; absent = fixture).
    Returns None when the property holds, else a description of what is observed."""
    version, ns = inp['version'], int(inp['ns'])
    w1, w2 = inp.get('nwindow'), inp.get('nwindow2')
    ov, taper, ratio = _domain()
    if ns < taper or any(w is not None and (w <= ov or w % ratio) for w in (w1, w2)):
        return None     # outside the domain (see ASSUMPTIONS): shorter than one taper / window not a multiple of 12 above the overlap
    extra = int(inp.get('file_extra', 0) or 0)
    rate = inp.get('rate')
    rate = None if rate in (None, 'fixture') else rate
    D = _content(ns + extra, inp.get('content', 'white'), int(inp.get('seed', 0)), inp.get('sync', 'random'))
    layout = inp.get('layout') if version == 'NP2.4' else None
    prior = [int(x) for x in (inp.get('prior') or []) if int(x) > ov and int(x) % ratio == 0] or None
    form = inp.get('form') or None
    res = _convert(version, D, w1, nsamples=(ns if extra else None), rate=rate, layout=layout, prior=prior, form=form)
    if 'err' in res:
        return f'conversion raised {res["err"][4:]}: {res.get("msg", "")}'
    info = _ap_meta_info(version, layout)
    sm = np.array(info['shank_map'])
    nrows = -(-ns // 12)
    want_sync = D[:ns:12, -1]
    shanks = sorted(set(info['shank_map']))
    if len(res['files']) != len(shanks):
        return f'{len(res["files"])} LF files for {len(shanks)} shanks'
    bad = _bad_names(version, res)
    if bad:
        return f'compress=False was requested but the LF stream is not the flat binary *.lf.bin in its shank folder: {bad}'
    for f in res['files']:
        sh = int(f['key'][5:])
        n_written = int((sm == sh).sum()) + 1           # the shank's channels + the sync channel
        md = f['meta']
        if f['nbytes'] != nrows * n_written * 2:
            return (f'LF file of shank {sh} holds {f["nbytes"]} bytes = {f["nbytes"] / (2 * n_written):.3f} samples of {n_written} channels, '
                    f'expected ceil({ns}/12) = {nrows} samples')
        if float(md['imSampRate']) != 2500.0 or (f['shape'] is not None and f['fs'] != 2500.0):
            return f'LF meta data of shank {sh} declares imSampRate = {md["imSampRate"]}, expected 2500'
        if int(md['nSavedChans']) != n_written or [int(x) for x in md['snsApLfSy']] != [0, n_written - 1, 1]:
            return (f'LF meta data of shank {sh} declares nSavedChans = {md["nSavedChans"]}, snsApLfSy = {md["snsApLfSy"]}; '
                    f'{n_written} channels were written (expected [0, {n_written - 1}, 1])')
        if [int(x) for x in md['acqApLfSy']][:2] != [0, n_written - 1]:
            return f'LF meta data of shank {sh} declares acqApLfSy = {md["acqApLfSy"]}; {n_written} channels were written (expected [0, {n_written - 1}, ...])'
        if version == 'NP2.4':
            want_chns = [int(i) for i in np.where(sm == sh)[0]] + [info['nsaved'] - 1]
            if str(md.get('snsSaveChanSubset')) != f'0:{n_written - 1}':
                return f'LF meta data of shank {sh} declares snsSaveChanSubset = {md.get("snsSaveChanSubset")}; {n_written} channels were written (expected 0:{n_written - 1})'
            if _parse_subset(md.get('snsSaveChanSubset_orig', '')) != want_chns:
                return (f'LF meta data of shank {sh}: snsSaveChanSubset_orig = {md.get("snsSaveChanSubset_orig")} does not enumerate the channels of the shank '
                        f'({len(want_chns)} channels, first {want_chns[:3]}, last {want_chns[-2:]})')
        if int(md['fileSizeBytes']) != f['nbytes']:
            return f'LF meta data of shank {sh} declares fileSizeBytes = {md["fileSizeBytes"]}, the file has {f["nbytes"]} bytes'
        if f['shape'] is None:
            return f'LF file of shank {sh} ({nrows} x {n_written} on disk) does not open with spikeglx.Reader: {f["open_err"]}'
        if tuple(f['shape']) != (nrows, n_written) or f['type'] != 'lf':
            return f'LF file of shank {sh} opens (spikeglx.Reader) as {f["type"]} with shape {tuple(f["shape"])}, its content is {nrows} x {n_written}'
        if not np.array_equal(f['mapped'], f['raw'].reshape(nrows, n_written)):
            return f'LF file of shank {sh}: the array mapped by spikeglx.Reader differs from the {nrows} x {n_written} content of the file'
        got = f['mapped'][:, -1]
        if not np.array_equal(got, want_sync):
            bad = int(np.where(got != want_sync)[0][0]) if got.shape == want_sync.shape else -1
            return (f'sync column of shank {sh}: LF sample {bad} is {int(got[bad])}, AP sync word at sample {12 * bad} is {int(want_sync[bad])}'
                    if bad >= 0 else f'sync column of shank {sh} has {got.shape[0]} samples, expected {want_sync.shape[0]}')
    if prior:
        # same code, same input, same parameters => same bytes, whatever the object did before
        fresh = _convert(version, D, w1, nsamples=(ns if extra else None), rate=rate, layout=layout)
        for f, g in zip(res['files'], fresh.get('files', [])):
            if not np.array_equal(f['raw'], g['raw']):
                a, b = _lf_matrix(f), _lf_matrix(g)
                if a is None or b is None or a.shape != b.shape:
                    return f'LF file of shank {f["key"][5:]}: {f["nbytes"]} bytes after earlier extraction(s) {prior} on the same object, {g["nbytes"]} bytes from a fresh object'
                r, c = [int(x[0]) for x in np.where(a != b)]
                return (f'LF file of shank {f["key"][5:]} written by the extraction with window {w1} that follows extraction(s) with window(s) {prior} on the same '
                        f'NP2Converter object differs from the one a fresh object writes: {int((a != b).any(axis=1).sum())} of {a.shape[0]} LF samples differ, '
                        f'first at LF sample {r} column {c}: {int(a[r, c])} vs {int(b[r, c])}')
    if w2 is not None or nrows > 2 * MARGIN_LF:
        fail, _ = _numeric_check(version, D[:ns], w1, w2 if w2 is not None else w1, rate=rate, res1=(res if extra == 0 else None), layout=layout, form=(form if extra == 0 else None))
        if fail:
            return fail
    return None


def _neighbourhood():
    ov, taper, ratio = _domain()
    lo = (ov // ratio + 1) * ratio
    out = []
    for ns in (taper, taper + 1, taper + 12, 2 * taper + 12, lo + 1, lo + 13, lo + 157, 2 * lo + 25, 2 * lo + 37, 3 * lo + 61, 4 * lo + 49, 5 * lo + 71):
        for w1, w2 in ((lo, 2 * lo + 24), (lo + ratio, 4 * lo + 48), (2 * lo + 24, lo)):
            for version in ('NP2.1', 'NP2.4'):
                out.append({'version': version, 'ns': ns, 'nwindow': w1, 'nwindow2': w2, 'content': 'white', 'seed': ns})
                if w1 == lo:   # a second extraction by the same converter object
                    out.append({'version': version, 'ns': ns, 'nwindow': w1, 'nwindow2': w2, 'content': 'white', 'seed': ns, 'prior': [w2]})
            if w1 == lo:   # the same calls in other legitimate spellings / representations
                out.append({'version': 'NP2.1', 'ns': ns, 'nwindow': w1, 'nwindow2': w2, 'content': 'white16', 'seed': ns, 'sync': 'extreme',
                            'form': {'path': 'str', 'source': 'cbin', 'ctor': 'pos', 'init': 'pos', 'process': 'pos', 'nwindow': 'np.float64', 'post_check': True}})
                out.append({'version': 'NP2.4', 'ns': ns, 'nwindow': w1, 'nwindow2': w2, 'content': 'square8191', 'seed': ns, 'sync': 'extreme',
                            'form': {'path': 'str', 'ctor': 'pos', 'init': 'pos', 'nwindow': 'np.uint16', 'post_check': True}})
            if w1 == lo:   # NP2.4 with channels unevenly spread over the shanks
                out.append({'version': 'NP2.4', 'ns': ns, 'nwindow': w1, 'nwindow2': w2, 'content': 'white', 'seed': ns,
                            'layout': [list(b) for b in SPECIAL_LAYOUTS[(ns // 12) % 3]]})
    return out


def search(ctx, reasons):
    cands, seen = [], set()
    for m in ctx.mismatches[:40]:
        c = m['case']
        if 'version' not in c:
            continue
        inp = {'version': c['version'], 'ns': c['ns'], 'nwindow': c.get('nwindow'), 'nwindow2': c.get('nwindow2'),
               'content': c.get('content', 'white'), 'seed': c.get('seed', 0), 'file_extra': c.get('file_extra', 0),
               'rate': c.get('rate'), 'sync': c.get('sync', 'random')}
        if c.get('layout') is not None:
            inp['layout'] = c['layout']
        if c.get('prior'):
            inp['prior'] = c['prior']
        if c.get('form'):
            inp['form'] = c['form']
        key = repr(sorted(inp.items(), key=lambda kv: kv[0]))
        if key not in seen:
            seen.add(key)
            cands.append(inp)
    cands.sort(key=lambda i: i['ns'])
    cands = cands[:12]
    best = None
    for inp in _neighbourhood() + cands:
        if best is not None and inp['ns'] >= best[0]['ns']:
            continue
        try:
            r = oracle(inp)
        except Exception as e:      # the oracle itself must not hide a crash of the code under test
            r = f'raised {type(e).__name__}: {e}'
        if r:
            best = (inp, r)
            if inp['ns'] <= _domain()[1] + 12:
                break
    if best:
        inp, r = best
        return {'input': inp, 'observed': r,
                'expected': ('C12: ceil(ns/12) LF samples per file, sync column = AP sync words at 0, 12, 24, ..., LF values independent of the window '
                             'size (<= 1 LSB) and within 1 LSB of whole-trace zero-phase low-pass + [::12] beyond 30 LF samples from the ends, meta data '
                             'declares 2500 Hz and the channel counts written, file opens with the shape of its content'),
                'how': ('harness/props/c12.py oracle(input): scratch recording _content(ns, content, seed, sync) written next to the np2split fixture meta data, '
                        'conv = NP2Converter(ap_file, post_check=False, compress=False); [for p in input.prior: conv.init_params(nwindow=p, extra=...); '
                        'conv.process(overwrite=...);] conv.init_params(nwindow=nwindow[, nsamples=ns], extra=...); conv.process(overwrite=bool(prior)); '
                        'the LF files of this last call are examined; a fresh object with nwindow2 (and, with prior, a fresh object with nwindow) gives the comparison'),
                'calls': _calls(inp)}
    return None


def _calls(inp):
    """The concrete sequence of calls of an oracle input, in the spelling (`form`) that was used."""
    fm = dict(DEFAULT_FORM, **(inp.get('form') or {}))
    num = lambda x, k: 'None' if x is None else (repr(x) if fm[k] == 'int' else f'float({x})' if fm[k] == 'float' else f'{fm[k]}({x})')
    apf = "'<dir>/probe00/_spikeglx_ephysData_g0_t0.imec0.ap." + ('cbin' if fm['source'] == 'cbin' else 'bin') + "'"
    apf = apf if fm['path'] == 'str' else f'Path({apf})'
    pc = bool(fm['post_check'])
    seq = [f'conv = NP2Converter({apf}, {pc}, False, False)' if fm['ctor'] == 'pos'
           else f'conv = NP2Converter({apf}, post_check={pc}, delete_original=False, compress=False)']
    nsv = inp['ns'] if inp.get('file_extra') else None

    def init(w, extra):
        if fm['init'] == 'pos':
            return f"conv.init_params({num(nsv, 'nsamples')}, {num(w, 'nwindow')}, '{extra}')"
        return f"conv.init_params(nsamples={num(nsv, 'nsamples')}, nwindow={num(w, 'nwindow')}, extra='{extra}')"
    proc = lambda ow: f'conv.process({ow})' if fm['process'] == 'pos' else (f'conv.process(overwrite={ow})' if ow else 'conv.process()')
    for k, p in enumerate(inp.get('prior') or []):
        seq += [init(p, f'_c12p{k}'), proc(k > 0)]
    seq += [init(inp.get('nwindow'), '_c12'), proc(bool(inp.get('prior')))]
    return seq


def replay(ctx, rep):
    r = oracle(rep['input'])
    print('oracle:', r)
    return r is not None


def known_findings(ctx):
    def short():
        ov, taper, ratio = _domain()
        res = _convert('NP2.1', _content(taper - 44, 'white', 0), 2 * ov + 4 * ratio)
        return str(res.get('err', '')).startswith('err')
    def overshoot():
        # full-swing square wave over the int16 range: zero-phase low-pass overshoots to about +-34955, the int16 cast wraps
        import scipy.signal
        D = _content(3011, 'square16', 0)
        r = _convert('NP2.1', D, 1200)
        if 'err' in r:
            return False
        m = _lf_matrix(r['files'][0])
        ref = scipy.signal.sosfiltfilt(r['sos'], D[:, :-1].astype(float), axis=0)[::12]
        sl = slice(MARGIN_LF, m.shape[0] - MARGIN_LF)
        bad = (np.abs(ref[sl]) > 32767.5) & (np.abs(m[sl, :-1] - ref[sl]) > 1)
        return bool(bad.any())
    return {'recording-shorter-than-taper': short, 'lf-overshoot-beyond-int16-wraps': overshoot}
