import json
"""C01 — Reader returns calibrated voltages aligned with the probe geometry (spikeglx.Reader indexing)."""
import os
os.environ.setdefault('TQDM_DISABLE', '1')   # mtscomp's progress bars

import logging
import re
import shutil
import tempfile
from pathlib import Path

import numpy as np

ID = 'C01'
DRIVER = 'C01'
LEAN_TARGETS = ['IblVerif.Properties.C01']
THEOREMS = [
    'IblVerif.C01.read_eq_index_calibrated',
    'IblVerif.C01.read_cbin_eq_index_calibrated_partial',
    'IblVerif.C01.cbin_read_independent_of_chunk_layout',
    'IblVerif.C01.cbin_negative_step_counterexample',
    'IblVerif.C01.cbin_int_below_minus_ns_counterexample',
    'IblVerif.C01.cbin_numpy_integer_counterexample',
    'IblVerif.C01.getitem_dispatch',
    'IblVerif.C01.getitem_dispatch_cbin_partial',
    'IblVerif.C01.getitem_lone_list_rows',
    'IblVerif.C01.read_samples_eq',
    'IblVerif.C01.read_slice_entry',
    'IblVerif.C01.sync_unscaled',
    'IblVerif.C01.sync_trace_indices_are_last',
    'IblVerif.C01.s2v_layout_from_meta',
    'IblVerif.C01.sync_trace_columns_unscaled',
    'IblVerif.C01.read_pair_aligned',
    'IblVerif.C01.read_samples_pair_eq',
    'IblVerif.C01.float32_exact_cases',
    'IblVerif.C01.order_perm',
    'IblVerif.C01.order_sorted',
    'IblVerif.C01.raw_channel_order_perm',
    'IblVerif.C01.geometry_column_agree',
    'IblVerif.C01.unsorted_is_disk_order',
    'IblVerif.C01.slice_indices_eq_ofFn',
    'IblVerif.C01.slice_indices_in_range',
    'IblVerif.C01.slice_length_formula',
    'IblVerif.C01.slice_empty_iff',
    'IblVerif.C01.slice_all_and_reversed',
    'IblVerif.C01.index_normalisation',
]
RULE = ('synthetic recordings built from every fixture meta of src/tests/fixtures (3A ap/lf, 3A 276-channel subset, 3B ap/lf, 3B2 exported '
        '301-channel subset, 3B snsGeomMap 2023, NP2.1, NP2.1 prototype, NP2.4 one/four shanks incl. snsGeomMap 2023 and a split-shank '
        'file with NP2.4_shank, NPultra, nidq): either the fixture tables as they are (full channel count) or a MUTATED site table '
        '(1..40 sites: dense, shuffled, reversed, interleaved shanks, few distinct rows/cols with exact duplicates) with non-uniform '
        'imro gains / varied imAiRangeMax, imMaxInt, nidq group counts and gains; random int16 content with planted extremes; .bin and '
        '.cbin (mtscomp chunks of 2..9 samples so slices straddle chunks); sort True/False.  Per recording: raw_channel_order, the '
        'volts-per-bit vector (bit patterns), every geometry vector, and 12-16 reads through sr[nsel, csel], sr[item] (lone int, NumPy int, slice, list/array of samples incl. length 2, tuples of ints), sr.read and '
        'sr.read_samples with boundary-biased selectors (ints incl. -n, n, out of range; NumPy integers; slices with every None/sign '
        'pattern, steps +-1..3, +-n, huge, 0; lists/arrays incl. empty, duplicates, negative, out of range; empty selectors) compared '
        'as shape + float32 bit patterns or exception class; for a third of the reads the specification selectM is also compared with '
        'NumPy indexing of the raw integer array.  Statefulness: all operations of a recording run on ONE Reader object; 30 % of the cases '
        'call three times with the same argument objects, 15 % interleave other library calls (geometry_from_meta, '
        '_conversion_sample2v_from_meta, _get_nshanks_from_meta, trace_header, range_volts, read_sync, other reads) between two identical '
        'calls: every call must return the model answer for the original values; 30 % of the recordings (and every unchanged fixture) '
        'are opened a second time (after a reader with the other sort mode) and geometry_from_meta is called again: order, gains, geometry '
        'and data must equal the first reader.  The first 34 recordings are the 17 fixtures unchanged (sorted .bin, unsorted .cbin).  Plus an exhaustive box of slice(start, stop, step).indices(n) / '
        'integer indices against CPython.  Non-trivial = permutation not the identity, or non-uniform gains, or a step other than '
        'None/1; distinct by (recording, operation).  Header variants: a quarter of the imec recordings (every family, fixture tables and '
        'mutated ones, channel subsets) are saved WITHOUT their sync word (snsApLfSy=n,0,0 / 0,n,0, nSavedChans=n).  The model receives '
        'the meta ENTRIES (nSavedChans, snsApLfSy, the whole imro table with both gain columns): band, table cut and sync ones are its own '
        'decisions, compared as the float32 vector, as sr.type and as sr.nsync / _get_sync_trace_indices_from_meta.  On imec recordings '
        'read_samples (all spellings, incl. module-level spikeglx.read) and sr.read(slice, csel) with sync=True (default or explicit) are '
        'compared as PAIRS (data bit patterns + the 16 sync bits per row; 0 rows when the sync word is not saved).  For the first 30 '
        '(thorough 1500) recordings ALL 65 536 int16 values are pushed through float32(x) * g for an electrode factor, the last '
        "channel's factor and a random power of two (checksum of the bit patterns + number of exact products).  A broken translator tie "
        'triples the number of recordings of a quick run.')
ASSUMPTIONS = [
    'ns >= 1 (np.memmap cannot map an empty file); int16 content; list selectors hold integers (boolean masks are not index lists and are not generated)',
    'a list x list selector is compared with the outer-product layout the code produces (DESIGN §8), not with NumPy pointwise pairing',
    'which exception is reported when BOTH selectors are invalid is not part of the property: the specification validates the channel selector first, like the code',
    'on .cbin files list/array sample selectors are outside the property (mtscomp raises NotImplementedError; the model follows it)',
    'known findings on .cbin (model follows the code, theorem carries the excluding hypothesis, oracle excludes exactly them): negative-step sample slice -> empty (F17); Python int sample index < -ns wraps; NumPy integer sample index -> empty',
    'sr[t] with a tuple t of another length than two (the code hands it to read as the sample selector; NumPy itself would reject A[i, j, k]) is outside the property: the model follows the code for tuples of Python ints, the oracle does not use them',
    'site-table keys (shank, row, col) are integer valued (asserted on every generated table); the geometry conversion itself (col flip, x/y) belongs to C08: the unsorted geometry of the real code is the input of the order model',
    'read_samples / read(sync=True): on imec recordings both parts of the pair are compared (sample selector a slice; the bit layout line k = bit k is the specification here, its derivation from split_sync is C10); on nidq recordings only the data part (Reader.read_sync is stubbed during the call: analog sync thresholding is C10); read(list or int, csel, sync=True) is not generated (the sync part pairs a sample list with the channel list NumPy-pointwise: C10)',
    'imec metadata is consistent: 0 <= nsync <= nSavedChans, the band is decidable (exactly one of the AP / LF counts is zero), the imro table has an entry for every saved electrode channel (it may be longer); a recording saved without its sync word (nsync = 0) is inside the property',
    'ties of (shank, row, col): the model breaks them by on-disk index (np.lexsort is stable) and proves that; the comparison of raw_channel_order with the model and the oracle accept any order among electrodes with identical (shank, row, col), as the property does; the reads are then modelled with the order the reader reports',
    'input forms: the representation of a call is drawn independently of its value (NumPy integer scalars of 8 dtypes, slice bounds as NumPy ints, index sequences as list / int64 array / arrays of 8 integer dtypes / list of NumPy ints / boolean mask array or list / range / tuple (samples, .bin), read and read_samples by keyword or positionally in the current signature order, spikeglx.read as alternative entry of read_samples, Reader built from str or Path, by keyword, fully positionally, with dtype=np.int16, or open=False then open()); the model and the oracle work on the VALUE (a mask is its index list); a form that cannot hold the value falls back to the plain one',
    'unsupported forms, never produced: a TUPLE as channel selector (known finding tuple_channel_selector), tuples / ranges of samples on a .cbin (mtscomp), float / Ellipsis / None selectors',
    'purity: whether a call modified its selector objects or a reader attribute is only recorded (info: tags, none on the current tree); a disagreement is reported only through results (a later call of the sequence returning something else than the model of the original values); results are never overwritten by the harness',
    'metadata describing more sites than saved channels (Reader.__init__ raises ValueError) is outside the property; generated rarely to compare the error branch',
]
TRUSTED = [
    'NumPy basic/advanced indexing on ndarray/memmap is what Model/PySlice.lean + Reader.axisSel say (compared exhaustively on a small box with CPython/NumPy each run)',
    'Lean Float32/Float arithmetic and Float.toFloat32 / Float32.ofInt are IEEE-754 round-to-nearest-even like NumPy (bit patterns compared on every case)',
    'mtscomp.Reader.__getitem__ is an external component: transcribed in Reader.rowsCbin and compared on every .cbin case, not verified',
    'np.lexsort is a stable sort (model: merge sort on (key, index) pairs)',
    'standard model of IEEE-754 rounding for the exact-case theorems: an operation returns the correctly rounded exact result and rounding fixes representable numbers (float32_exact_cases is stated for any such rounding)',
    'translator tie: harness/pyfn2lean.py (reading of the source text) and the per-item assumptions of harness/tiespecs/c01.py (imec metadata: the nidq test of _get_type_from_meta is false; Reader.__init__ on a file with a .meta and a geometry)',
    'Lemmas/ChunkRead.lean (C02) for the chunk-level transcription of mtscomp used by cbin_read_independent_of_chunk_layout',
]

FIX = None   # fixtures directory, set lazily from the repo under test

logging.getLogger('ibllib').setLevel(logging.CRITICAL)

NP1_GAINS = [50, 125, 250, 500, 1000, 1500, 2000, 3000]

# fixture -> kind of probe metadata ('np1' = gains from imroTbl, 'np2' = fixed gain 80, 'nidq')
FIXTURES = [
    # name, family, band, site map kind, grid (ncols of the synthetic tables, geom-map conversion), max shanks
    ('sample3A_g0_t0.imec.ap.meta', 'np1', 'ap', 'shank', 1, 1),
    ('sample3A_g0_t0.imec.lf.meta', 'np1', 'lf', None, 1, 1),
    ('sample3A_376_channels.ap.meta', 'np1', 'ap', 'shank', 1, 1),
    ('sample3A_short_g0_t0.imec.ap.meta', 'np1', 'ap', 'shank', 1, 1),
    ('sample3B_g0_t0.imec1.ap.meta', 'np1', 'ap', 'shank', 1, 1),
    ('sample3B_g0_t0.imec1.lf.meta', 'np1', 'lf', None, 1, 1),
    ('sample3B_catgt.ap.meta', 'np1', 'ap', 'shank', 1, 1),
    ('sample3B2_exported.imec0.ap.meta', 'np1', 'ap', 'shank', 1, 1),
    ('sample3B_version202304.ap.meta', 'np1', 'ap', 'geom', 1, 1),
    ('sampleNP2.1_g0_t0.imec.ap.meta', 'np2', 'ap', 'shank', 2, 1),
    ('sampleNP2.1_prototype.ap.meta', 'np2', 'ap', 'shank', 2, 1),
    ('sampleNP2.4_1shank_g0_t0.imec.ap.meta', 'np2', 'ap', 'shank', 2, 4),
    ('sampleNP2.4_4shanks_g0_t0.imec.ap.meta', 'np2', 'ap', 'shank', 2, 4),
    ('sampleNP2.4_4shanks_appVersion20230905.ap.meta', 'np2', 'ap', 'geom', 2, 4),
    ('sampleNP2.4_4shanks_while_acquiring_incomplete.ap.meta', 'np2', 'ap', 'shank', 2, 4),
    ('sampleNPultra_g0_t0.imec0.ap.meta', 'np1', 'ap', 'shank', 'NPultra', 1),
    ('sample3B_g0_t0.nidq.meta', 'nidq', 'nidq', None, None, 0),
]


def _fixdir():
    global FIX
    if FIX is None:
        import spikeglx
        FIX = Path(spikeglx.__file__).parent / 'tests' / 'fixtures'
    return FIX


# ---------------------------------------------------------------------------------------------
# recording specifications (pure functions of an rng) and their realisation on disk
# ---------------------------------------------------------------------------------------------
def _meta_lines(name):
    return (_fixdir() / name).read_text().splitlines()


def _get(lines, key):
    for l in lines:
        k, _, v = l.partition('=')
        if k.lstrip('~') == key:
            return v
    return None


def _fmt_float(x):
    s = repr(float(x))
    assert re.fullmatch('[0-9.]*', s), s
    return s


def _site_table(rng, m, ncols, nshank):
    """m synthetic (shank, col, row) entries, several layouts; few distinct values so that ties occur"""
    style = int(rng.integers(0, 6))
    dense = [(0, i % ncols, i // ncols) for i in range(m)]
    if style == 0:
        tab = dense
    elif style == 1:
        tab = [dense[i] for i in rng.permutation(m)]
    elif style == 2:
        tab = dense[::-1]
    elif style == 3:   # interleaved shanks, dense within each
        tab = [(i % nshank, (i // nshank) % ncols, (i // nshank) // ncols) for i in range(m)]
    elif style == 4:   # few distinct rows / cols / shanks, exact duplicates likely
        nr = int(rng.integers(1, 4))
        r0 = int(rng.integers(0, 470))
        tab = [(int(rng.integers(0, nshank)), int(rng.integers(0, ncols)), r0 + int(rng.integers(0, nr))) for _ in range(m)]
    else:              # random rows over the whole probe, shuffled shanks
        tab = [(int(rng.integers(0, nshank)), int(rng.integers(0, ncols)), int(rng.integers(0, 480))) for _ in range(m)]
    return tab, ['dense', 'shuffled', 'reversed', 'interleaved', 'ties', 'random'][style]


def gen_spec(rng, k, quick=True):
    """One recording + its operations, everything needed to rebuild it (JSON-able)."""
    name, fam, band, mapkind, grid, maxshank = FIXTURES[int(rng.integers(0, len(FIXTURES)))] if k >= len(FIXTURES) * 2 \
        else FIXTURES[k % len(FIXTURES)]
    lines = _meta_lines(name)
    over = {}
    spec = {'k': k, 'fixture': name, 'family': fam, 'band': band}
    forced = k < 2 * len(FIXTURES)     # every fixture as it is: sorted on a .bin (k < 17), unsorted on a .cbin (17 <= k < 34)
    mutate = (not forced) and bool(rng.random() < 0.8)
    spec['mutated'] = mutate
    nsync = 1
    if fam == 'nidq':
        if mutate:
            mn, ma, xa, dw = (int(rng.integers(0, 4)) for _ in range(4))
            if mn + ma + xa + dw == 0:
                xa = 1
            over['snsMnMaXaDw'] = f'{mn},{ma},{xa},{dw}'
            over['acqMnMaXaDw'] = over['snsMnMaXaDw']
            over['nSavedChans'] = str(mn + ma + xa + dw)
            over['niMNGain'] = _fmt_float(rng.choice([1, 3, 200, 7.5, 100]))
            over['niMAGain'] = _fmt_float(rng.choice([1, 3, 200, 7.5, 10]))
            over['niAiRangeMax'] = _fmt_float(rng.choice([5, 2.5, 10, 1.2]))
        else:
            mn, ma, xa, dw = (int(float(x)) for x in _get(lines, 'snsMnMaXaDw').split(','))
        nc = mn + ma + xa + dw
        spec['table_style'] = 'none'
    else:
        nc0 = int(_get(lines, 'nSavedChans'))
        nsync0 = int(_get(lines, 'snsApLfSy').split(',')[2])
        nchn = nc0 - nsync0
        # legal header variant: the sync word is not saved (snsApLfSy=n,0,0, nSavedChans = number of electrode channels)
        nsync = 0 if (not forced and rng.random() < 0.25) else nsync0
        spec['nsync'] = nsync
        spec['table_style'] = 'fixture'
        if nsync != nsync0:
            over['nSavedChans'] = str(nchn + nsync)
            over['snsApLfSy'] = f'{nchn},0,{nsync}' if band == 'ap' else f'0,{nchn},{nsync}'
            sub = _get(lines, 'snsSaveChanSubset')
            if sub is not None and ',' in sub:
                over['snsSaveChanSubset'] = sub.rsplit(',', 1)[0]
        if mutate:
            if rng.random() < 0.5:
                over['imAiRangeMax'] = _fmt_float(rng.choice([0.6, 0.5, 0.62, 1.2, 0.7]))
            if rng.random() < 0.5 or (fam == 'np2' and _get(lines, 'imMaxInt') is None):
                over['imMaxInt'] = str(int(rng.choice([512, 8192, 2048, 1024])))
            if mapkind is not None:
                # new site table with m entries, m + nsync saved channels
                m = int(rng.choice([1, 2, 3, 4, 5, 7, 8, 12, 16, 24, 40], p=[.05, .08, .1, .1, .1, .1, .12, .12, .1, .08, .05]))
                ncols = {1: 2, 2: 2, 'NPultra': 8}[grid] if mapkind == 'shank' else {1: 4, 2: 2}[grid]
                nshank = max(1, min(maxshank, 4)) if rng.random() < 0.8 else max(1, maxshank)
                tab, style = _site_table(rng, m, ncols, nshank)
                spec['table_style'] = style
                if mapkind == 'shank':
                    hdr = _get(lines, 'snsShankMap').split(')')[0] + ')'
                    over['snsShankMap'] = hdr + ''.join(f'({s}:{c}:{r}:1)' for s, c, r in tab)
                else:
                    hdr = _get(lines, 'snsGeomMap').split(')')[0] + ')'
                    if grid == 1:    # code: x -> 70 - x, y -> y + 20, then (x - 11) / 16, (y - 20) / 20
                        ent = [(s, 59 - 16 * c, 20 * r) for s, c, r in tab]
                    else:            # (x - 27) / 32, (y + 20 - 20) / 15
                        ent = [(s, 27 + 32 * c, 15 * r) for s, c, r in tab]
                    over['snsGeomMap'] = hdr + ''.join(f'({s}:{x}:{y}:1)' for s, x, y in ent)
                nchn = m
                if m > 1 and rng.random() < 0.03:
                    # inconsistent metadata: more sites described than channels saved -> Reader.__init__ cannot assign
                    # the geometry index (ValueError); outside the property, exercises the model's error branch
                    nchn = int(rng.integers(1, m))
                    spec['inconsistent'] = True
                over['nSavedChans'] = str(nchn + nsync)
                over['snsApLfSy'] = f'{nchn},0,{nsync}' if band == 'ap' else f'0,{nchn},{nsync}'
                over['snsSaveChanSubset'] = f'0:{nchn - 1},768' if nsync else f'0:{nchn - 1}'
            if fam == 'np1':
                # non-uniform gain table; the imro table may be longer than the saved channels (the code cuts it)
                extra = int(rng.integers(0, 3)) if mapkind is not None else 0
                six = len(re.findall(r'\(([0-9 ]+)\)', _get(lines, 'imroTbl'))[0].split()) == 6
                ent = []
                for c in range(nchn + extra):
                    ap, lf = int(rng.choice(NP1_GAINS)), int(rng.choice(NP1_GAINS))
                    ent.append(f'({c} {int(rng.integers(0, 3))} 0 {ap} {lf}' + (' 1)' if six else ')'))
                hdr = _get(lines, 'imroTbl').split(')')[0] + ')'
                over['imroTbl'] = hdr + ''.join(ent)
        nc = nchn + nsync
        # a split-shank file as written by NP2Converter: whole site table, only one shank's channels saved
        if name == 'sampleNP2.4_4shanks_g0_t0.imec.ap.meta' and not mutate and not forced and rng.random() < 0.7:
            sh = int(rng.integers(0, 4))
            shanks = [int(e.split(':')[0]) for e in re.findall(r'\(([0-9]*:[0-9]*:[0-9]*:[0-9]*)\)', _get(lines, 'snsShankMap'))]
            m = sum(1 for s in shanks if s == sh)
            over['NP2.4_shank'] = str(sh)
            over['nSavedChans'] = str(m + nsync)
            over['snsApLfSy'] = f'{m},0,{nsync}'
            nc = m + nsync
            spec['table_style'] = 'split-shank'
    spec['nc'] = nc
    big = nc > 60
    ns = int(rng.choice([1, 2, 3, 5, 8, 12])) if big else int(rng.choice([1, 2, 3, 4, 5, 7, 10, 16, 23, 37], p=[.04, .06, .08, .1, .1, .12, .15, .15, .1, .1]))
    spec['ns'] = ns
    spec['backend'] = 'cbin' if rng.random() < 0.45 else 'bin'
    spec['chunk'] = int(rng.integers(2, 10))
    spec['sort'] = bool(rng.random() < 0.65)
    if forced:
        spec['sort'], spec['backend'] = (True, 'bin') if k < len(FIXTURES) else (False, 'cbin')
    spec['data_seed'] = int(rng.integers(0, 2 ** 31))
    spec['over'] = over
    spec['ops'] = gen_ops(rng, ns, nc, spec['backend'], big, fam)
    # call sequence of every operation (see run_sequence) and whether lists are handed over as ndarrays
    spec['modes'] = [[MODES[int(rng.choice(3, p=[.55, .3, .15]))], gen_form(rng)] for _ in spec['ops']]
    spec['ctor'] = str(rng.choice(CTOR_FORMS))
    spec['reopen'] = bool(rng.random() < 0.3) or forced      # the unchanged fixtures are always opened a second time
    return spec


def _gen_int(rng, n):
    c = int(rng.integers(0, 10))
    if c < 5:
        return int(rng.integers(-n, n))
    return [0, n - 1, -1, -n, n, -n - 1, n + int(rng.integers(0, 5)), -n - 1 - int(rng.integers(0, 2 * n + 3)), n // 2, -(n // 2) - 1][int(rng.integers(0, 10))]


def _gen_bound(rng, n):
    if rng.random() < 0.3:
        return None
    c = int(rng.integers(0, 12))
    if c < 4:
        return int(rng.integers(-n - 3, n + 4))
    return [0, 1, n - 1, n, n + 1, -1, -n, -n - 1, -n + 1, 10 ** 6, -10 ** 6, n // 2][c]


def _gen_step(rng, n):
    u = rng.random()
    if u < 0.3:
        return None
    if u < 0.32:
        return 0
    return [1, 2, 3, -1, -2, -3, n, -n, n + 1, -n - 1, 10 ** 6, -10 ** 6, 1, -1][int(rng.integers(0, 14))]


def _gen_list(rng, n, maxlen=6):
    ln = int(rng.integers(0, min(maxlen, 2 * n) + 1))
    l = [int(rng.integers(-n, n)) for _ in range(ln)]
    if ln and rng.random() < 0.06:
        l[int(rng.integers(0, ln))] = n if rng.random() < 0.5 else -n - 1
    return l


def gen_sel(rng, n, kinds='isl', big=False):
    """selector as a protocol token: i:<int> n:<int> s:a:b:c l:..."""
    u = rng.random()
    if u < 0.22:
        return f'i:{_gen_int(rng, n)}'
    if u < 0.28:
        return f'n:{_gen_int(rng, n)}'
    if u < 0.70:
        a, b, c = _gen_bound(rng, n), _gen_bound(rng, n), _gen_step(rng, n)
        if big and rng.random() < 0.6:   # keep full-width outputs of 385-channel recordings rare
            a, b = int(rng.integers(-n, n)), None
            b = a + int(rng.integers(0, 9)) if a >= 0 else (min(a + int(rng.integers(0, 9)), -1) if a < -1 else None)
            c = c if c in (None, 1, 2, 3) else 1
        if c != 0 and len(range(*slice(a, b, c).indices(n))) == 0 and rng.random() < 0.6:
            a, b = b, a       # orient the bounds with the step: fewer empty selections
        return 's:' + ':'.join('_' if v is None else str(v) for v in (a, b, c))
    if u < 0.76:
        return 's:_:_:_'
    return 'l:' + (','.join(map(str, _gen_list(rng, n))) or '-')


def _gen_slice(rng, n, big=False):
    s = gen_sel(rng, n, big=big)
    while not s.startswith('s:'):
        s = gen_sel(rng, n, big=big)
    return s


def gen_ops(rng, ns, nc, backend, big, fam='np1'):
    ops = []
    for _ in range(int(rng.integers(8, 12))):
        via = 'getitem' if rng.random() < 0.7 else 'read'
        nsel = gen_sel(rng, ns)
        if backend == 'cbin' and nsel.startswith('l:') and rng.random() < 0.7:
            nsel = gen_sel(rng, ns)       # lists of samples on .cbin only raise NotImplementedError: keep them rarer
        ops.append(['read', via, nsel, gen_sel(rng, nc, big=big)])
    # the classic whole-array reads and a reversed one
    ops.append(['read', 'getitem', 's:_:_:_', 's:_:_:_'])
    ops.append(['read', 'getitem', 's:_:_:-1' if backend == 'bin' or rng.random() < 0.3 else 's:_:_:2', 's:_:_:-1'])
    # lone selectors sr[item]: int, slice, NumPy integer, list / array of samples (length 2 included), tuples of ints
    for _ in range(3):
        u = rng.random()
        if u < 0.25:
            ops.append(['item1', f'i:{_gen_int(rng, ns)}'])
        elif u < 0.50:
            s = gen_sel(rng, ns)
            while not s.startswith('s:'):
                s = gen_sel(rng, ns)
            ops.append(['item1', s])
        elif u < 0.62:     # exactly two elements: used to be mistaken for (nsel, csel)
            ops.append(['item1', 'l:' + ','.join(str(_gen_int(rng, ns) if rng.random() < 0.15 else int(rng.integers(-ns, ns))) for _ in range(2))])
        elif u < 0.80:
            ops.append(['item1', 'l:' + (','.join(map(str, _gen_list(rng, ns, maxlen=5))) or '-')])
        elif u < 0.88:
            ops.append(['item1', f'n:{_gen_int(rng, ns)}'])
        elif u < 0.94:
            ops.append(['itemt', gen_sel(rng, ns), gen_sel(rng, nc, big=big)])
        else:
            ops.append(['itemi', ','.join(str(int(rng.integers(-ns, ns + 1))) for _ in range(int(rng.choice([0, 1, 2, 3, 4])))) or '-'])
    # read_samples(first, last, channels)
    a = int(rng.integers(-ns - 1, ns + 2))
    b = int(rng.integers(-ns - 1, ns + 2))
    ch = 'none' if rng.random() < 0.4 else gen_sel(rng, nc, big=big)
    ops.append(['rs', a, b, ch])
    if fam != 'nidq':
        # read(slice, csel) with sync=True (the default): calibrated data AND the sync bits of the same samples
        ops.append(['rp', _gen_slice(rng, ns), gen_sel(rng, nc, big=big), 'default' if rng.random() < 0.6 else 'true'])
        if rng.random() < 0.5:
            a = int(rng.integers(-ns - 1, ns + 2))
            ops.append(['rs', a, a + int(rng.integers(-1, ns + 2)), 'none' if rng.random() < 0.5 else gen_sel(rng, nc, big=big)])
    return ops


def _data(spec):
    rng = np.random.default_rng(spec['data_seed'])
    ns, nc = spec['ns'], spec['nc']
    D = rng.integers(-32768, 32768, size=(ns, nc)).astype(np.int16)
    ext = np.array([-32768, 32767, 0, -1, 1, 16384, -16385], dtype=np.int16)
    mask = rng.random((ns, nc)) < 0.08
    D[mask] = ext[rng.integers(0, ext.size, size=int(mask.sum()))]
    return D


def open_reader(file, sort, ctor='path-kw'):
    """spikeglx.Reader(file, sort=sort) in one of its spellings (CTOR_FORMS); 'positional' follows the current signature
    (sglx_file, open, nc, ns, fs, dtype, s2v, nsync, ignore_warnings, meta_file, ch_file, sort)"""
    import spikeglx
    if ctor == 'str-kw':
        return spikeglx.Reader(str(file), sort=sort)
    if ctor == 'positional':
        return spikeglx.Reader(str(file), True, None, None, None, 'int16', None, None, False, None, None, sort)
    if ctor == 'dtype-np':
        return spikeglx.Reader(Path(file), dtype=np.int16, sort=sort)
    if ctor == 'open-later':
        sr = spikeglx.Reader(Path(file), open=False, sort=sort)
        sr.open()
        return sr
    return spikeglx.Reader(Path(file), sort=sort)


CTOR_TEXT = {'path-kw': 'spikeglx.Reader(Path(file), sort=sort)', 'str-kw': 'spikeglx.Reader(str(file), sort=sort)',
             'positional': "spikeglx.Reader(str(file), True, None, None, None, 'int16', None, None, False, None, None, sort)",
             'dtype-np': 'spikeglx.Reader(Path(file), dtype=np.int16, sort=sort)',
             'open-later': 'sr = spikeglx.Reader(Path(file), open=False, sort=sort); sr.open()'}


class Recording:
    """A synthetic recording on disk (removed by close())."""

    def __init__(self, spec, data=None):
        import spikeglx
        import mtscomp
        self.spec = spec
        self.tmp = Path(tempfile.mkdtemp(prefix='c01_'))
        lines = _meta_lines(spec['fixture'])
        self.D = _data(spec) if data is None else np.asarray(data, dtype=np.int16).reshape(spec['ns'], spec['nc'])
        ns, nc = self.D.shape
        over = dict(spec['over'])
        md0 = spikeglx.read_meta_data(_fixdir() / spec['fixture'])
        fs = spikeglx._get_fs_from_meta(md0)
        over['fileSizeBytes'] = str(ns * nc * 2)
        over['fileTimeSecs'] = f'{ns / fs:.12f}'
        out, seen = [], set()
        for l in lines:
            k, _, v = l.partition('=')
            kk = k.lstrip('~')
            if kk in over:
                l = f'{k}={over[kk]}'
                seen.add(kk)
            out.append(l)
        for kk, v in over.items():
            if kk not in seen:
                out.append(f'{kk}={v}')
        stem = spec['fixture'][:-len('.meta')]
        self.meta_file = self.tmp / (stem + '.meta')
        self.meta_file.write_text('\n'.join(out) + '\n')
        self.meta_text = out
        bin_file = self.tmp / (stem + '.bin')
        self.D.tofile(bin_file)
        self.file = bin_file
        if spec['backend'] == 'cbin':
            cbin = self.tmp / (stem + '.cbin')
            mtscomp.compress(bin_file, cbin, self.tmp / (stem + '.ch'), sample_rate=fs, n_channels=nc, dtype=np.int16,
                             chunk_duration=spec['chunk'] / fs, check_after_compress=False, n_threads=1, quiet=True)
            bin_file.unlink()
            self.file = cbin
        self.sr, self.open_error = None, None
        try:
            self.sr = open_reader(self.file, spec['sort'], spec.get('ctor', 'path-kw'))
        except Exception as e:
            if not spec.get('inconsistent'):
                shutil.rmtree(self.tmp, ignore_errors=True)
                raise
            self.open_error = 'err ' + type(e).__name__
            self.meta = spikeglx.read_meta_data(self.meta_file)
            return
        self.meta = self.sr.meta
        assert self.sr.ns == ns and self.sr.nc == nc, (self.sr.ns, ns, self.sr.nc, nc)
        self.snap = snapshot(self.sr)

    def close(self):
        try:
            if self.sr is not None:
                self.sr.close()
        finally:
            shutil.rmtree(self.tmp, ignore_errors=True)


# ---------------------------------------------------------------------------------------------
# running one operation on the real reader
# ---------------------------------------------------------------------------------------------
CTOR_FORMS = ('path-kw', 'str-kw', 'positional', 'dtype-np', 'open-later')
INT_DTYPES = ('int64', 'int32', 'int16', 'int8', 'uint64', 'uint32', 'uint16', 'uint8')


def _fits(v, dt):
    i = np.iinfo(dt)
    return i.min <= v <= i.max


def gen_form(rng):
    """the REPRESENTATION of a call, drawn independently of its value: integer dtypes, containers, masks, spelling"""
    return {'arr': bool(rng.random() < 0.5),
            'npint': str(rng.choice(INT_DTYPES)),
            'bounds': None if rng.random() < 0.5 else str(rng.choice(INT_DTYPES)),
            'seq': None if rng.random() < 0.45 else str(rng.choice(['tuple', 'mask', 'masklist', 'npints', 'range'] + ['nd:' + d for d in INT_DTYPES])),
            'call': str(rng.choice(['kw', 'pos', 'alt']))}


def py_sel(tok, form=False, axis='n', n=None, backend='bin'):
    """The Python object handed to the reader for a selector token.  `form` is a bool (lists as int64 arrays or not) or a
    form dict (gen_form); a form that cannot represent the value (negative in an unsigned dtype, mask of an unsorted
    list, ...) falls back to the plain one.  Forms the API does not support are never produced: a tuple as channel
    selector (known finding tuple_channel_selector), a tuple of samples on a .cbin, a lone tuple (that is `itemi`)."""
    f = form if isinstance(form, dict) else {'arr': bool(form)}
    kind, _, rest = tok.partition(':')
    if kind == 'i':
        return int(rest)
    if kind == 'n':
        v, dt = int(rest), f.get('npint') or 'int64'
        return getattr(np, dt if _fits(v, dt) else 'int64')(v)
    if kind == 's':
        dt = f.get('bounds')
        return slice(*[None if v == '_' else (getattr(np, dt)(int(v)) if dt and _fits(int(v), dt) else int(v)) for v in rest.split(':')])
    l = [] if rest == '-' else [int(v) for v in rest.split(',')]
    seq = f.get('seq')
    if seq == 'tuple' and axis == 'n' and backend == 'bin':
        return tuple(l)
    if seq in ('mask', 'masklist') and n is not None and all(0 <= v < n for v in l) and all(a < b for a, b in zip(l, l[1:])):
        m = np.zeros(n, dtype=bool)
        m[l] = True
        return m if seq == 'mask' else m.tolist()
    if seq == 'range' and len(l) >= 2 and all(v >= 0 for v in l) and l[1] != l[0] and all(b - a == l[1] - l[0] for a, b in zip(l, l[1:])) \
            and (axis == 'c' or backend == 'bin'):
        return range(l[0], l[-1] + (1 if l[1] > l[0] else -1), l[1] - l[0])
    if seq == 'npints':
        return [np.int64(v) if i % 2 else np.int32(v) for i, v in enumerate(l)]
    if seq and seq.startswith('nd:') and all(_fits(v, seq[3:]) for v in l):
        return np.array(l, dtype=seq[3:])
    return np.array(l, dtype=np.int64) if f.get('arr') else l


def render(x):
    """Python source text of a selector object (for replays)"""
    if isinstance(x, np.ndarray):
        return 'np.array(%r, dtype=np.%s)' % (x.tolist(), x.dtype)
    if isinstance(x, np.generic):
        return 'np.%s(%r)' % (type(x).__name__, x.item())
    if isinstance(x, slice):
        return 'slice(%s, %s, %s)' % tuple(render(v) for v in (x.start, x.stop, x.step))
    if isinstance(x, list):
        return '[' + ', '.join(render(v) for v in x) + ']'
    if isinstance(x, tuple):
        return '(' + ', '.join(render(v) for v in x) + (',)' if len(x) == 1 else ')')
    return repr(x)


def canon(r):
    if r is None:
        return 'ok none'
    if isinstance(r, tuple):
        return 'ok tuple'
    if isinstance(r, np.generic):     # a NumPy scalar is as good as a 0-d array
        r = np.asarray(r)
    if not isinstance(r, np.ndarray):
        return f'ok {type(r).__name__}'
    pre = 'ok' if r.dtype == np.float32 else f'ok[{r.dtype}]'
    bits = np.ascontiguousarray(r, dtype=r.dtype).reshape(-1)
    bits = bits.view(np.uint32).tolist() if r.dtype == np.float32 else bits.tolist()
    body = ','.join(map(str, bits)) or '-'
    if r.ndim == 0:
        return f'{pre} s {body}'
    if r.ndim == 1:
        return f'{pre} v {r.shape[0]} {body}'
    if r.ndim == 2:
        return f'{pre} m {r.shape[0]} {r.shape[1]} {body}'
    return f'{pre} ndim{r.ndim}'


def canon_sync(y):
    """the sync part of a pair: rows of 16 bits (values only: the dtype is not part of the property)"""
    if y is None:
        return 'sync none'
    y = np.asarray(y)
    if y.ndim != 2 or (y.shape[0] and y.shape[1] != 16):
        return 'sync shape%s' % (tuple(y.shape),)
    return 'sync %d %s' % (y.shape[0], ','.join(map(str, y.astype(np.int64).reshape(-1).tolist())) or '-')


def canon_pair(r):
    if not isinstance(r, tuple) or len(r) < 2:
        return canon(r) + ' | not a pair'
    return canon(r[0]) + ' | ' + canon_sync(r[1])


def canon_int(r):
    r = np.asarray(r)
    body = ','.join(map(str, r.reshape(-1).tolist())) or '-'
    if r.ndim == 0:
        return f'ok s {body}'
    if r.ndim == 1:
        return f'ok v {r.shape[0]} {body}'
    return f'ok m {r.shape[0]} {r.shape[1]} {body}'


def numpy_select(D, op, array_lists=False):
    array_lists = bool(array_lists.get('arr')) if isinstance(array_lists, dict) else array_lists
    """NumPy's own answer for D[nsel, :][..., csel] (the channel selector is looked at first, like the specification)"""
    A = D.astype(np.int64)
    try:
        A[0:1, :][..., py_sel(op[3], array_lists)]
        return canon_int(A[py_sel(op[2], array_lists), :][..., py_sel(op[3], array_lists)])
    except (IndexError, ValueError) as e:
        return 'err ' + type(e).__name__


def build_args(op, form=False, dims=(None, None), backend='bin'):
    """the Python selector objects of one operation, built ONCE (the same objects are handed to repeated calls)"""
    ns, nc = dims
    kn = dict(axis='n', n=ns, backend=backend)
    kc = dict(axis='c', n=nc, backend=backend)
    if op[0] == 'read':
        return [py_sel(op[2], form, **kn), py_sel(op[3], form, **kc)]
    if op[0] == 'item1':
        a = py_sel(op[1], form, **kn)
        return [list(a) if isinstance(a, tuple) else a]       # a lone tuple would be `itemi`
    if op[0] == 'itemt':
        return [py_sel(op[1], form, **kn), py_sel(op[2], form, **kc)]
    if op[0] == 'itemi':
        return [tuple([] if op[1] == '-' else [int(v) for v in op[1].split(',')])]
    if op[0] == 'rs':
        return [int(op[1]), int(op[2]), None if op[3] == 'none' else py_sel(op[3], form, **kc)]
    if op[0] == 'rp':
        return [py_sel(op[1], form, **kn), py_sel(op[2], form, **kc)]
    raise RuntimeError(op)


def call_spelling(spec, op, form):
    """which spelling of the call is used: keywords, positional in the order of the current signature, or an alternative
    entry point (module-level spikeglx.read for read_samples of all channels on a sorted imec recording)"""
    c = form.get('call', 'kw') if isinstance(form, dict) else 'kw'
    if (op[0] == 'read' and op[1] == 'read') or op[0] == 'rp':
        return 'pos' if c == 'pos' else 'kw'
    if op[0] == 'rs':
        if c == 'alt' and op[3] == 'none' and spec['sort'] and spec['family'] != 'nidq':
            return 'alt'
        return 'kw' if c == 'kw' else 'pos'
    return 'kw'


def _freeze(a):
    """a value that can be compared later to see whether the caller's argument object was modified"""
    if isinstance(a, np.ndarray):
        return ('nd', str(a.dtype), a.shape, a.tobytes())
    if isinstance(a, slice):
        return ('slice', a.start, a.stop, a.step)
    if isinstance(a, (list, tuple)):
        return (type(a).__name__, tuple(_freeze(x) for x in a))
    if isinstance(a, np.generic):
        return (type(a).__name__, a.item())
    return (type(a).__name__, repr(a))


def call_op(sr, op, args, spelling='kw', file=None, pair=False):
    """one call of the real reader; returns (canonical answer, returned object or None).  `pair`: an imec recording, whose
    read_samples / read(sync=True) results are compared as (data, sync bits); on nidq recordings only the data part is (the
    analog sync thresholding is C10's subject)"""
    try:
        if op[0] == 'read':
            if op[1] == 'getitem':
                r = sr[args[0], args[1]]
            elif spelling == 'pos':
                r = sr.read(args[0], args[1], False)
            else:
                r = sr.read(nsel=args[0], csel=args[1], sync=False)
        elif op[0] == 'item1':
            r = sr[args[0]]
        elif op[0] == 'itemt':
            r = sr[args[0], args[1]]
        elif op[0] == 'itemi':
            r = sr[args[0]]
        elif op[0] == 'rp':
            if spelling == 'pos':
                r = sr.read(args[0], args[1]) if op[3] == 'default' else sr.read(args[0], args[1], True)
            else:
                r = sr.read(nsel=args[0], csel=args[1]) if op[3] == 'default' else sr.read(nsel=args[0], csel=args[1], sync=True)
            return canon_pair(r), r
        elif op[0] == 'rs' and pair:
            if spelling == 'alt':
                import spikeglx
                r = spikeglx.read(str(file), args[0], args[1])
            elif spelling == 'kw':
                r = sr.read_samples(first_sample=args[0], last_sample=args[1], channels=args[2])
            else:
                r = sr.read_samples(args[0], args[1], args[2])
            return canon_pair(r), r
        elif op[0] == 'rs':
            if spelling == 'alt':
                import spikeglx
                r = spikeglx.read(str(file), args[0], args[1])
            else:
                # data part of read_samples only: the sync part (read_sync, C10) is stubbed; on synthetic nidq layouts
                # without digital sync words (snsMnMaXaDw = a,b,c,0) read_sync raises ValueError, which is not C01's subject
                sr.read_sync = lambda *a, **k: None
                try:
                    if spelling == 'kw':
                        r = sr.read_samples(first_sample=args[0], last_sample=args[1], channels=args[2])
                    else:
                        r = sr.read_samples(args[0], args[1], args[2])
                finally:
                    del sr.read_sync
            r = r[0]
        else:
            raise RuntimeError(op)
    except (IndexError, ValueError, NotImplementedError, TypeError) as e:
        return 'err ' + type(e).__name__, None
    return canon(r), r


def snapshot(sr):
    """everything a read depends on besides the file: must be bit-identical after any number of reads"""
    d = {'raw_channel_order': np.asarray(sr.raw_channel_order).tobytes(),
         'meta': repr(sorted((str(k), repr(v)) for k, v in sr.meta.items()))}
    for k, v in sr.channel_conversion_sample2v.items():
        d['channel_conversion_sample2v[%s]' % k] = (str(np.asarray(v).dtype), np.asarray(v).tobytes())
    if sr.geometry is not None:
        for k, v in sr.geometry.items():
            d['geometry[%s]' % k] = (str(np.asarray(v).dtype), np.asarray(v).tobytes())
    return d


def interleave(R):
    """Other library calls between two identical reads.  Nothing is modified by the harness: whatever these functions do in
    place, they do to their own data (th['y'] += 20, th['flag'] = ..., analog -= percentile, ...)."""
    import spikeglx
    import neuropixel
    sr = R.sr
    done = []
    for name, f in (
            ('spikeglx.geometry_from_meta(sr.meta, sort=True)', lambda: spikeglx.geometry_from_meta(sr.meta, sort=True)),
            ('spikeglx.geometry_from_meta(sr.meta, sort=False)', lambda: spikeglx.geometry_from_meta(sr.meta, sort=False)),
            ('spikeglx._conversion_sample2v_from_meta(sr.meta)', lambda: spikeglx._conversion_sample2v_from_meta(sr.meta)),
            ('spikeglx._get_nshanks_from_meta(sr.meta)', lambda: spikeglx._get_nshanks_from_meta(sr.meta)),
            ('neuropixel.trace_header(version=1)', lambda: neuropixel.trace_header(version=1)),
            ('sr.range_volts', lambda: sr.range_volts),
            ('sr.read_sync(slice(0, 2))', lambda: sr.read_sync(slice(0, 2))),
            ('sr[0:2, :]', lambda: sr[0:2, :]),
            ('sr.read(nsel=slice(None), csel=[0], sync=False)', lambda: sr.read(nsel=slice(None), csel=[0], sync=False)),
    ):
        try:
            f()
            done.append(name)
        except Exception:
            pass
    return done


MODES = ('plain', 'repeat', 'interleave')


def run_sequence(R, op, array_lists=False, mode='plain'):
    """The call sequence of one case on the SAME Reader object with the SAME argument objects:
    plain: one call; repeat: three calls; interleave: call, other library calls, call again.
    Whether the argument objects or the reader's attributes were modified is only RECORDED (flags): the demand is on the
    results, every call of the sequence must return the model's answer for the ORIGINAL argument values.
    Returns (answers, flags, sequence)."""
    sr = R.sr
    args = build_args(op, array_lists, R.D.shape, R.spec['backend'])
    spelling = call_spelling(R.spec, op, array_lists)
    keep = [_freeze(a) for a in args]
    answers, flags, seq = [], [], []
    for x in args:        # the applied representation, for the input distribution
        if isinstance(x, np.ndarray):
            flags.append('form:ndarray[%s]' % x.dtype)
        elif isinstance(x, np.generic):
            flags.append('form:np.%s scalar' % type(x).__name__)
        elif isinstance(x, slice):
            b = [v for v in (x.start, x.stop, x.step) if isinstance(v, np.generic)]
            flags.append('form:slice[%s bounds]' % (type(b[0]).__name__ if b else 'int'))
        elif isinstance(x, list):
            flags.append('form:list of bool' if x and isinstance(x[0], bool) else 'form:list of NumPy ints' if x and isinstance(x[0], np.generic) else 'form:list')
        elif isinstance(x, (tuple, range)):
            flags.append('form:' + type(x).__name__)
    if op[0] in ('rs', 'rp') or (op[0] == 'read' and op[1] == 'read'):
        flags.append('form:call=' + spelling)

    def once():
        a, _ = call_op(sr, op, args, spelling, R.file, pair=R.spec['family'] != 'nidq')
        answers.append(a)
        seq.append('r%d = %s' % (len(answers), op_call_text(op, args, spelling)))
        if any(_freeze(x) != y for x, y in zip(args, keep)):
            flags.append('argument-object-modified')
            seq.append('(the selector object now holds %s)' % ', '.join(
                render(x) for x in args))
            keep[:] = [_freeze(x) for x in args]

    once()
    if mode == 'repeat':
        once()
        once()
    elif mode == 'interleave':
        seq.extend(interleave(R))
        once()
    now = snapshot(sr)
    if any(now.get(k) != v for k, v in R.snap.items()):
        flags.append('reader-attribute-modified')
        R.snap = now
    return answers, flags, seq


def op_call_text(op, args, spelling='kw'):
    a = [render(x) for x in args]
    if op[0] == 'read':
        if op[1] == 'getitem':
            return 'sr[%s, %s]' % (a[0], a[1])
        return ('sr.read(%s, %s, False)' if spelling == 'pos' else 'sr.read(nsel=%s, csel=%s, sync=False)') % (a[0], a[1])
    if op[0] in ('item1', 'itemi'):
        return 'sr[%s]' % a[0]
    if op[0] == 'itemt':
        return 'sr[%s, %s]' % (a[0], a[1])
    if op[0] == 'rp':
        if spelling == 'pos':
            return ('sr.read(%s, %s)' if op[3] == 'default' else 'sr.read(%s, %s, True)') % (a[0], a[1])
        return ('sr.read(nsel=%s, csel=%s)' if op[3] == 'default' else 'sr.read(nsel=%s, csel=%s, sync=True)') % (a[0], a[1])
    if spelling == 'alt':
        return 'spikeglx.read(str(file), %s, %s)[0:2]' % (a[0], a[1])
    return ('sr.read_samples(first_sample=%s, last_sample=%s, channels=%s)' if spelling == 'kw' else 'sr.read_samples(%s, %s, %s)') % tuple(a) \
        + ' (data part; on an imec recording also the sync part)'


def run_op(R, op, array_lists=False, mode='plain'):
    """(canonical answer of a case, flags): the common answer of all calls of its sequence, or which call deviated"""
    answers, flags, seq = run_sequence(R, op, array_lists, mode)
    if any(a != answers[0] for a in answers):
        k = next(i for i, a in enumerate(answers) if a != answers[0])
        return 'UNSTABLE call %d returned %s, call 1 returned %s | sequence: %s' % (k + 1, answers[k][:80], answers[0][:80], ' ; '.join(seq)), flags
    return answers[0], flags


def reopen_check(R):
    """A second Reader on the same files and geometry_from_meta called again must give what the first gave.
    Returns a list of problems (concrete call sequences)."""
    import spikeglx
    sr, spec = R.sr, R.spec
    problems = []
    first = geom_canon(sr.geometry)
    for n in (1, 2):
        again = geom_canon(spikeglx.geometry_from_meta(sr.meta, sort=spec['sort']))
        if again != first:
            problems.append(f'spikeglx.geometry_from_meta(sr.meta, sort={spec["sort"]}) call {n} after the reader was built differs from sr.geometry')
            break
    spikeglx.Reader(R.file, sort=not spec['sort']).close()      # a reader with the other sort mode in between
    sr2 = spikeglx.Reader(R.file, sort=spec['sort'])
    try:
        s1, s2 = snapshot(sr), snapshot(sr2)
        for k in s1:
            if k != 'meta' and s1[k] != s2.get(k):
                problems.append(f'a second spikeglx.Reader(file, sort={spec["sort"]}) on the same files has a different {k}')
        a1 = call_op(sr, ['read', 'getitem', 's:_:_:_', 's:_:_:_'], [slice(None), slice(None)])[0]
        a2 = call_op(sr2, ['read', 'getitem', 's:_:_:_', 's:_:_:_'], [slice(None), slice(None)])[0]
        if a1 != a2:
            problems.append('sr2[:, :] of a second Reader on the same files differs from sr[:, :]')
    finally:
        sr2.close()
    return problems


def op_line(op, spec=None):
    if op[0] == 'read':
        return f'read {op[2]} {op[3]}'
    if op[0] == 'rp':
        return f'rp {op[1]} {op[2]}'
    if op[0] == 'rs' and spec is not None and spec['family'] != 'nidq':
        return f'rsp {op[1]} {op[2]} {op[3]}'
    return ' '.join(str(x) for x in op)


def _f64bits(x):
    return int(np.array([x], dtype='<f8').view('<u8')[0])


def rec_lines(R):
    """protocol lines that load the recording into the driver + the implementation's answers for order / gains"""
    import spikeglx
    spec, sr = R.spec, R.sr
    md = R.meta
    ns, nc = R.D.shape
    lines = [f"rec {spec['backend']} {ns} {nc} " + ','.join(map(str, R.D.reshape(-1).tolist()))]
    impl = ['ok']
    # order: the model gets the UNSORTED, UNSPLIT site keys of the real code
    md2 = {k: v for k, v in md.items() if k != 'NP2.4_shank'}
    g0 = spikeglx.geometry_from_meta(md2, sort=False)
    if g0 is None:
        tbl = 'none'
    else:
        keys = np.c_[g0['shank'], g0['row'], g0['col']]
        assert np.all(keys == np.round(keys)), 'non-integer site key'
        tbl = ';'.join(f'{int(a)},{int(b)},{int(c)}' for a, b, c in keys)
    sh = md.get('NP2.4_shank')
    lines.append(f"order {int(spec['sort'])} {'_' if sh is None else int(sh)} {tbl}")
    if sr is None:     # the constructor raised (inconsistent metadata): only the order step is compared
        impl.append(R.open_error)
        return lines, impl, g0
    impl.append('ok ' + (','.join(map(str, np.asarray(sr.raw_channel_order).tolist())) or '-'))
    # the reads that follow use the order the implementation reports (the comparison of the two orders is modulo ties)
    lines.append('setorder ' + (','.join(map(str, np.asarray(sr.raw_channel_order).tolist())) or '-'))
    impl.append('ok')
    # gains: parameters parsed here from the meta TEXT, formulas in the model
    txt = {l.partition('=')[0].lstrip('~'): l.partition('=')[2] for l in R.meta_text}
    s2v = sr.channel_conversion_sample2v[sr.type]
    if spec['family'] == 'nidq':
        mn, ma, xa, dw = (int(float(x)) for x in txt['snsMnMaXaDw'].split(','))
        lines.append(f"gains nidq {_f64bits(float(txt['niAiRangeMax']))} {int(txt.get('imMaxInt', 32768))} "
                     f"{_f64bits(float(txt['niMNGain']))} {_f64bits(float(txt['niMAGain']))} {mn} {ma} {xa} {dw}")
        impl.append('ok ' + (','.join(map(str, np.asarray(s2v, dtype='<f8').view('<u8').tolist())) or '-') if s2v.dtype == np.float64
                    else f'ok[{s2v.dtype}]')
    else:
        # the model gets the meta ENTRIES (nSavedChans, snsApLfSy, the whole imro table): which band's gain column is used,
        # where the table is cut and which trailing channels are sync channels is decided by the model (Reader.s2vNp1 / s2vNp2)
        a, l, sy = (int(float(x)) for x in txt['snsApLfSy'].split(','))
        nsaved = int(txt['nSavedChans'])
        maxint = int(txt.get('imMaxInt', 512))
        rb = _f64bits(float(txt['imAiRangeMax']))
        if spec['family'] == 'np2':
            lines.append(f'gainsm np2 {rb} {maxint} {nsaved} {a} {l} {sy}')
        else:
            ent = re.findall(r'\(([0-9 ]+)\)', txt['imroTbl'])          # all entries (the header holds commas: no match)
            lines.append(f'gainsm np1 {rb} {maxint} {nsaved} {a} {l} {sy} ' + (','.join(e.split()[3] for e in ent) or '-') + ' '
                         + (','.join(e.split()[4] for e in ent) or '-'))
        impl.append('ok ' + (','.join(map(str, np.asarray(s2v).view('<u4').tolist())) or '-') if s2v.dtype == np.float32
                    else f'ok[{s2v.dtype}]')
        # the decisions themselves: band (= key of the vector) and the sync trace indices / Reader.nsync
        lines.append(f'band {a} {l}')
        impl.append('ok ' + str(sr.type))
        lines.append(f'nsync {nsaved} {sy}')
        si = [int(i) for i in spikeglx._get_sync_trace_indices_from_meta(sr.meta)]
        impl.append(f'ok {int(sr.nsync)} ' + (','.join(map(str, si)) or '-'))
    return lines, impl, g0


def geom_canon(g, idx=None):
    if g is None:
        return 'none'
    out = []
    for k in sorted(g.keys()):
        v = np.asarray(g[k], dtype=np.float64)
        if idx is not None:
            v = v[idx]
        out.append(k + '=' + ','.join(repr(float(x)) for x in v))
    return ' '.join(out)


def _tags(spec, op, impl_ans, order_ident, uniform):
    t = [spec['fixture'].replace('.meta', ''), spec['backend'], 'sort' if spec['sort'] else 'nosort',
         'mutated' if spec['mutated'] else 'asis', 'table=' + spec['table_style'],
         'perm=identity' if order_ident else 'perm=nonidentity', 'gains=uniform' if uniform else 'gains=nonuniform',
         'op=' + op[0]]
    if spec['family'] != 'nidq' and spec.get('nsync') == 0:
        t.append('sync word not saved')
    if len(op) >= 2 and op[-2] in MODES:
        t.append('seq=' + op[-2])
        t.append('ctor=' + spec.get('ctor', 'path-kw'))
    w = impl_ans.split()
    if impl_ans.startswith('err'):
        t.append('out=' + ' '.join(w[:2]))
    elif op[0] in ('read', 'item1', 'itemt', 'itemi', 'rs', 'rp', 'select'):
        kind = w[1] if len(w) > 1 else '?'
        empty = (kind == 'v' and w[2] == '0') or (kind == 'm' and (w[2] == '0' or w[3] == '0'))
        t.append('out=' + {'s': '0-d', 'v': '1-d', 'm': '2-d'}.get(kind, kind) + (' empty' if empty else ''))
    sels = op[2:4] if op[0] in ('read', 'select') else (op[1:3] if op[0] in ('itemt', 'rp') else [op[1]] if op[0] == 'item1' else ([op[3]] if op[0] == 'rs' and op[3] != 'none' else []))
    if op[0] in ('rs', 'rp'):
        if 'nsync' in spec:
            t.append('nsync=%s' % spec['nsync'])
        if ' | sync ' in impl_ans:
            t.append('pair: data + sync bits')
    for ax, s in zip(('c',) if op[0] == 'rs' else ('n', 'c'), sels):
        kind = s[0]
        if kind == 's':
            st = s.split(':')[3]
            kind += '(step ' + ('None' if st == '_' else '0' if st == '0' else '+1' if st == '1' else '-1' if st == '-1' else '>1' if int(st) > 0 else '<-1') + ')'
        elif kind == 'l' and s == 'l:-':
            kind = 'l(empty)'
        t.append(f'{ax}sel={kind}')
    return tuple(t)


def _nontrivial_step(op):
    for s in op[1:]:
        if isinstance(s, str) and s.startswith('s:'):
            if s.split(':')[3] not in ('_', '1'):
                return True
    return False


def slice_box(ctx):
    """exhaustive comparison of slice.indices / range / integer indexing with CPython on a small box"""
    nmax = ctx.n(5, 8)
    lines, impl, descs = [], [], []
    for n in range(0, nmax + 1):
        vals = [None] + list(range(-n - 2, n + 3)) + [10 ** 9, -10 ** 9]
        steps = [None, 0, 10 ** 9, -10 ** 9] + [s for k in range(1, n + 2) for s in (k, -k)]
        base = list(range(n))
        for a in vals:
            for b in vals:
                for c in steps:
                    lines.append('slice {} {} {} {}'.format(n, *('_' if v is None else v for v in (a, b, c))))
                    try:
                        i0, i1, st = slice(a, b, c).indices(n)
                        got = np.arange(n)[a:b:c].tolist()
                        assert got == base[a:b:c] == list(range(i0, i1, st))
                        impl.append(f'ok {i0} {i1} {st} {len(got)} ' + (','.join(map(str, got)) or '-'))
                    except ValueError:
                        impl.append('err ValueError')
                    descs.append({'op': 'slice', 'n': n, 'start': a, 'stop': b, 'step': c})
        for i in range(-n - 3, n + 4):
            lines.append(f'index {n} {i}')
            try:
                impl.append(f'ok {int(np.arange(n)[i])}')
            except IndexError:
                impl.append('err IndexError')
            descs.append({'op': 'index', 'n': n, 'i': i})
    model = ctx.lean(lines)
    for d, a, b in zip(descs, impl, model):
        ctx.compare(d['op'], d, a, b, nontrivial=(d['op'] == 'slice' and d['step'] not in (None, 1)),
                    tags=('box:' + d['op'], 'box:' + a.split()[0] + ('' if a.startswith('err') or d['op'] == 'index' else ' empty' if a.split()[4] == '0' else ' nonempty')))
    ctx.note(f'exhaustive slice box: n <= {nmax}, start/stop in None, -n-2..n+2, +-1e9, step in None, 0, +-1..+-(n+1), +-1e9: {len(lines)} cases')


def scale_cases(ctx):
    """Recordings LONGER than any internal block a reader could use (2^16 samples, 60000, 30000, one second ...), a few channels
    wide so that they stay cheap: stepped / negative / offset slices across those sizes, judged by the direct oracle
    (NumPy indexing of the independently calibrated array).  The model's theorems do not depend on the length; these cases make
    sure the IMPLEMENTATION does not either."""
    for j in range(ctx.n(4, 16)):
        rng = ctx.subrng(7, j)
        spec = None
        for t in range(400):
            cand = gen_spec(ctx.subrng(7, j, t), 100000 + 400 * j + t, True)
            if cand['nc'] <= 6 and not cand.get('inconsistent'):
                spec = cand
                break
        if spec is None:
            continue
        ns = int(rng.choice([65537, 70001, 98304, 131073, 150000, 196613]))
        nc = spec['nc']
        spec['ns'] = ns
        spec['backend'] = 'bin' if j % 2 == 0 else 'cbin'
        spec['chunk'] = int(rng.choice([30000, 4096, 65536, 12345]))
        spec['ctor'] = 'path-kw'
        spec['reopen'] = False
        ops = []
        steps = [3, 5, 6, 7, 10, 30, 1, 2, 64, 1000, 65535, 65537]
        for _ in range(10):
            st = int(rng.choice(steps))
            a = None if rng.random() < 0.4 else int(rng.integers(0, ns // 3))
            b = None if rng.random() < 0.4 else int(rng.integers(2 * ns // 3, ns + 5))
            if spec['backend'] == 'bin' and rng.random() < 0.25:
                st, a, b = -st, b, a
            csel = 's:_:_:_' if rng.random() < 0.6 else gen_sel(rng, nc)
            ops.append(['read', 'getitem' if rng.random() < 0.7 else 'read',
                        's:' + ':'.join('_' if v is None else str(v) for v in (a, b, st)), csel])
        ops.append(['read', 'getitem', f's:0:{65536 + int(rng.integers(1, 30000))}:3', 's:_:_:_'])
        ops.append(['rs', int(rng.integers(0, 1000)), int(rng.integers(ns - 500, ns + 1)), 'none'])
        ops.append(['item1', f'i:{int(rng.integers(65536, ns))}'])
        spec['ops'] = ops
        spec['modes'] = [['plain', False] for _ in ops]
        R = Recording(spec)
        try:
            res = oracle_recording(R)
        finally:
            R.close()
        desc = {'k': spec['k'], 'fixture': spec['fixture'], 'backend': spec['backend'], 'sort': spec['sort'], 'ns': ns, 'nc': nc,
                'op': ['scale'], 'chunk': spec['chunk']}
        ctx.compare('scale', desc, 'ok' if res is None else 'C01 fails at scale: ' + json.dumps(jsonable_small(res))[:400], 'ok',
                    tags=('scale', 'scale-ns>65536', 'backend=' + spec['backend']))
        if res is not None:
            ctx.scale_failures = getattr(ctx, 'scale_failures', []) + [(spec, res)]


def jsonable_small(res):
    op, obs, exp = res
    return {'op': op, 'observed': str(obs)[:160], 'expected': str(exp)[:160]}


_X16 = np.arange(-32768, 32768).astype(np.int16)
_W16 = np.arange(1, 65537, dtype=np.uint64)


def calall_numpy(g):
    """float32(x) * g for every int16 x with NumPy's own casting rules (float32 array *= float32 / float64 factor):
    (kind, bit pattern of g, sum over k of (k+1) * bits(result_k) mod 2^64, number of exact products)"""
    A = _X16.astype(np.float32, copy=True)
    X = A.astype(np.float64)
    gv = np.array([g], dtype=g.dtype)
    A *= gv
    with np.errstate(over='ignore'):
        chk = int((_W16 * A.view(np.uint32).astype(np.uint64)).sum(dtype=np.uint64))
    if g.dtype == np.float32:
        nexact = int(np.count_nonzero(A.astype(np.float64) == X * np.float64(g)))
        return 'f32', int(gv.view(np.uint32)[0]), chk, nexact
    return 'f64', int(gv.view(np.uint64)[0]), chk, -1


def correspondence(ctx):
    slice_box(ctx)
    scale_cases(ctx)
    nrec = ctx.n(800, 12000)
    ncal = ctx.n(30, 1500)
    if ctx.tier == 'quick' and ctx.escalated:
        # a broken translator tie deepens the quick run (3 x the recordings, thorough slice box) without turning it into the
        # 12 000-recording thorough tier, which would not fit the time limit of a quick check
        nrec, ncal = 2400, 90
    batch = 130
    for b0 in range(0, nrec, batch):
        lines, expect = [], []   # expect: (kind, spec, op, impl_answer, extra)
        for k in range(b0, min(b0 + batch, nrec)):
            spec = gen_spec(ctx.subrng(1, k), k, ctx.quick)
            R = Recording(spec)
            try:
                rl, ri, g0 = rec_lines(R)
                if R.sr is None:
                    for j, (l, a) in enumerate(zip(rl, ri)):
                        lines.append(l)
                        kd = ('rec', 'order')[j]
                        expect.append((kd, spec, [kd], a, (True, True, None, None)))
                    continue
                order_impl = np.asarray(R.sr.raw_channel_order)
                ident = bool(np.array_equal(order_impl, np.arange(order_impl.size)))
                s2v = np.asarray(R.sr.channel_conversion_sample2v[R.sr.type])
                nsync = R.sr.nsync
                uniform = bool(np.unique(s2v[:s2v.size - nsync]).size <= 1)
                gsorted = geom_canon(R.sr.geometry)
                for j, (l, a) in enumerate(zip(rl, ri)):
                    lines.append(l)
                    kd = ('rec', 'order', 'setorder', 'gains', 'band', 'nsync')[j]
                    expect.append((kd, spec, [kd], a, (ident, uniform, g0, gsorted)))
                sub = ctx.subrng(2, k)
                for op, (mode, arr) in zip(spec['ops'], spec['modes']):
                    lines.append(op_line(op, spec))
                    ans, flags = run_op(R, op, array_lists=arr, mode=mode)
                    expect.append(('op', spec, op + [mode, arr], ans, (ident, uniform, None, tuple(flags))))
                    if op[0] == 'read' and sub.random() < 0.35:
                        # the specification side against NumPy itself, on the raw integers
                        lines.append(f'select {op[2]} {op[3]}')
                        expect.append(('op', spec, ['select', 'numpy', op[2], op[3]], numpy_select(R.D, op, arr), (True, True, None, None)))
                if k < ncal:
                    # ALL int16 sample values at once for (up to) three factors of this recording: an electrode factor, the
                    # last channel's (one on a sync channel) and a power of two; checksum of the 65 536 float32 bit patterns
                    # and the number of exact products
                    picks = [s2v[0], s2v[-1]]
                    if s2v.dtype == np.float32:
                        picks.append(np.float32(2.0) ** int(sub.integers(-30, 8)))
                    seen = set()
                    for gv in picks:
                        key = (str(s2v.dtype), gv.tobytes())
                        if key in seen:
                            continue
                        seen.add(key)
                        kd, bits, chk, nexact = calall_numpy(gv)
                        lines.append(f'calall {kd} {bits}')
                        expect.append(('op', spec, ['calall', kd, bits], f'ok {chk}', (True, True, None, None)))
                        if kd == 'f32':
                            lines.append(f'exact32 {bits}')
                            expect.append(('op', spec, ['exact32', bits], f'ok {nexact}', (True, True, None, ('exact products %s' % ('65536 of 65536' if nexact == 65536 else '< 65536'),))))
                if spec['reopen']:
                    pr = reopen_check(R)
                    ctx.compare('reopen', {'k': spec['k'], 'fixture': spec['fixture'], 'backend': spec['backend'], 'sort': spec['sort'],
                                           'ns': spec['ns'], 'nc': spec['nc'], 'op': ['reopen']},
                                'ok' if not pr else 'IMPURE ' + '; '.join(pr[:3]), 'ok', nontrivial=not ident, tags=('reopen',))
                if spec['backend'] == 'bin' and not np.array_equal(np.fromfile(R.file, dtype=np.int16), R.D.reshape(-1)):
                    ctx.mismatch('file', {'k': spec['k'], 'op': ['file']}, 'the .bin file was modified by reading', 'unchanged')
            finally:
                R.close()
        model = ctx.lean(lines)
        for (kind, spec, op, a, (ident, uniform, g0, gsorted)), m in zip(expect, model):
            desc = {'k': spec['k'], 'fixture': spec['fixture'], 'backend': spec['backend'], 'sort': spec['sort'],
                    'ns': spec['ns'], 'nc': spec['nc'], 'op': op}
            nt = (not ident) or (not uniform) or _nontrivial_step(op)
            if kind in ('rec', 'setorder'):
                if m != 'ok':
                    ctx.mismatch(kind, desc, a, m)
                continue
            if kind == 'order' and m.startswith('ok') and a.startswith('ok'):
                # geometry entry i of the reader = unsorted entry order[i] (all vectors)
                mo = [int(x) for x in m.split()[1].split(',')] if m.split()[1] != '-' else []
                io = [int(x) for x in a.split()[1].split(',')] if a.split()[1] != '-' else []
                if g0 is None:
                    mg, keys = 'none', None
                else:
                    sh = spec['over'].get('NP2.4_shank')
                    g1 = g0 if sh is None else {kk: v[np.where(g0['shank'] == int(sh))[0]] for kk, v in g0.items()}
                    msize = g1['shank'].size
                    g1 = dict(g1)
                    g1['ind'] = np.arange(msize)
                    keys = list(zip(g1['shank'].tolist(), g1['row'].tolist(), g1['col'].tolist()))
                    ok_idx = len(io) >= msize and all(0 <= i < msize for i in io[:msize])
                    mg = geom_canon(g1, np.array(io[:msize], dtype=int)) if ok_idx else 'order out of range'
                # the two orders are compared modulo ties: same permutation property, same electrode at every position
                # (the property does not fix the order of electrodes with identical shank, row and col)
                def oc(o):
                    if keys is None or sorted(o) != list(range(len(o))) or len(o) < len(keys) or any(i >= len(keys) for i in o[:len(keys)]):
                        return 'ok ' + ','.join(map(str, o))
                    return 'ok ' + ';'.join('%g,%g,%g' % keys[i] for i in o[:len(keys)]) + ' | ' + ','.join(map(str, o[len(keys):]))
                ctx.compare('order', desc, oc(io), oc(mo), nontrivial=nt, tags=_tags(spec, op, a, ident, uniform))
                ctx.compare('geometry', dict(desc, op=['geometry']), gsorted, mg, nontrivial=not ident,
                            tags=('geometry', 'geom=' + ('none' if g0 is None else 'present')))
                continue
            extra = tuple(f if f.startswith('form:') else 'info:' + f for f in gsorted) if kind == 'op' and isinstance(gsorted, tuple) else ()
            ctx.compare(kind if kind != 'op' else op[0], desc, a, m, nontrivial=nt, tags=_tags(spec, op, a, ident, uniform) + extra)


# ---------------------------------------------------------------------------------------------
# oracle: the property stated directly on the real code, independent of the Lean model
# ---------------------------------------------------------------------------------------------
def own_gains(meta_text, nc):
    """volts per bit of every ON-DISK channel, computed from the meta text with NumPy scalars (no repo code)"""
    txt = {l.partition('=')[0].lstrip('~'): l.partition('=')[2] for l in meta_text}
    if txt.get('typeThis') == 'nidq':
        mn, ma, xa, dw = (int(float(x)) for x in txt['snsMnMaXaDw'].split(','))
        i2v = float(txt['niAiRangeMax']) / int(txt.get('imMaxInt', 32768))
        g = [1.0 / float(txt['niMNGain']) * i2v] * mn + [1.0 / float(txt['niMAGain']) * i2v] * ma + [1.0 * i2v] * xa + [1.0] * dw
        return np.array(g, dtype=np.float64), dw
    a, l, sy = (int(float(x)) for x in txt['snsApLfSy'].split(','))
    band_lf = a == 0 and l != 0
    nchn = nc - sy
    prb = txt.get('imDatPrb_type')
    np2 = prb is not None and int(float(prb)) in (21, 24, 1030, 2013)
    maxint = int(txt.get('imMaxInt', 512))
    i2v = float(txt['imAiRangeMax']) / maxint
    if np2:
        g = [np.float32(i2v / 80)] * nchn
    else:
        ent = re.findall(r'\(([0-9 ]+)\)', txt['imroTbl'])[:nchn]
        g = [np.float32(1) / np.float32(int(e.split()[4 if band_lf else 3])) * np.float32(i2v) for e in ent]
    return np.array(g + [np.float32(1)] * sy, dtype=np.float32), sy


def excluded(spec, op):
    """input classes outside the property or listed as known findings (exactly those)"""
    ns = spec['ns']
    if op[0] == 'itemi':
        return 'tuple of ints handed to sr[...] (NumPy itself rejects A[i, j, k]; length two is covered by itemt)'
    nsel = op[2] if op[0] == 'read' else op[1] if op[0] in ('item1', 'itemt', 'rp') else None
    if spec['backend'] == 'cbin' and nsel is not None:
        if nsel[0] == 'l':
            return 'list of samples on a compressed file (outside the property)'
        if nsel[0] == 'n':
            return 'known finding cbin_numpy_integer_sample_index_empty'
        if nsel[0] == 'i' and int(nsel[2:]) < -ns:
            return 'known finding cbin_int_sample_index_below_minus_ns_wraps'
        if nsel[0] == 's':
            sl = py_sel(nsel)
            if sl.step is not None and sl.step < 0 and len(range(*sl.indices(ns))) > 0:
                return 'known finding cbin_negative_step_sample_slice'
    return None


def oracle_recording(R, ops=None):
    """None if C01 holds on this recording for every operation, else (op, observed, expected)."""
    spec, sr, D = R.spec, R.sr, R.D
    ns, nc = D.shape
    g, nsync = own_gains(R.meta_text, nc)
    geom = sr.geometry
    if geom is None:
        o = np.arange(nc)
    else:
        ind = np.asarray(geom['ind']).astype(int)
        m = ind.size
        if sorted(ind.tolist()) != list(range(m)) or m > nc - nsync:
            return (['geometry'], f'geometry ind is not a permutation of the {m} electrode channels: {ind[:12].tolist()}', 'a permutation')
        if spec['sort']:
            key = list(zip(geom['shank'].tolist(), geom['row'].tolist(), (-np.asarray(geom['col'])).tolist()))
            for i in range(m - 1):
                if key[i] > key[i + 1]:
                    return (['geometry'], f'geometry entries {i},{i + 1} have (shank,row,col) {geom["shank"][i], geom["row"][i], geom["col"][i]} then '
                            f'{geom["shank"][i + 1], geom["row"][i + 1], geom["col"][i + 1]}', 'ordered by shank, then row, then descending col')
        elif not np.array_equal(ind, np.arange(m)):
            return (['geometry'], f'sort=False but geometry ind = {ind[:12].tolist()}', 'on-disk order 0,1,2,...')
        # entry i describes on-disk channel ind[i]: shank and row as written in the site table of the meta file
        txt = {l.partition('=')[0].lstrip('~'): l.partition('=')[2] for l in R.meta_text}
        if 'snsShankMap' in txt or 'snsGeomMap' in txt:
            ent = re.findall(r'\(([0-9]*):([0-9]*):([0-9]*):([0-9]*)\)', txt.get('snsShankMap') or txt.get('snsGeomMap'))
            shank = np.array([int(e[0]) for e in ent])
            if 'NP2.4_shank' in txt:
                keep = np.where(shank == int(txt['NP2.4_shank']))[0]
            else:
                keep = np.arange(shank.size)
            if keep.size == m:
                for i in range(m):
                    e = ent[keep[ind[i]]]
                    if int(e[0]) != int(geom['shank'][i]):
                        return (['geometry'], f'geometry entry {i} (ind {ind[i]}) has shank {geom["shank"][i]}, the site table says {e[0]}', 'same electrode')
                    if 'snsShankMap' in txt and int(e[2]) != int(geom['row'][i]):
                        return (['geometry'], f'geometry entry {i} (ind {ind[i]}) has row {geom["row"][i]}, the site table says {e[2]}', 'same electrode')
        o = np.r_[ind, np.arange(m, nc)]
    A = D[:, o].astype(np.float32)
    if g.dtype == np.float32:
        A = A * g[o]
    else:
        A = (A.astype(np.float64) * g[o]).astype(np.float32)
    if nsync and not np.array_equal(A[:, nc - nsync:].view(np.uint32), D[:, nc - nsync:].astype(np.float32).view(np.uint32)):
        return (['sync'], 'sync columns differ from float32(raw)', 'unscaled sync')
    todo = [(op, m, a) for op, (m, a) in zip(spec['ops'], spec.get('modes') or [['plain', False]] * len(spec['ops']))] if ops is None else ops
    for op, mode, arr0 in todo:
        why = excluded(spec, op)
        if why:
            continue
        for arr, md in ((arr0, mode), (not (arr0.get('arr') if isinstance(arr0, dict) else arr0), 'plain')):
            answers, _flags, seq = run_sequence(R, op, array_lists=arr, mode=md)
            case = [op, md, arr]
            try:       # the expectation is stated on the VALUES of the selectors (plain Python ints / lists / slices)
                rows = None
                if op[0] == 'read':
                    exp = A[py_sel(op[2]), :][..., py_sel(op[3])]
                elif op[0] == 'item1':
                    exp = A[py_sel(op[1])]
                elif op[0] == 'itemt':
                    exp = A[py_sel(op[1]), :][..., py_sel(op[2])]
                elif op[0] == 'rp':
                    exp = A[py_sel(op[1]), :][..., py_sel(op[2])]
                    rows = py_sel(op[1])
                else:
                    exp = A[int(op[1]):int(op[2]), :][..., slice(None) if op[3] == 'none' else py_sel(op[3])]
                    rows = slice(int(op[1]), int(op[2]))
                exp = canon(np.asarray(exp))
                if rows is not None and spec['family'] != 'nidq':
                    # the sync part of the pair: line k of the rows is bit k of the stored sync word of the SAME samples
                    # (0 rows when the sync word was not saved)
                    w = D[rows, nc - nsync:].astype(np.int64).reshape(-1) & 0xFFFF
                    exp += ' | ' + canon_sync(((w[:, None] >> np.arange(16)[None, :]) & 1).reshape(-1, 16))
            except (IndexError, ValueError) as e:
                exp = 'err'
            for n, obs in enumerate(answers):
                tail = '' if len(answers) == 1 else ' (call %d of the sequence: %s)' % (n + 1, ' ; '.join(seq))
                if exp == 'err':
                    # an invalid selector: on a .bin the reader must reject it like NumPy; on a .cbin the error handling is
                    # mtscomp's (zero step over an empty range gives an empty array, ints below -ns wrap): nothing is demanded
                    if spec['backend'] == 'bin' and not obs.startswith('err'):
                        return (case, obs[:200] + tail, 'an exception: NumPy rejects this selector (' + op_line(op) + ')')
                elif obs != exp:
                    return (case, _short(obs, exp) + tail, _short(exp, obs))
    if ops is None and spec.get('reopen'):
        pr = reopen_check(R)
        if pr:
            return ([['reopen'], 'plain', False], '; '.join(pr[:3]), 'the same order, gains, geometry and data as the first Reader')
    return None


def _short(a, b):
    """a readable excerpt of answer a around its first difference with b"""
    ta, tb = a.split(), b.split()
    if ta[:-1] != tb[:-1] or ',' not in ta[-1]:
        return a[:160]
    va, vb = ta[-1].split(','), tb[-1].split(',')
    for i, (x, y) in enumerate(zip(va, vb)):
        if x != y:
            f = np.array([int(x)], dtype=np.uint32).view(np.float32)[0]
            return ' '.join(ta[:-1]) + f' ... element {i}: {float(f)!r} (bits {x})'
    return a[:160]


def _case(c):
    """normalise what the oracle reports as the failing case to [op, mode, array_lists]"""
    return c if (len(c) == 3 and isinstance(c[0], list)) else [c, 'plain', False]


def _replay_input(spec, D, case):
    op, mode, arr = _case(case)
    calls = None
    if op[0] in ('read', 'item1', 'itemt', 'itemi', 'rs', 'rp'):
        calls = {'plain': 'one call', 'repeat': 'three identical calls on the same Reader with the same argument objects',
                 'interleave': 'call, then the library calls listed in harness/props/c01.py interleave() (geometry_from_meta, '
                               '_conversion_sample2v_from_meta, _get_nshanks_from_meta, trace_header, range_volts, read_sync, other reads), '
                               'then the same call again'}[mode] + ': ' + op_call_text(
            op, build_args(op, arr, D.shape, spec['backend']),
            call_spelling(spec, op, arr))
    return {'fixture': spec['fixture'], 'family': spec['family'], 'band': spec['band'], 'meta_overrides': spec['over'],
            'ns': int(D.shape[0]), 'nc': int(D.shape[1]), 'backend': spec['backend'], 'chunk': spec['chunk'], 'sort': spec['sort'],
            'data': D.tolist() if D.size <= 4000 else None, 'data_seed': spec['data_seed'], 'op': op, 'mode': mode,
            'array_lists': arr, 'ctor': spec.get('ctor', 'path-kw'),
            'call_sequence': 'sr = ' + CTOR_TEXT[spec.get('ctor', 'path-kw')] + '; ' + (calls or '') + (
                '; call spikeglx.geometry_from_meta(sr.meta, sort=sort) twice; open a second Reader on the same files' if op[0] == 'reopen' else '')}


def _spec_from_input(i):
    reopen = i['op'][0] == 'reopen'
    return {'k': -1, 'fixture': i['fixture'], 'family': i['family'], 'band': i['band'], 'over': i['meta_overrides'], 'ns': i['ns'],
            'nc': i['nc'], 'backend': i['backend'], 'chunk': i['chunk'], 'sort': i['sort'], 'data_seed': i['data_seed'],
            'ops': [] if reopen or i['op'][0] in ('geometry', 'sync', 'open', 'oracle') else [i['op']],
            'modes': [] if reopen or i['op'][0] in ('geometry', 'sync', 'open', 'oracle') else [[i.get('mode', 'plain'), i.get('array_lists', False)]],
            'ctor': i.get('ctor', 'path-kw'),
            'reopen': reopen, 'mutated': True, 'table_style': '?'}


def _check_spec(spec, data=None, ops=None):
    if spec.get('inconsistent'):      # more sites than saved channels: not a SpikeGLX recording
        return None, None
    try:
        R = Recording(spec, data=data)
    except Exception as e:
        return (['open'], f'Reader could not be opened: {type(e).__name__}: {e}', 'an opened reader'), None
    try:
        return oracle_recording(R, ops), R.D
    except Exception as e:
        return (['oracle'], f'raised {type(e).__name__}: {e}', 'no exception'), R.D
    finally:
        R.close()


def search(ctx, reasons):
    ks = []
    for m in ctx.mismatches[:40]:
        k = m['case'].get('k')
        if k is not None and k not in ks:
            ks.append(k)
    ks += [k for k in range(ctx.n(120, 400)) if k not in ks]
    best = None
    for n, k in enumerate(ks):
        spec = gen_spec(ctx.subrng(1, k), k, ctx.quick)
        res, D = _check_spec(spec)
        if res is None:
            continue
        (op, mode, arr), obs, exp = _case(res[0]), res[1], res[2]
        # shrink: fewer samples, simpler selectors (same call sequence first, then a single call) on the same recording
        cand = None
        for ns2 in sorted({1, 2, 3, min(spec['ns'], 5), spec['ns']}):
            if ns2 > spec['ns'] or D is None:
                continue
            s2 = dict(spec, ns=ns2)
            if op[0] == 'reopen':
                s2 = dict(s2, ops=[], modes=[], reopen=True)
                r2, D2 = _check_spec(s2, data=D[:ns2])
                if r2 is not None:
                    cand = (s2, D2 if D2 is not None else D[:ns2], r2)
                    break
                continue
            simple = [['read', 'getitem', 'i:0', 'i:0'], ['read', 'getitem', 's:_:_:_', 's:_:_:_'], ['read', 'getitem', 's:_:_:_', 'i:0'],
                      ['read', 'getitem', 's:_:_:_', 'l:0'], ['item1', 'l:0,0'], ['item1', 'l:0'], ['item1', 'n:0']]
            tries = [(o, md, arr) for md in dict.fromkeys(['plain', mode]) for o in simple]
            if op[0] in ('read', 'item1', 'itemt', 'rs', 'rp'):
                tries += [(op, 'plain', arr), (op, mode, arr)]
            for t in tries:
                r2, D2 = _check_spec(s2, data=D[:ns2], ops=[t])
                if r2 is not None:
                    cand = (s2, D2 if D2 is not None else D[:ns2], r2)
                    break
            if cand:
                break
        if cand is None:
            cand = (spec, D, res)
        s2, D2, (op2, obs2, exp2) = cand
        op2 = _case(op2)
        size = (D2.size if D2 is not None else 10 ** 9, {'plain': 0}.get(op2[1], 1), len(str(op2)))
        if best is None or size < best[0]:
            best = (size, s2, D2, op2, obs2, exp2)
        if n >= len(ctx.mismatches[:40]) + 25 and best is not None:
            break
    if best is None:
        for spec, (op, obs, exp) in getattr(ctx, 'scale_failures', []):
            shape = np.broadcast_to(np.int16(0), (spec['ns'], spec['nc']))
            return {'input': _replay_input(spec, shape, op), 'observed': str(obs)[:600], 'expected': str(exp)[:600],
                    'how': 'harness/props/c01.py scale_cases: a recording longer than 65536 samples (content regenerated from data_seed); '
                           'oracle_recording = NumPy indexing of the independently calibrated array'}
        return None
    _, s2, D2, op2, obs2, exp2 = best
    return {'input': _replay_input(s2, D2, op2), 'observed': obs2, 'expected': exp2,
            'how': 'harness/props/c01.py: Recording(spec) writes the synthetic .meta/.bin(.cbin) from the fixture + meta_overrides + data, '
                   'oracle_recording compares spikeglx.Reader(file, sort=sort) with NumPy indexing of float32(raw[:, ind]) * own_gains(meta)[ind]'}


def replay(ctx, rep):
    i = rep['input']
    spec = _spec_from_input(i)
    res, _ = _check_spec(spec, data=i.get('data'))
    print('oracle:', res)
    return res is not None


# ---------------------------------------------------------------------------------------------
# known findings (re-demonstrated on every run)
# ---------------------------------------------------------------------------------------------
def _demo_rec(backend):
    spec = {'k': -1, 'fixture': 'sampleNP2.4_4shanks_g0_t0.imec.ap.meta', 'family': 'np2', 'band': 'ap', 'over': {}, 'ns': 7, 'nc': 385,
            'backend': backend, 'chunk': 3, 'sort': True, 'data_seed': 1, 'ops': [], 'mutated': False, 'table_style': 'fixture'}
    return Recording(spec)


def _differs(sel_n, what):
    """True when the .cbin reader disagrees with the .bin reader on sr[sel_n, 0:3] in the way `what` describes"""
    Rb, Rc = _demo_rec('bin'), _demo_rec('cbin')
    try:
        def get(sr):
            try:
                return sr[sel_n, 0:3]
            except Exception as e:
                return type(e).__name__
        return what(get(Rb.sr), get(Rc.sr))
    finally:
        Rb.close()
        Rc.close()


def known_findings(ctx):
    def tuple_csel():
        R = _demo_rec('bin')
        try:
            sr = R.sr
            a, b = sr[0:4, (3,)], sr[0:4, ()]
            try:
                sr[0:4, (3, 1)]
                c = False
            except IndexError:
                c = True
            return a.shape == (4,) and b.shape == (4, 385) and c and sr[0:4, [3]].shape == (4, 1)
        finally:
            R.close()
    return {
        'tuple_channel_selector': tuple_csel,
        'cbin_negative_step_sample_slice':
            lambda: _differs(slice(None, None, -1), lambda b, c: getattr(b, 'shape', None) == (7, 3) and getattr(c, 'shape', None) == (0, 3)),
        'cbin_int_sample_index_below_minus_ns_wraps':
            lambda: _differs(-8, lambda b, c: b == 'IndexError' and getattr(c, 'shape', None) == (3,)),
        'cbin_numpy_integer_sample_index_empty':
            lambda: _differs(np.int64(2), lambda b, c: getattr(b, 'shape', None) == (3,) and getattr(c, 'shape', None) == (0, 3)),
    }


LEVEL_TEXT = ('Lean 4 theorems for every recording (any int16 content, any channel permutation, any gain vector), every selector pair '
              '(int / NumPy int / slice with any start, stop, step / list) and an arbitrary cast and scaling operation: Reader.read equals '
              'NumPy indexing of the whole calibrated array (datum and gain fetched through the same on-disk index), sync columns unscaled, '
              'the channel order is a permutation sorted by (shank, row, -col) with ties in disk order, geometry entry i describes column i, '
              'sort=False is the disk order; CPython slice/index semantics (closed form, range, length, emptiness) proved generically.  '
              'New: the volts-per-bit vector is derived INSIDE the model from the meta entries (band decision, imro table cut to '
              'nSavedChans - nsync, ones on exactly the sync trace indices, also when the sync word is not saved) with a layout theorem and '
              '"sync trace columns unscaled" stated on the meta entries; read(slice, csel, sync=True) / read_samples / module-level read '
              'return the calibrated slice AND the sync bits of the same samples (row p of both parts comes from sample a + p*step); the '
              '.cbin sample axis agrees with the chunk-level transcription of mtscomp for EVERY chunk layout (positive step, ints in '
              '[-ns, ns)); exact cases of the float32 chain over the reals (int16 -> float32 exact and injective, factor 1, powers of two, '
              'short significands).  The model is tied to spikeglx.Reader (1) by a bit-exact differential run (float32 bit patterns, '
              'exception classes, sync bits, all 65 536 int16 values per sampled factor) on synthetic recordings from every fixture '
              'generation, .bin and .cbin, with and without a saved sync word, and (2) by a translator tie: the band decision, the meta '
              'entry counting the sync words, nSavedChans, the unsorted geometry index, the statement skeletons of Reader.read (three '
              'array statements, variables read), Reader.__init__ (order set-up, sort forwarded) and geometry_from_meta (sort keys with '
              'signs, lexsort, re-indexing) and the forwarding of module-level read are re-translated from src/spikeglx.py on every run '
              'and proved equal to the model definitions (Tie/C01.lean, incl. the composed vector theorems s2v_np1/np2_from_source)')
LEVEL_NOTE = ('partial on the float32 chain: the scaling theorem is generic in the multiplication; that float32(x) * factor is what NumPy '
              'computes is EXECUTED by the driver (f32(x)*f32(g); nidq f32(f64(f32(x))*g64); gain formulas 1/f32(gain)*f32(i2v), f32(i2v/80)) '
              'and compared bit for bit — per case and, for sampled factors, over all 65 536 int16 values — not proved; proved over the '
              'reals (standard model) are only the exact cases (cast, factor 1, powers of two, short significands).  .cbin statement is '
              'partial: it carries the hypothesis that the sample selector is a Python int in [-ns, ns) or a slice with a non-negative step '
              '(mtscomp, external, is transcribed chunk-free in Reader.rowsCbin and chunk-level in ChunkRead.mtsSlice, the two proved equal '
              'for all chunk layouts, both compared with the installed mtscomp; the three excluded classes have counterexample theorems).  '
              'The translator tie covers integer / decision skeletons and STATEMENT skeletons: for Reader.read, Reader.__init__ and the '
              'ordering part of geometry_from_meta it proves which array statements the source performs, in which order and on which '
              'variables (the permuted csel indexes both the column gather and the gain gather; keys -col,row,shank; sort forwarded), '
              'not what NumPy computes for them (row gather, astype, column gather, in-place multiply, lexsort: hand model + '
              'correspondence); the isinstance/len dispatch of __getitem__ and the body of read_samples (values of return statements) are '
              'outside the translator subset.  nidq gains and the sync BIT layout are taken as '
              'specification here (C09 / C10); geometry conversion (x/y/col flip) is C08')
TECHNIQUE = ('Lean 4 proofs by induction / omega over a transcription of Reader.read, CPython slice.indices, the lexsort order '
             '(core List.mergeSort lemmas), the meta-entry decisions behind the gain vector, the read(sync=True) pair and the chunked '
             '.cbin read; Mathlib reals for the exact float32 cases; translator tie (source text -> Lean, re-proved every run) for the '
             'integer / decision skeleton; bit-exact correspondence run incl. an exhaustive slice box and all-int16 sweeps; independent '
             'NumPy oracle for the search')
