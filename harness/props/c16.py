"""C16 — Saturation flags follow the proportion rule and the mute gain covers them (ibldsp.voltage.saturation)."""
import inspect
import math
import warnings
from fractions import Fraction

import numpy as np

ID = 'C16'
DRIVER = 'C16'
LEAN_TARGETS = ['IblVerif.Properties.C16', 'IblVerif.Generated.Constants']
THEOREMS = [
    'IblVerif.C16.flag_iff_rule',
    'IblVerif.C16.flag_iff_exact_rule',
    'IblVerif.C16.proportion_test_exact',
    'IblVerif.C16.mute_range',
    'IblVerif.C16.mute_zero_on_flag',
    'IblVerif.C16.mute_zero_on_flag_cosine',
    'IblVerif.C16.even_width_counterexample',
    'IblVerif.C16.mute_one_far',
    'IblVerif.C16.mute_one_beyond_half_width',
    'IblVerif.C16.saturation_returns',
    'IblVerif.C16.mute_function_of_flags',
    'IblVerif.C16.saturation_rejects',
    'IblVerif.C16.flags_window_interior',
    'IblVerif.C16.flags_window_last',
    'IblVerif.C16.window_seam_counterexample',
    'IblVerif.C16.batched_eq_whole',
    'IblVerif.C16.destripe_batched_eq_whole',
    'IblVerif.C16.destripe_constants_overlap',
    'IblVerif.C16.batched_seam_counterexample',
    'IblVerif.C16.mute_window_eq_whole',
    'IblVerif.C16.mute_kept_rows_eq_whole',
    'IblVerif.C16.mute_antitone_flags',
    'IblVerif.C16.mute_le_taper_near_flag',
    'IblVerif.C16.mute_isolated_profile',
    'IblVerif.C16.mute_isolated_symmetric',
    'IblVerif.C16.mute_isolated_monotone',
    'IblVerif.C16.flags_fullscale_counts',
    'IblVerif.C16.fullscale_misaligned_counterexample',
    'IblVerif.C16.fullScaleInt_table',
    'IblVerif.C16.fullscale_no_tie',
]
RULE = ('calls saturation(data, max_voltage, v_per_sec, fs, proportion, mute_window_samples) built from a recipe (mode, index): '
        'channel counts 1..400 (edge-biased: 1..7, multiples of 5 +-1, 383..385, 399, 400), float32/float64 data, max_voltage as Python '
        'float/int, length-1 array, per-channel float64/float32 array or list, proportions 0.2 (default) and others incl. 0, 1/3, 1; '
        'mode over: k0-1/k0/k0+1 channels (k0 = floor(proportion*nc)) just above 0.98*range plus 0..2 channels exactly at / one ulp below it, '
        'slew disabled; mode slew: the same counts with steps one ulp below / at / one ulp above the smallest step that reaches v_per_sec*fs, '
        'range huge; mode natural: Gaussian data scaled so that both criteria fire on about the proportion of channels; mode runs: few channels, '
        'long flag patterns (none, all, isolated, runs of every length, two runs at gaps 1..M+2, runs touching either end) and odd taper widths '
        '1..33 (51, 101 where SciPy may switch to FFT); mode sweep: EVERY channel count 1..400 with k0 / k0+1 (thorough: also k0-1, six proportions) channels over the threshold or over the slew limit; mode int: int16/int32/int64 traces (and a transposed int64 view), integer or float max_voltage, slew-only events with integer steps one below / at / one above the limit on k0-1/k0/k0+1/all channels, or integer samples around 0.98*range; mode edge: broadcasting (nc=1 against a longer max_voltage, wrong lengths), '
        'mute_window_samples 0 / negative, ns = 0, 1, 2, nc = 0, inf/nan samples.  The FORM of every call is drawn from its own stream, independently of the values: C / Fortran / transposed / strided data, read-only, positional or keyword spelling in the documented order, scalar arguments as Python or NumPy types.  Even widths are outside the property (known finding F9) and are only run in a small '
        'code-vs-model batch that ties even_width_counterexample to the code.  Every second case is called twice and every sixth three times with the SAME argument objects (each call compared with the model of the original values; an argument that comes back modified is only tagged and followed up with three calls).  Flags are compared exactly, the mute gain to 1e-12 with exact '
        'zeros and ones where SciPy convolves directly.  A case is non-trivial when it has both flagged and unflagged samples or a planted '
        'boundary; distinct by recipe.  BATCH-WISE USE (mode batch): short float32 / float64 / int16 recordings with slew-only and amplitude-only events planted on and '
        'next to the last sample of every batch, and a batch list - the schedule of decompress_destripe_cbin at scaled-down batch length / taper (taper 0 = no overlap), '
        'the batches of 2-3 workers in any order, random chains, abutting batches, random batches in random order; the real function is called on every data[:, a:b] '
        'and its flags written over np.zeros(ns) in that order: compared exactly with Saturation.batched for EVERY list, with one call on the whole recording when the '
        'list satisfies the chain hypothesis (the driver decides it with the Lean definition), and the gain of every batch with the whole-recording gain on the rows '
        'that mute_window_eq_whole covers (1e-12); the same batch-wise = whole check at the source\'s own 65536 / 1024 on the > 65536-sample recordings.  '
        'PRODUCTION PATH (mode pipeline): the real decompress_destripe_cbin (pyfftw stand-in, tasks run sequentially in worker order) on a 3B recording of 384 identical '
        'channels with 300-count steps on the last sample of every batch: the saved flag vector against Saturation.batched over the model\'s worker batches and against one '
        'call on the whole recording - INFORMATIONAL only (tags / notes; what a caller stores is outside C16).  FULL SCALE (mode fullscale): a real '
        'spikeglx.Reader on the repository\'s fixture metas (3A, 3B ap / lf, NP2.1, NP2.4, NPultra, nidq) with imMaxInt kept / removed / replaced (512 ... 32768, 511, 700, 8191), '
        'uniform or per-channel AP gains, raw int16 counts one count below / above 0.98 x full scale on k0-1 / k0 / k0+1 / all channels: '
        'saturation(sr[:, :ncv].T, sr.range_volts[:ncv], v_per_sec=inf, fs=sr.fs) against the exact integer rule 50|raw| > 49 maxInt of Saturation.opsCounts with '
        'maxInt = Saturation.fullScaleInt; _get_max_int_from_meta on meta dictionaries of every probe family x imMaxInt absent / present x explicit version argument '
        'against fullScaleInt.')
ASSUMPTIONS = [
    'Python scalars adopt the precision of the array they meet (NumPy >= 2); NumPy scalars are strong: the model instance follows the same promotion',
    'repeated calls with the SAME argument objects must each follow the rule on the values originally passed (the model is a pure function); whether an argument is modified in place is only recorded as a tag and used to choose follow-up calls',
    'data is a 2-D float32 / float64 / int16 / int32 / int64 array [nc, ns] in any memory layout; integer data containing the dtype minimum or a step that leaves the dtype are excluded (known finding int_overflow: np.abs / np.diff wrap around); unsigned data are not generated',
    'scalar arguments may be Python int/float, np.float64, np.float32, np.int16/32/64 (mute_window_samples: int, np.int64, np.int16, np.uint8); a float32 scalar stands for its exact value; which precision NumPy then uses for the slew test is asked of np.result_type and passed to the model',
    'the mute theorems are over the reals; the float64 gain differs by summation rounding (compared to 1e-12; exact 0 and 1 where direct)',
    'even mute_window_samples are excluded from the property (known finding even_mute_window); the theorems carry the hypothesis win[(M-1)/2] >= 1',
    'slew test at exact equality: the code uses >=, the statement says exceed; model follows the code, the oracle accepts either there',
    'proportion_test_exact is stated in the standard model of rounding (monotone, relative error <= 2^-53); the IEEE instance itself is executed, not proved',
    'batch-wise use: a batch is data[:, a:b] with 0 <= a < b <= ns (what the code produces); every batch is an ordinary call of saturation() and is judged as such. '
    'batched_eq_whole needs the chain hypothesis (first batch at 0, every batch starts at or before the last sample of the part already final, one batch ends at ns, '
    'written in that order): true for one worker of decompress_destripe_cbin whenever 1 <= 2*taper < nbatch (destripe_batched_eq_whole, constants re-extracted); lists '
    'that violate it are compared code-vs-model only (Saturation.batched reproduces the lost seam flag, theorem batched_seam_counterexample)',
    'the property is about the values saturation() returns for the arguments it is given: in which order a caller stores the flags of several calls is not part of C16. '
    'The runs of the real decompress_destripe_cbin (mode pipeline) are therefore INFORMATIONAL: tags and notes in the evidence, never a disagreement',
    'the property takes max_voltage as given; which vector a caller passes is not part of C16.  The full-scale cases read "full-scale voltage" as the anchored '
    'Reader.range_volts = sample2volts x maxInt with maxInt = imMaxInt of the meta, else 512 (imec probes that are not 2.0) / 32768 (non-imec streams), and call '
    'saturation with that vector lined up with the data: per-channel AP gains are generated only on probes the Reader returns in file channel order (3A / 3B fixtures), '
    'because on the others range_volts (file order) and the columns of sr[...] (sorted order) are not lined up - a matter of the caller, see observations()',
    'a 2.0 probe without imMaxInt and an imec stream of unknown probe type raise in the code and in the model (the exception class is not compared); raw counts exactly AT '
    '0.98 x full scale (possible only when 49*maxInt is a multiple of 50, e.g. 700) are not generated: the float32 chain raw*s2v > (s2v*maxInt)*0.98 decides the exact '
    'integer rule everywhere else (relative gap >= 1/(49*32768) >> 3 float32 roundings)',
]
TRUSTED = [
    'NumPy casting rules (NEP 50 weak Python scalars; float32 vs float64 comparison promotes exactly; np.mean of booleans accumulates in float64)',
    'scipy.signal.convolve(mode="same") starts at index (M-1)//2 of the full convolution (compared on every case, incl. ns < M)',
    'scipy.signal.windows.cosine(M)[k] = sin(pi/M (k+1/2)) (compared with the Lean Float twin to 1e-15 each run)',
    'Lean Float/Float32 arithmetic is IEEE-754 binary64/binary32 with round-to-nearest-even (flags are compared bit-exactly on planted one-ulp boundaries)',
    'translator tie (harness/pyfn2lean.py, harness/tiespecs/c16.py): saturation is read as the SEQUENCE OF ITS ARRAY-LEVEL CALLS matched on their unparsed text (regular '
    'expressions with integer holes: operators, operand order, axes, factor, clip constants, convolution mode, where each scalar argument goes); the data flow between the '
    'calls and the `np.r_[..., 0]` padding (a subscript, not a call) are outside it; my_function is read as the sequence of its saturation(...) calls with [first_s, last_s)',
    'NumPy basic slicing data[:, a:b] = columns a..b-1 (Saturation.colSlice); buf[a:b] = v overwrites exactly those entries (Saturation.writeAt)',
    'spikeglx.Reader.read multiplies int16 counts by sample2volts in float32 (C01); the version strings of _get_neuropixel_version_from_meta (C09); joblib replaced by a '
    'sequential stand-in and pyfftw by the NumPy stand-in of harness/stubs in the production-path runs',
]
LEVEL_TEXT = ('Lean 4 theorems: for every [nc, ns] array, every scalar/per-channel range and every instance of the element-wise arithmetic the '
              'returned flags equal the counting rule (over-98% count or slew count into the next sample, each as mean > proportion; exact-integer '
              'form; float64 test = rational rule in the standard rounding model); over the reals for every non-negative window: gain in [0,1], '
              '0 on flagged samples when the centre weight is >= 1 (proved for the cosine window of every odd width), 1 outside the window '
              'footprint, function of the flags only; even widths: proved counterexample.  Batch-wise use: a flag depends on its own and the next sample only '
              '(flags of data[:, a:b] = flags of the recording except on the batch\'s last sample, which is judged by the 98 % criterion alone); batches written in order '
              'with one sample of overlap give exactly the whole-recording flags (batched_eq_whole), the schedule of decompress_destripe_cbin satisfies the hypothesis for '
              'every ns whenever 1 <= 2 taper < nbatch (re-extracted constants: decide), counterexamples without overlap / out of order; the gain of a batch equals the '
              'whole-recording gain on the kept rows for every window not longer than the taper.  Shape of the gain: more flags never raise it, near any flag it is at most '
              'the taper profile, around an isolated flag it IS the profile - symmetric and non-decreasing away from the flag for the odd cosine window.  Full scale: with '
              'max_voltage = sample2volts x maxInt and data = raw x sample2volts (any positive per-channel factors, exact rationals) the flags are the rule 50|raw| > 49 maxInt '
              'on the raw counts; decision table of _get_max_int_from_meta; counterexample when data and range are in different channel orders.  '
              'Translator tie (re-generated from the source on every run): the call sequence of saturation with its integer parameters = Saturation.steps; the batches on which '
              'my_function calls saturation = Saturation.workerWindows for every worker, every ns / nbatch / taper (induction over the loop); range_volts = sample2volts * maxint; '
              'NP2 branch of _get_max_int_from_meta.  The model is tied to the code by an exact differential run on one-ulp boundary inputs, batch lists, real Readers and the real pipeline.')
LEVEL_NOTE = ('trusted: Lean kernel + Mathlib, the correspondence harness, NumPy/SciPy semantics listed under trusted_base; the IEEE instances of the '
              'element-wise operations are executed (bit-exact comparison with NumPy), not reasoned about; mute gain float64 vs real: numeric (1e-12). '
              'The tie on saturation itself is a tie of its CALL SEQUENCE (text patterns with integer holes), not of array semantics: NumPy broadcasting, axis meaning, the '
              'trailing-0 padding and the data flow between the calls stay with the correspondence run. fullScaleInt defaults 512 / 32768 and the two int(md.get(key, default)) '
              'branches are outside the translator (two-argument dict.get): compared with the real function on every run only. flags_fullscale_counts is exact-rational; that the '
              'float32 chain of a real Reader decides the same rule is checked numerically (exact agreement on planted +-1 count boundaries), not proved. Several workers: the '
              'chain hypothesis is proved for one worker only; for P >= 2 it is evaluated by the driver on the generated cases, and concurrent write order is not modelled '
              '(see below). DEFECTS OF CALLERS OBSERVED WHILE MODELLING, OUTSIDE THE PROPERTY (demonstrations: observations() in harness/props/c16.py, not run by ./check): '
              '(1) Reader.range_volts is in file channel order while the columns of sr[...] are geometry-sorted, so with per-channel AP gains on a probe whose sorted order '
              'differs (NPultra fixture) saturation(sr[:, :ncv].T, sr.range_volts[:ncv]) judges a channel against another channel\'s full scale '
              '(fullscale_misaligned_counterexample); (2) decompress_destripe_cbin with nprocesses >= 2 loses a slew-only flag on the last sample of a worker\'s last batch '
              'when that batch is written after the next worker\'s first batch, the normal order of a parallel run (batched_seam_counterexample)')
TECHNIQUE = ('Lean 4 proof: list/ofFn extensionality for the array program, induction over batch lists and over the worker loop (fuel), Mathlib list sums and trigonometry '
             'for the mute gain, ordered-field arithmetic over Q for the full scale, standard-model rounding lemma (partial: IEEE instance executed only); source-to-Lean '
             'translator tie (event sequences of saturation and of my_function, range_volts) re-proved on every run; exact differential run against the real function, '
             'real Readers and the real decompress_destripe_cbin')

ODD_WIDTHS = [1, 3, 5, 7, 9, 11, 13, 15, 21, 31, 33]
NC_EDGE = [1, 2, 3, 4, 5, 6, 7, 9, 10, 11, 14, 15, 16, 19, 20, 21, 25, 49, 50, 51, 99, 100, 101, 199, 200, 201, 383, 384, 385, 399, 400]
PROPS = [None, None, None, 0.2, 0.1, 0.25, 0.5, 1 / 3, 0.05, 0.0, 0.9, 1.0, 0.3]
NICE_R = [1200.0, 50.0, 600.0, 0.75, 1200.0 * 2.0 ** -20]
GEN_R = [0.6 / 500, 0.6 / 250, 0.5 / 80, 1.2e-3, 0.0375]


# ---------------------------------------------------------------------------------------------
# real code
# ---------------------------------------------------------------------------------------------
def _sat():
    from ibldsp.voltage import saturation
    return saturation


def _defaults():
    sig = inspect.signature(_sat())
    return {k: v.default for k, v in sig.parameters.items() if v.default is not inspect.Parameter.empty}


def _classify(e):
    s = str(e)
    if 'broadcast' in s:
        return 'err ValueError broadcast'
    if 'non-negative' in s:
        return 'err ValueError negative-window'
    if 'cannot be empty' in s:
        return 'err ValueError empty-window'
    return f'err {type(e).__name__} {s[:60]}'


def _same_bits(a, b):
    a, b = np.asarray(a), np.asarray(b)
    return a.shape == b.shape and a.dtype == b.dtype and np.ascontiguousarray(a).tobytes() == np.ascontiguousarray(b).tobytes()


ARG_ORDER = ('v_per_sec', 'fs', 'proportion', 'mute_window_samples')      # the documented signature after (data, max_voltage)


def _materialise(d, layout, readonly):
    """the same values in another legitimate memory form"""
    if layout == 'F':
        a = np.asfortranarray(d)
    elif layout == 'T':                       # transposed view of a C-contiguous [ns, nc] array (what Reader[...].T gives)
        a = np.ascontiguousarray(d.T).T
    elif layout == 'strided':                 # every second column of a wider array
        big = np.zeros((d.shape[0], 2 * d.shape[1] + 1), d.dtype)
        big[:, :2 * d.shape[1]:2] = d
        a = big[:, :2 * d.shape[1]:2]
    else:
        a = d.copy()
    if readonly:
        a.setflags(write=False)
    return a


def _run(case, calls=None):
    """Call the real function `calls` times (default case['calls'] or 1) with the SAME argument objects, as a caller that
    keeps its range array does, in the FORM case['form'] (memory layout, read-only, positional or keyword spelling; the scalar
    arguments carry their own Python / NumPy types).  Returns one entry per call: ('ok', flags, mute) or ('err …',).  Whether
    `data` / `max_voltage` are still bit-identical to what was passed in is RECORDED (last element {'modified': …}; the function
    gets private copies that are compared with the originals) but is not itself a demand of C16: it is used as a tag and to choose
    follow-up calls, and a disagreement is reported only through its consequence, a later call whose RESULT differs from the rule
    on the original values."""
    calls = int(calls or case.get('calls') or 1)
    form = case.get('form') or {}
    data = _materialise(case['data'], form.get('layout', 'C'), form.get('readonly', False))
    mv0 = case['max_voltage']
    mv = mv0.copy() if isinstance(mv0, np.ndarray) else list(mv0) if isinstance(mv0, list) else mv0
    if form.get('spelling') == 'pos':
        dflt = _defaults()
        args = tuple(case.get(k) if case.get(k) is not None else dflt[k] for k in ARG_ORDER)
        kw = {}
    else:
        args = ()
        kw = {k: case[k] for k in ARG_ORDER if case.get(k) is not None}
    ns = data.shape[1]
    out = []
    for _ in range(calls):
        res = None
        with warnings.catch_warnings():
            warnings.simplefilter('ignore')
            try:
                sat, mute = _sat()(data, mv, *args, **kw)
            except ValueError as e:
                res = (_classify(e),)
            except Exception as e:  # any other exception is not part of the modelled behaviour
                res = (f'err {type(e).__name__} {str(e)[:60]}',)
        if res is None:
            sat, mute = np.asarray(sat), np.asarray(mute)
            # values, not representations: any boolean-like flags and any real gain of the right length are accepted
            if sat.shape != (ns,) or mute.shape != (ns,) or sat.dtype.kind not in 'bui' or mute.dtype.kind not in 'fiu':
                res = (f'err shape flags{sat.shape}{sat.dtype} mute{mute.shape}{mute.dtype}',)
            else:
                res = ('ok', sat.astype(bool), mute.astype(np.float64))
        if not _same_bits(data, case['data']):
            res = res + ({'modified': PURITY + ' data argument'},)
        elif isinstance(mv0, (np.ndarray, list)) and not _same_bits(np.asarray(mv), np.asarray(mv0)):
            res = res + ({'modified': PURITY + f' max_voltage argument: {np.asarray(mv0).ravel()[:4].tolist()} became '
                                               f'{np.asarray(mv).ravel()[:4].tolist()}'},)
        out.append(res)
    return out


PURITY = 'the call modified its'


def _modified(res):
    return res[-1]['modified'] if isinstance(res[-1], dict) else None


def _call(case):
    """one call"""
    return _run(case, 1)[0]


# ---------------------------------------------------------------------------------------------
# model line
# ---------------------------------------------------------------------------------------------
def _bits(a):
    a = np.ascontiguousarray(a)
    if a.dtype == np.float32:
        return a.view('<u4')
    return a.astype('<f8').view('<u8')


def _blist(a):
    a = np.ravel(a)
    return ','.join(map(str, _bits(a).tolist())) if a.size else '-'


def _fbits(x):
    return str(int(np.array([float(x)], '<f8').view('<u8')[0]))


def _unbits(tok):
    if tok == '-':
        return np.zeros(0)
    return np.array([int(x) for x in tok.split(',')], dtype='<u8').view('<f8')


def _mv_array(mv):
    a = np.atleast_1d(mv)
    if a.dtype == np.float32:
        return a, '32'
    return a.astype(np.float64), '64'     # ints and Python floats: NumPy multiplies by 0.98 in float64


def _window(M):
    import scipy.signal
    return scipy.signal.windows.cosine(M) if M >= 1 else np.zeros(0)


def _slew_form(dtype, fs, v):
    """which precision NumPy selects for `np.abs(np.diff(data)) / fs` and for `… >= v_per_sec`, asked of NumPy itself"""
    if dtype == np.float64:
        return '64x'
    with warnings.catch_warnings():
        warnings.simplefilter('ignore')
        q = np.abs(np.diff(np.ones((1, 2), dtype), axis=-1)) / fs
        cmp_dtype = np.result_type(q, v)
    if q.dtype == np.float64:
        return '64x'
    assert q.dtype == np.float32, q.dtype
    return '32r' if cmp_dtype == np.float32 else '32x'


def _line(case, dflt):
    data = case['data']
    nc, ns = data.shape
    kind = data.dtype.kind
    dd = ('i%d' % (8 * data.dtype.itemsize)) if kind == 'i' else '32' if data.dtype == np.float32 else '64'
    mva, md = _mv_array(case['max_voltage'])
    fs = case['fs'] if case.get('fs') is not None else dflt['fs']
    vv = case['v_per_sec'] if case.get('v_per_sec') is not None else dflt['v_per_sec']
    v = 'd' if case.get('v_per_sec') is None else _fbits(case['v_per_sec'])
    p = 'd' if case.get('proportion') is None else _fbits(case['proportion'])
    M = case.get('mute_window_samples')
    Mi = int(dflt['mute_window_samples'] if M is None else M)
    if nc == 0:
        rows = '~'
    elif kind == 'i':
        rows = ';'.join((','.join(map(str, r.tolist())) if ns else '-') for r in data)
    else:
        rows = ';'.join(_blist(r) for r in data)
    return (f'sat {dd} {md} {_slew_form(data.dtype, fs, vv)} {ns} {nc} {_fbits(fs)} {v} {p} {"d" if M is None else Mi} '
            f'{_blist(_window(Mi))} {_blist(mva)} {rows}')


def _parse_answer(ans):
    if not ans.startswith('ok '):
        return (ans,)
    parts = dict(p.split('=', 1) for p in ans.split()[1:])
    fl = np.array([c == '1' for c in parts['flags']], dtype=bool) if parts['flags'] != '-' else np.zeros(0, bool)
    return ('ok', fl, _unbits(parts['mute']))


def _direct(ns, M):
    """does SciPy convolve directly (then zeros and ones of the gain are exact)?"""
    import scipy.signal
    if ns == 0 or M < 1:
        return True
    with warnings.catch_warnings():
        warnings.simplefilter('ignore')
        return scipy.signal.choose_conv_method(np.zeros(ns, bool), _window(M), mode='same') == 'direct'


def _canon(impl, model, exact01):
    """two strings that are equal iff implementation and model agree (flags exactly; gain to 1e-12, exact 0/1)"""
    if impl[0] != 'ok' or model[0] != 'ok':
        return impl[0], model[0]
    fi, fm = impl[1], model[1]
    si = 'ok flags=' + ''.join('1' if b else '0' for b in fi)
    sm = 'ok flags=' + ''.join('1' if b else '0' for b in fm)
    gi, gm = impl[2], model[2]
    good = gi.shape == gm.shape and np.allclose(gi, gm, atol=1e-12, rtol=0)
    if good and exact01:
        good = bool(np.array_equal(gi == 0, gm == 0) and np.array_equal(gi == 1, gm == 1))
    if good:
        return si + ' mute=agree', sm + ' mute=agree'
    return si + ' mute=' + repr(np.round(gi, 15).tolist()[:40]), sm + ' mute=' + repr(np.round(gm, 15).tolist()[:40])


# ---------------------------------------------------------------------------------------------
# generator: a case is rebuilt from (mode, index) alone
# ---------------------------------------------------------------------------------------------
def _rng(ctx, mode, i):
    return ctx.subrng(MODE_ID[mode], i)


class _Forms:
    """the FORM of a call, drawn independently of its values (own random stream): Python / NumPy scalar types, memory layout,
    read-only arrays, positional or keyword spelling"""

    def __init__(self, rng):
        self.rng = rng
        self.tags = []

    def scalar(self, name, x):
        rng = self.rng
        if x is None:
            if rng.random() < 0.75:
                return None
            x = _defaults()[name]                       # the default value, spelled out in some other type
        if isinstance(x, float) and not math.isfinite(x):
            return x
        u = rng.random()
        kind = 'py'
        if u < 0.45:
            out = x
        elif u < 0.62:
            kind, out = 'np.float64', np.float64(x)
        elif u < 0.78 and 1e-30 < abs(float(x)) < 1e30:
            kind, out = 'np.float32', np.float32(x)
        elif float(x).is_integer() and abs(float(x)) < 2 ** 15:
            t = [int, np.int64, np.int32, np.int16][int(rng.integers(0, 4))]
            kind, out = ('int' if t is int else 'np.' + t.__name__), t(x)
        elif isinstance(x, int):
            out = float(x)
            kind = 'float'
        else:
            out = x
        self.tags.append(f'{name}:{kind}')
        return out

    def width(self, M):
        if M is None:
            return None
        rng = self.rng
        ts = [int, int, np.int64, np.int16] + ([np.uint8] if 0 <= M < 256 else [])
        t = ts[int(rng.integers(0, len(ts)))]
        self.tags.append('M:' + ('int' if t is int else 'np.' + t.__name__))
        return t(M)

    def call(self, fixed_layout=None):
        rng = self.rng
        layout = fixed_layout or str(rng.choice(['C', 'C', 'F', 'T', 'T', 'strided']))
        form = {'layout': layout, 'readonly': bool(rng.random() < 0.2), 'spelling': 'pos' if rng.random() < 0.3 else 'kw'}
        self.tags += ['layout=' + layout, 'spelling=' + form['spelling']] + (['readonly'] if form['readonly'] else [])
        return form


MODE_ID = {'over': 1, 'slew': 2, 'natural': 3, 'runs': 4, 'edge': 5, 'even': 6, 'sweep': 8, 'int': 10}


def _forms(ctx, mode, i):
    return _Forms(ctx.subrng(9, MODE_ID[mode], i))


def _pfrac(x):
    """the rational a scalar argument stands for: the shortest decimal of a Python float / float64 ('0.2' is 1/5), the exact
    value of a float32 or an integer"""
    if isinstance(x, np.float32):
        return Fraction(float(x))
    if isinstance(x, (int, np.integer)):
        return Fraction(int(x))
    return Fraction(str(float(x)))


def _pick_nc(rng, cap=400):
    nc = int(rng.choice(NC_EDGE)) if rng.random() < 0.6 else int(rng.integers(1, 401))
    return min(nc, cap)


def _k0(p, nc):
    P = _pfrac(0.2 if p is None else p)
    return int(math.floor(P * nc))


def _pattern(rng, ns, M):
    """flag pattern kinds: positions of the samples to be flagged"""
    kind = str(rng.choice(['none', 'all', 'isolated', 'first', 'last', 'ends', 'run', 'two_runs', 'random', 'run_at_end', 'run_at_start']))
    f = np.zeros(ns, bool)
    if ns == 0:
        return f, 'none'
    if kind == 'all':
        f[:] = True
    elif kind == 'isolated':
        f[int(rng.integers(0, ns))] = True
    elif kind == 'first':
        f[0] = True
    elif kind == 'last':
        f[-1] = True
    elif kind == 'ends':
        f[0] = f[-1] = True
    elif kind in ('run', 'run_at_end', 'run_at_start'):
        r = int(rng.integers(1, min(ns, M + 2) + 1))
        a = 0 if kind == 'run_at_start' else ns - r if kind == 'run_at_end' else int(rng.integers(0, ns - r + 1))
        f[a:a + r] = True
    elif kind == 'two_runs':
        r1, r2 = int(rng.integers(1, 4)), int(rng.integers(1, 4))
        g = int(rng.integers(1, M + 3))
        if r1 + g + r2 <= ns:
            a = int(rng.integers(0, ns - (r1 + g + r2) + 1))
            f[a:a + r1] = True
            f[a + r1 + g:a + r1 + g + r2] = True
        else:
            f[0] = True
    elif kind == 'random':
        f = rng.random(ns) < rng.choice([0.05, 0.2, 0.5])
    return f, kind


def _pick_width(rng):
    u = rng.random()
    if u < 0.3:
        return None           # default
    if u < 0.95:
        return int(rng.choice(ODD_WIDTHS))
    return int(rng.choice([51, 101]))


def _pick_ns(rng, M, cap):
    u = rng.random()
    if u < 0.25:
        return int(rng.choice([1, 2, 3, max(M - 1, 1), M, M + 1, 2 * M + 1]))
    return int(rng.integers(1, cap + 1))


def _range_value(rng, nc, dtype):
    """max_voltage in one of the forms callers use; returns (max_voltage, per-channel float64 values, kind)"""
    nice = rng.random() < 0.5
    R0 = float(rng.choice(NICE_R if nice else GEN_R))
    kind = str(rng.choice(['pyfloat', 'pyint', 'len1', 'arr64', 'arr64', 'arr64var', 'arr32', 'arr32var', 'list', 'np32']))
    if kind == 'pyint' and R0 != int(R0):
        kind = 'pyfloat'
    gains = rng.choice([0.5, 1.0, 2.0], size=nc)
    if kind == 'pyfloat':
        mv = R0
    elif kind == 'pyint':
        mv = int(R0)
    elif kind == 'len1':
        mv = np.array([R0])
    elif kind == 'arr64':
        mv = np.full(nc, R0)
    elif kind == 'arr64var':
        mv = R0 * gains
    elif kind == 'arr32':
        mv = np.full(nc, R0, dtype=np.float32)
    elif kind == 'arr32var':
        mv = (R0 * gains).astype(np.float32)
    elif kind == 'list':
        mv = [float(x) for x in R0 * gains]
    else:
        mv = np.float32(R0)
    mva, _ = _mv_array(mv)
    per = np.broadcast_to(mva, (nc,)) if mva.shape[0] in (1, nc) else None
    return mv, per, kind + ('/nice' if nice else '')


def _thresholds(mv, nc, dtype):
    """per channel: the data values (in `dtype`) one step below, exactly at (or None) and one step above the
    threshold NumPy compares with (max_voltage * 0.98 evaluated in max_voltage's precision)."""
    mva, _ = _mv_array(mv)
    thr = np.broadcast_to(mva * 0.98, (nc,))           # NumPy's own arithmetic (weak scalar), not the repo code
    thr64 = thr.astype(np.float64)
    t = thr64.astype(dtype)
    tt = t.astype(np.float64)
    inf = np.array(np.inf, dtype)
    below = np.where(tt < thr64, t, np.nextafter(t, -inf))
    above = np.where(tt > thr64, t, np.nextafter(t, inf))
    at = np.where(tt == thr64, t, np.nan)
    return below.astype(dtype), at.astype(dtype), above.astype(dtype), thr64


def _case_over(ctx, i, small=False):
    rng = _rng(ctx, 'over', i)
    F = _forms(ctx, 'over', i)
    dtype = np.float32 if rng.random() < 0.6 else np.float64
    nc = _pick_nc(rng, 12 if small else 400)
    p = F.scalar('proportion', PROPS[int(rng.integers(0, len(PROPS)))])
    M = _pick_width(rng)
    Mi = 7 if M is None else M
    ns = _pick_ns(rng, Mi, 10 if nc > 100 else 28)
    mv, per, rkind = _range_value(rng, nc, dtype)
    below, at, above, thr = _thresholds(mv, nc, dtype)
    data = (rng.uniform(-0.5, 0.5, size=(nc, ns)) * thr[:, None]).astype(dtype)
    pat, pkind = _pattern(rng, ns, Mi)
    k0 = _k0(p, nc)
    tags = set()
    for t in np.where(pat)[0]:
        dk = int(rng.choice([-1, 0, 1, 1, 2]))
        n_above = int(np.clip(k0 + dk, 0, nc))
        n_at = int(min(rng.choice([0, 0, 1, 2]), nc - n_above))
        n_below = int(min(rng.choice([0, 1, 2]), nc - n_above - n_at))
        perm = rng.permutation(nc)
        ia, it, ib = perm[:n_above], perm[n_above:n_above + n_at], perm[n_above + n_at:n_above + n_at + n_below]
        sgn = rng.choice([-1.0, 1.0], size=nc).astype(dtype)
        how = str(rng.choice(['ulp', 'ulp', 'x1.5', 'full', 'x2']))
        val = {'ulp': above, 'x1.5': (1.5 * thr).astype(dtype), 'full': (thr / 0.98).astype(dtype), 'x2': (2 * thr / 0.98).astype(dtype)}[how]
        data[ia, t] = sgn[ia] * val[ia]
        atv = np.where(np.isnan(at), below, at)
        data[it, t] = sgn[it] * atv[it]
        data[ib, t] = sgn[ib] * below[ib]
        tags.add('k=k0%+d' % (n_above - k0) if abs(n_above - k0) <= 2 else 'k=other')
        if n_at and not np.isnan(at[it]).all():
            tags.add('value_at_threshold')
        if n_below:
            tags.add('value_ulp_below')
        if how == 'ulp' and n_above:
            tags.add('value_ulp_above')
    v = float(rng.choice([1e6, 1.0, float('inf')]))
    fs = None if rng.random() < 0.5 else float(rng.choice([30000.0, 2500.0]))
    case = {'data': data, 'max_voltage': mv, 'v_per_sec': F.scalar('v_per_sec', v), 'fs': F.scalar('fs', fs),
            'proportion': p, 'mute_window_samples': F.width(M), 'form': F.call()}
    return case, ['mode=over', 'pattern=' + pkind, 'range=' + rkind] + sorted(tags) + F.tags


def _slew_steps(dtype, fs, v):
    """smallest step d0 (in `dtype`) with |d0|/fs >= v under NumPy's own arithmetic for the scalars as they are passed, and its
    neighbours (bisection over the bit patterns of positive floats, which are ordered like the values)"""
    it = np.uint32 if dtype == np.float32 else np.uint64

    def val(k):
        return np.array([k], dtype=it).view(dtype)[0]

    def q(k):
        with warnings.catch_warnings():
            warnings.simplefilter('ignore')
            return bool((np.abs(np.array([val(k)], dtype)) / fs >= v)[0])
    g = float(v) * float(fs)
    lo = int(np.array([g * (1 - 1e-4)], dtype).view(it)[0])
    hi = int(np.array([g * (1 + 1e-4)], dtype).view(it)[0])
    assert not q(lo) and q(hi), (dtype, fs, v)
    while hi - lo > 1:
        mid = (lo + hi) // 2
        if q(mid):
            hi = mid
        else:
            lo = mid
    return val(hi - 1), val(hi), val(hi + 1)


def _case_slew(ctx, i):
    rng = _rng(ctx, 'slew', i)
    F = _forms(ctx, 'slew', i)
    dflt = _defaults()
    dtype = np.float32 if rng.random() < 0.6 else np.float64
    nc = _pick_nc(rng)
    p = F.scalar('proportion', PROPS[int(rng.integers(0, len(PROPS)))])
    M = _pick_width(rng)
    Mi = 7 if M is None else M
    ns = max(2, _pick_ns(rng, Mi, 10 if nc > 100 else 28))
    v = None if rng.random() < 0.5 else float(rng.choice([1e-8, 2.5e-8, 1e-3, 3.3e-9]))
    fs = None if rng.random() < 0.4 else float(rng.choice([30000.0, 2500.0, 30000.25, 29999.97]))
    v, fs = F.scalar('v_per_sec', v), F.scalar('fs', fs)          # the boundary steps are found for the scalars as they are passed
    dm, d0, dp = _slew_steps(dtype, dflt['fs'] if fs is None else fs, dflt['v_per_sec'] if v is None else v)
    k0 = _k0(p, nc)
    nyes = min(nc, k0 + 3)
    nnear = min(2, nc - nyes)
    step = np.full(nc, 0.1 * float(d0), dtype=dtype)
    step[:nyes] = rng.choice(np.array([d0, d0, dp, 10 * d0], dtype=dtype), size=nyes)
    step[nyes:nyes + nnear] = dm
    step *= rng.choice([-1.0, 1.0], size=nc).astype(dtype)
    perm = rng.permutation(nc)                   # channels are not ordered by class
    step = step[perm]
    yes = np.where(np.abs(step) >= d0)[0]
    near = np.where(np.abs(step) == dm)[0]
    far = np.where(np.abs(step) < dm)[0]
    pat, pkind = _pattern(rng, ns, Mi)
    data = np.zeros((nc, ns), dtype=dtype)
    tags = set()
    for t in range(ns - 1):
        data[:, t + 1] = data[:, t]
        if pat[t]:
            dk = int(rng.choice([-1, 0, 1, 1, 2]))
            n_yes = int(np.clip(k0 + dk, 0, len(yes)))
            sel = list(rng.permutation(yes)[:n_yes]) + list(near[:int(rng.integers(0, len(near) + 1))]) + \
                list(rng.permutation(far)[:int(rng.integers(0, 3))])
            for c in sel:
                data[c, t + 1] = step[c] if data[c, t] == 0 else 0
            tags.add('k=k0%+d' % (n_yes - k0) if abs(n_yes - k0) <= 2 else 'k=other')
            if len(near):
                tags.add('step_ulp_below')
            if n_yes and np.any(np.abs(step[yes[:]]) == d0):
                tags.add('step_at_limit')
    mv = float(rng.choice([1e30, 1e9])) if rng.random() < 0.7 else np.full(nc, 1e30, dtype=np.float32 if rng.random() < 0.5 else np.float64)
    case = {'data': data, 'max_voltage': mv, 'v_per_sec': v, 'fs': fs, 'proportion': p, 'mute_window_samples': F.width(M), 'form': F.call()}
    return case, ['mode=slew', 'pattern=' + pkind] + sorted(tags) + F.tags


def _case_natural(ctx, i):
    from scipy.stats import norm
    rng = _rng(ctx, 'natural', i)
    F = _forms(ctx, 'natural', i)
    dflt = _defaults()
    dtype = np.float32 if rng.random() < 0.7 else np.float64
    nc = _pick_nc(rng)
    p = PROPS[int(rng.integers(0, len(PROPS)))]
    pe = min(max(0.2 if p is None else p, 0.02), 0.98)
    p = F.scalar('proportion', p)
    M = _pick_width(rng)
    ns = int(rng.integers(2, 11 if nc > 100 else 25))
    mv, per, rkind = _range_value(rng, nc, dtype)
    z = float(norm.isf(pe / 2))
    sigma = 0.98 * per.astype(np.float64) / z
    amp = rng.choice([0.6, 0.9, 1.0, 1.1, 1.5], size=ns)
    data = (rng.standard_normal((nc, ns)) * sigma[:, None] * amp[None, :]).astype(dtype)
    fs = None if rng.random() < 0.5 else 30000.0
    v = float(z * np.median(sigma) * math.sqrt(2) / (dflt['fs'] if fs is None else fs)) * float(rng.choice([0.8, 1.0, 1.2, 50.0]))
    case = {'data': data, 'max_voltage': mv, 'v_per_sec': F.scalar('v_per_sec', v), 'fs': F.scalar('fs', fs), 'proportion': p,
            'mute_window_samples': F.width(M), 'form': F.call()}
    return case, ['mode=natural', 'range=' + rkind] + F.tags


def _case_runs(ctx, i, even=False):
    rng = _rng(ctx, 'even' if even else 'runs', i)
    dtype = np.float32 if rng.random() < 0.5 else np.float64
    nc = int(rng.choice([1, 1, 2, 3, 5]))
    if even:
        M = int(rng.choice([2, 4, 6, 8, 10, 16]))
    else:
        M = _pick_width(rng)
    Mi = 7 if M is None else M
    ns = _pick_ns(rng, Mi, ctx.n(120, 300))
    pat, pkind = _pattern(rng, ns, Mi)
    data = np.zeros((nc, ns), dtype=dtype)
    data[:, pat] = 2.0
    data *= rng.choice([-1.0, 1.0], size=(nc, 1)).astype(dtype)
    F = _forms(ctx, 'even' if even else 'runs', i)
    case = {'data': data, 'max_voltage': 1.0, 'v_per_sec': float('inf'), 'fs': F.scalar('fs', None),
            'proportion': F.scalar('proportion', None if rng.random() < 0.5 else 0.5), 'mute_window_samples': F.width(M), 'form': F.call()}
    return case, ['mode=' + ('even_width(code-vs-model only)' if even else 'runs'), 'pattern=' + pkind, 'ns<M' if ns < Mi else 'ns>=M'] + F.tags


def _case_edge(ctx, i):
    rng = _rng(ctx, 'edge', i)
    dtype = np.float32 if rng.random() < 0.5 else np.float64
    kind = ['nc1_vs_longer_range', 'wrong_length', 'width0', 'width_negative', 'ns0', 'ns1', 'ns2', 'empty_range', 'nc0', 'p_negative', 'nonfinite'][i % 11]
    nc, ns, M, p = int(rng.integers(2, 8)), int(rng.integers(3, 12)), None, None
    mv = 1.0
    if kind == 'nc1_vs_longer_range':
        nc, mv = 1, [0.5, 1.0, 4.0][:int(rng.integers(2, 4))]
    elif kind == 'wrong_length':
        mv = np.ones(nc + int(rng.choice([-1, 1, 2])))
        if mv.shape[0] in (1, nc):
            mv = np.ones(nc + 3)
    elif kind == 'width0':
        M = 0
    elif kind == 'width_negative':
        M = -int(rng.integers(1, 5))
    elif kind in ('ns0', 'ns1', 'ns2'):
        ns = int(kind[2])
    elif kind == 'empty_range':
        nc, mv = int(rng.choice([1, 3])), np.zeros(0)
    elif kind == 'nc0':
        nc = 0
    elif kind == 'p_negative':
        p = -0.1
    data = (rng.standard_normal((nc, ns)) * 0.8).astype(dtype)
    if kind == 'nonfinite':                      # IEEE corner: inf exceeds, nan never does, inf - inf = nan
        m = rng.random((nc, ns))
        data[m < 0.15] = np.inf
        data[(m >= 0.15) & (m < 0.3)] = -np.inf
        data[(m >= 0.3) & (m < 0.45)] = np.nan
    F = _forms(ctx, 'edge', i)
    case = {'data': data, 'max_voltage': mv, 'v_per_sec': float(rng.choice([1e-4, 1.0])), 'fs': None, 'proportion': p,
            'mute_window_samples': F.width(M), 'form': F.call()}
    return case, ['mode=edge', 'edge=' + kind] + F.tags


INT_DTYPES = [np.int16, np.int32, np.int64, np.int64]


def _case_int(ctx, i):
    """integer traces ("same units as data", "V/s (or units/s)"): slew-only events on k0-1 / k0 / k0+1 / all channels with
    integer steps one below / at / one above the limit, or over-threshold events around an integer range; never the dtype's
    minimum and never a step that leaves the dtype (known finding int_overflow)"""
    rng = _rng(ctx, 'int', i)
    F = _forms(ctx, 'int', i)
    dflt = _defaults()
    j = int(rng.integers(0, 4))
    dtype = INT_DTYPES[j]
    nc = _pick_nc(rng)
    p = F.scalar('proportion', PROPS[int(rng.integers(0, len(PROPS)))])
    M = _pick_width(rng)
    Mi = 7 if M is None else M
    ns = max(2, _pick_ns(rng, Mi, 10 if nc > 100 else 24))
    k0 = _k0(p, nc)
    pat, pkind = _pattern(rng, ns, Mi)
    data = np.zeros((nc, ns), dtype=dtype)
    tags = set()
    if rng.random() < 0.65:
        what = 'slew'
        s0 = int(rng.choice([2, 3, 10, 100, 1000]))
        fs = [None, 1, 30000, 2500.0, 30000.0][int(rng.integers(0, 5))]
        fsv = dflt['fs'] if fs is None else fs
        v = F.scalar('v_per_sec', s0 / fsv)                       # a step of exactly s0 units reaches the limit
        fs = F.scalar('fs', fs)
        step = np.ones(nc, dtype=np.int64)
        nyes = min(nc, k0 + 3)
        nnear = min(2, nc - nyes)
        step[:nyes] = rng.choice([s0, s0, s0 + 1, 10 * s0], size=nyes)
        step[nyes:nyes + nnear] = s0 - 1
        step *= rng.choice([-1, 1], size=nc)
        step = step[rng.permutation(nc)]
        with warnings.catch_warnings():
            warnings.simplefilter('ignore')
            reach = (np.abs(step.astype(dtype)) / (dflt['fs'] if fs is None else fs) >= v)       # NumPy's own arithmetic
        yes, near = np.where(reach)[0], np.where(np.abs(step) == s0 - 1)[0]
        far = np.where(~reach & (np.abs(step) != s0 - 1))[0]
        for t in range(ns - 1):
            data[:, t + 1] = data[:, t]
            if pat[t]:
                dk = int(rng.choice([-1, 0, 1, 1, 2, 10 ** 6]))
                n_yes = int(np.clip(k0 + dk, 0, len(yes)))
                sel = list(rng.permutation(yes)[:n_yes]) + list(near[:int(rng.integers(0, len(near) + 1))]) + \
                    list(rng.permutation(far)[:int(rng.integers(0, 3))])
                for c in sel:
                    data[c, t + 1] = step[c] if data[c, t] == 0 else 0
                tags.add('k=all' if n_yes == nc else 'k=k0%+d' % (n_yes - k0) if abs(n_yes - k0) <= 2 else 'k=other')
                tags.add('int_step_at_limit')
        mv = [10 ** 6, 1e9, np.full(nc, 10 ** 6), np.full(nc, 1e9), np.full(nc, 1e9, np.float32)][int(rng.integers(0, 5))]
    else:
        what = 'over'
        R = int(rng.choice([50, 100, 512, 8192, 32767]))
        mv = [R, float(R), np.full(nc, R), np.full(nc, float(R)), np.full(nc, R, np.float32), [R] * nc][int(rng.integers(0, 6))]
        thr = 0.98 * R
        above = int(math.floor(thr)) + 1
        at = int(thr) if float(thr).is_integer() else int(math.floor(thr))       # a tie when 0.98 R is an integer, else just below
        for t in np.where(pat)[0]:
            dk = int(rng.choice([-1, 0, 1, 1, 2, 10 ** 6]))
            n_above = int(np.clip(k0 + dk, 0, nc))
            n_at = int(min(rng.choice([0, 1, 2]), nc - n_above))
            perm = rng.permutation(nc)
            sgn = rng.choice([-1, 1], size=nc)
            data[perm[:n_above], t] = (sgn * above)[perm[:n_above]] if rng.random() < 0.7 else (sgn * R)[perm[:n_above]]
            data[perm[n_above:n_above + n_at], t] = (sgn * at)[perm[n_above:n_above + n_at]]
            tags.add('k=all' if n_above == nc else 'k=k0%+d' % (n_above - k0) if abs(n_above - k0) <= 2 else 'k=other')
            tags.add('int_value_at_threshold')
        v, fs = F.scalar('v_per_sec', 1e12), F.scalar('fs', None)
    layout = 'T' if j == 3 else None                                 # the fourth "dtype" is a transposed int64 view
    case = {'data': data, 'max_voltage': mv, 'v_per_sec': v, 'fs': fs, 'proportion': p, 'mute_window_samples': F.width(M),
            'form': F.call(layout)}
    return case, ['mode=int_' + what, 'pattern=' + pkind] + sorted(tags) + F.tags


SWEEP_P = [None, 1 / 3, 0.5, 0.05, 0.25, 0.1]


def _case_sweep(ctx, i):
    """every channel count 1..400 with k0-1 / k0 / k0+1 channels over the threshold (one sample, or a step into a second one)"""
    nc = i % 400 + 1
    j = i // 400
    dk = (0, 1, -1)[j % 3]
    p = SWEEP_P[(j // 3) % len(SWEEP_P)]
    k = int(np.clip(_k0(p, nc) + dk, 0, nc))
    dtype = np.float32 if (nc + j) % 2 else np.float64
    use_slew = (nc + j // 3) % 3 == 0
    sel = (np.arange(nc) * 7919 + j) % nc if nc > 1 else np.zeros(1, int)
    sel = np.argsort(sel, kind='stable')[:k]
    if use_slew:
        data = np.zeros((nc, 2), dtype)
        data[sel, 1] = 1e-3
        case = {'data': data, 'max_voltage': 1.0, 'v_per_sec': None, 'fs': None, 'proportion': p, 'mute_window_samples': None}
    else:
        data = np.zeros((nc, 1), dtype)
        data[sel, 0] = -1.5
        case = {'data': data, 'max_voltage': 1.0, 'v_per_sec': 1.0, 'fs': None, 'proportion': p, 'mute_window_samples': None}
    return case, ['mode=sweep_nc_1..400', 'k=k0%+d' % (k - _k0(p, nc)), 'sweep=slew' if use_slew else 'sweep=over']


BUILDERS = {'int': _case_int, 'sweep': _case_sweep, 'over': _case_over, 'slew': _case_slew, 'natural': _case_natural, 'runs': _case_runs, 'edge': _case_edge,
            'even': lambda ctx, i: _case_runs(ctx, i, even=True)}


def build(ctx, mode, i):
    return BUILDERS[mode](ctx, i)


def _plan(ctx):
    q = ctx.quick
    return [('over', 600 if q else 6000), ('slew', 450 if q else 4500), ('natural', 200 if q else 2000),
            ('runs', 400 if q else 4000), ('edge', 40 if q else 200), ('even', 30 if q else 150),
            ('sweep', 800 if q else 400 * 3 * len(SWEEP_P)), ('int', 400 if q else 4000)]


def _describe(case, mode, i):
    d = case['data']
    mva, md = _mv_array(case['max_voltage'])
    return {'mode': mode, 'i': i, 'nc': int(d.shape[0]), 'ns': int(d.shape[1]), 'dtype': str(d.dtype), 'range_len': int(mva.shape[0]),
            'range_dtype': 'float' + md, 'proportion': case.get('proportion'), 'v_per_sec': case.get('v_per_sec'), 'fs': case.get('fs'),
            'mute_window_samples': case.get('mute_window_samples'), 'form': case.get('form'),
            'types': {k: type(case[k]).__name__ for k in ARG_ORDER if case.get(k) is not None}}


def _nc_tag(nc):
    return 'nc=0' if nc == 0 else 'nc=1' if nc == 1 else 'nc=2..9' if nc < 10 else 'nc=10..99' if nc < 100 else 'nc=100..400'


def correspondence(ctx):
    dflt = _defaults()
    # the property fixes the 98 %: the generated factor must be 49/50 (the other generated constants are the code's defaults)
    fac = ctx.consts.get('SAT_FACTOR')
    ans = ctx.lean(['consts'])[0]
    want = (f'ok factor={_fbits(0.98)} v={_fbits(dflt["v_per_sec"])} p={_fbits(dflt["proportion"])} M={dflt["mute_window_samples"]}')
    ctx.compare('consts', {'op': 'consts', 'SAT_FACTOR': str(fac)}, want, ans, nontrivial=False, tags=('const',))
    # cosine window: SciPy vs the Float twin of Saturation.cosineWin
    widths = list(range(1, 42)) + [51, 64, 101]
    for M, a in zip(widths, ctx.lean([f'win {M}' for M in widths])):
        w = _unbits(a.split()[1])
        good = w.shape == (M,) and np.allclose(w, _window(M), atol=1e-15, rtol=0)
        centre1 = bool(_window(M)[(M - 1) // 2] == 1.0)
        ctx.compare('win', {'op': 'win', 'M': M}, 'ok centre=' + str(centre1 if M % 2 else 'even'),
                    ('ok' if good else 'window differs') + ' centre=' + str(True if M % 2 else 'even'),
                    nontrivial=M > 1, tags=('window_twin',))
    # the function itself
    lines, cases = [], []
    for mode, n in _plan(ctx):
        for i in range(n):
            case, tags = build(ctx, mode, i)
            lines.append(_line(case, dflt))
            cases.append((mode, i, case, tags))
    answers = ctx.lean(lines)
    nflag = nmod = 0
    for (mode, i, case, tags), ans in zip(cases, answers):
        # every second case is called twice, every sixth three times, with the SAME argument objects: each call must agree
        # with the model of the values that were passed in (a pure function of its arguments)
        calls = 1 + (i % 2 == 0) + (i % 6 == 0)
        results = _run(case, calls)
        touched = next((_modified(r) for r in results if _modified(r)), None)
        if touched and calls < 3:          # informational by itself; follow up with more calls on the same objects
            calls = 3
            results = _run(case, calls)
        if touched:
            nmod += 1
            if nmod == 1:
                ctx.note(f'argument modified in place (tag only; followed up with 3 calls on the same objects): {touched}')
        model = _parse_answer(ans)
        nc, ns = case['data'].shape
        M = case.get('mute_window_samples')
        Mi = dflt['mute_window_samples'] if M is None else M
        direct = _direct(ns, Mi)
        for j, extra in enumerate(results[:-1]):
            a, b = _canon(extra, model, direct)
            ctx.compare('sat', dict(_describe(case, mode, i), call=j + 1, of=calls), a, b, nontrivial=False, tags=('repeated_call',))
        impl = results[-1]
        a, b = _canon(impl, model, direct)
        t = list(tags) + ['calls=%d' % calls] + (['argument_modified_in_place(tag only)'] if touched else [])
        t = t + [_nc_tag(nc), 'data=' + str(case['data'].dtype), 'range=float' + _mv_array(case['max_voltage'])[1],
                          'M=default' if M is None else 'M=%d' % M if M < 34 else 'M>=34', 'conv=direct' if direct else 'conv=fft',
                          'p=default' if case.get('proportion') is None else 'p=%.3g' % case['proportion']]
        if impl[0] == 'ok':
            nf = int(impl[1].sum())
            nflag += nf
            t.append('flags=none' if nf == 0 else 'flags=all' if nf == ns else 'flags=some')
            nontrivial = (0 < nf < ns) or any(s.startswith(('value_', 'step_', 'k=')) for s in tags)
        else:
            t.append('raises')
            nontrivial = True
        ctx.compare('sat', dict(_describe(case, mode, i), call=calls, of=calls), a, b, nontrivial=nontrivial, tags=tuple(t))
    # long flag vectors: Saturation.mute on the flags the real code produced
    lines, keep = [], []
    for i in range(ctx.n(80, 500)):
        rng = ctx.subrng(7, i)
        M = int(rng.choice(ODD_WIDTHS))
        ns = int(rng.integers(200, ctx.n(800, 3000)))
        pat, pkind = _pattern(rng, ns, M)
        data = np.zeros((1, ns), dtype=np.float32)
        data[0, pat] = 3.0
        case = {'data': data, 'max_voltage': 1.0, 'v_per_sec': float('inf'), 'mute_window_samples': M}
        impl = _call(case)
        if impl[0] != 'ok':
            ctx.compare('mute', {'mode': 'long', 'i': i}, impl[0], 'ok', tags=('mode=long_flags',))
            continue
        lines.append(f'mute {_blist(_window(M))} ' + (''.join('1' if b else '0' for b in impl[1])))
        keep.append((i, M, ns, pat, pkind, impl))
    for (i, M, ns, pat, pkind, impl), ans in zip(keep, ctx.lean(lines)):
        gm = _unbits(ans.split('=', 1)[1])
        model = ('ok', pat, gm)
        a, b = _canon(impl, model, _direct(ns, M))
        ctx.compare('mute', {'mode': 'long', 'i': i, 'ns': ns, 'mute_window_samples': M}, a, b, nontrivial=bool(pat.any() and not pat.all()),
                    tags=('mode=long_flags', 'pattern=' + pkind))
    ctx.note(f'defaults read from the real signature: {dflt}; flagged samples over all cases: {nflag}')
    import time
    times = []
    for part in (_scale_cases, _batch_cases, _maxint_table, _fullscale_cases, _pipeline_cases):
        t0 = time.time()
        part(ctx)
        times.append(f'{part.__name__} {time.time() - t0:.1f}s')
    ctx.note('wall time of the added parts: ' + ', '.join(times))


SEAMS = (1024, 4096, 8192, 30000, 32768, 60000, 65536)


def _case_scale(ctx, i):
    """A recording LONGER than any block an implementation could work in (2^15, 2^16, 30000, 60000 samples ...), a few
    channels wide; amplitude-only and slew-only events planted on and next to the multiples of those block sizes (and at
    random positions), far enough apart for the mute clauses to be judged one by one."""
    rng = ctx.subrng(11, i)
    nc = int(rng.choice([3, 4, 5, 8]))
    ns = int(rng.choice([65537 + 40, 70001, 98304 + 33, 131072 + 77]))
    dtype = np.float32 if i % 2 == 0 else np.float64
    fs, v = 30000.0, 1e-8
    data = np.zeros((nc, ns), dtype=dtype)
    # cases 0, 1, 2 are systematic: the step INTO a block boundary (slew between m*b - 1 and m*b), an amplitude event ON the
    # boundary sample, the step out of it; later cases draw the offset and the kind at random
    plan = {0: (-1, 'slew'), 1: (0, 'amp'), 2: (0, 'slew')}.get(i)
    pos = {}
    for b in SEAMS:
        for m in range(1, ns // b + 1):
            d, kind = plan if plan else (int(rng.integers(-2, 2)), 'slew' if rng.random() < 0.5 else 'amp')
            if 0 < m * b + d < ns - 2:
                pos.setdefault(m * b + d, kind)
    for x in rng.integers(5, ns - 5, size=30):
        pos.setdefault(int(x), 'slew' if rng.random() < 0.5 else 'amp')
    last = -100
    for t in sorted(pos):
        if t - last < 12:            # keep events apart (mute half-width 3)
            continue
        last = t
        k = nc if (plan or rng.random() < 0.7) else 0          # all channels (flagged) or none
        if pos[t] == 'amp':
            data[:k, t] = data[:k, t] + dtype(0.59) * (1 if data[0, t] >= 0 else -1)     # one sample beyond 98 % of range 1.0 ...
            # ... reached by two steps of 0.59: flagged by amplitude at t; the slew into and out of it is flagged too (adjacent samples)
        else:
            data[:k, t + 1:] += dtype(0.4) * (1 if data[0, t] <= 0 else -1)      # a step between t and t+1: slew only (|x| stays < 0.98)
    case = {'data': data, 'max_voltage': 1.0, 'v_per_sec': v, 'fs': fs, 'proportion': 0.2, 'mute_window_samples': 7, 'form': None}
    return case


def _scale_cases(ctx):
    for i in range(ctx.n(3, 12)):
        case = _case_scale(ctx, i)
        r = _safe_oracle(case)
        nc, ns = case['data'].shape
        ctx.compare('scale', {'mode': 'scale', 'i': i, 'nc': nc, 'ns': ns, 'dtype': str(case['data'].dtype)},
                    'ok' if r is None else 'C16 fails at scale: ' + str(r)[:300], 'ok', tags=('scale', 'scale-ns>65536'))
        if r is not None:
            ctx.scale_failures = getattr(ctx, 'scale_failures', []) + [(i, r)]
            continue
        # destripe_batched_eq_whole at the source's own batch length and taper: the batch-wise vector of the real function over the
        # model's schedule (tied to my_function by Tie.C16.saturation_calls_eq) is the flag vector of one call on the recording
        N, T = int(ctx.consts.get('DESTRIPE_NBATCH', 65536)), int(ctx.consts.get('DESTRIPE_TAPER', 1024))
        spec = f'sched:{N}:{T}' if i % 2 == 0 else f'workers:{N}:{T}:2:0.1'
        ans = ctx.lean([f'windows {ns} {spec}'])[0]
        parts = dict(x.split('=', 1) for x in ans.split()[1:]) if ans.startswith('ok ') else {}
        wins = [tuple(int(y) for y in x.split(':')) for x in parts.get('wins', '').split(',') if ':' in x]
        case = dict(case, mute_window_samples=None)
        real, whole = _real_batched(case, wins), _call(case)
        if parts.get('chain') == '1' and real[0] == 'ok' and whole[0] == 'ok':
            d = np.where(real[1] != whole[1])[0]
            ctx.compare('scale_batch', {'mode': 'scale_batch', 'i': i, 'ns': ns, 'batches': spec},
                        'ok' if d.size == 0 else f'batch-wise flags differ from the whole-recording flags at samples {d[:8].tolist()}', 'ok',
                        nontrivial=bool(whole[1].any()), tags=('scale', 'scale_batch', 'batches=' + spec.split(':')[0]))
        else:
            ctx.compare('scale_batch', {'mode': 'scale_batch', 'i': i, 'ns': ns, 'batches': spec}, f'{real[0]} {whole[0]} chain={parts.get("chain")}', 'ok ok chain=1',
                        tags=('scale', 'scale_batch'))


# ---------------------------------------------------------------------------------------------
# batch-wise use: saturation(data[:, a:b]) on overlapping batches, written over a recording-long vector
# (what decompress_destripe_cbin.my_function does with the flags; Saturation.batched / Chain / schedule / workerWindows)
# ---------------------------------------------------------------------------------------------
def _line_batch(case, dflt, wins):
    data = case['data']
    nc, ns = data.shape
    kind = data.dtype.kind
    dd = ('i%d' % (8 * data.dtype.itemsize)) if kind == 'i' else '32' if data.dtype == np.float32 else '64'
    mva, md = _mv_array(case['max_voltage'])
    fs = case['fs'] if case.get('fs') is not None else dflt['fs']
    vv = case['v_per_sec'] if case.get('v_per_sec') is not None else dflt['v_per_sec']
    v = 'd' if case.get('v_per_sec') is None else _fbits(case['v_per_sec'])
    p = 'd' if case.get('proportion') is None else _fbits(case['proportion'])
    if kind == 'i':
        rows = ';'.join(','.join(map(str, r.tolist())) for r in data)
    else:
        rows = ';'.join(_blist(r) for r in data)
    return f'batch {dd} {md} {_slew_form(data.dtype, fs, vv)} {ns} {nc} {_fbits(fs)} {v} {p} {wins} {_blist(mva)} {rows}'


def _chain_list(rng, ns):
    """a random batch list that satisfies Saturation.Chain: starts at 0, each batch starts at or before the last sample of the
    previous one, the last ends at ns"""
    wins, a, b = [], 0, int(rng.integers(1, min(ns, 12) + 1))
    while True:
        wins.append((a, b))
        if b == ns:
            return wins
        a = int(rng.integers(max(a, b - 4), b))             # a <= b - 1: at least one sample of overlap
        b = int(min(ns, max(b + 1, a + int(rng.integers(2, 14)))))


def _case_batch(ctx, i):
    """a short recording with amplitude-only and slew-only events planted on / next to the batch edges, and a batch list:
    the code's own schedule (scaled-down NBATCH / taper, taper 0 = no overlap), several workers in any order, a random chain,
    abutting batches, random batches in random order"""
    rng = ctx.subrng(12, i)
    dtype = [np.float32, np.float64, np.int16][int(rng.integers(0, 3))]
    integer = np.dtype(dtype).kind == 'i'
    nc = int(rng.choice([1, 2, 3, 5, 8]))
    p = [None, 0.5, 1 / 3][int(rng.integers(0, 3))]
    k0 = _k0(p, nc)
    kind = ['sched', 'sched', 'sched0', 'workers', 'workers', 'chain', 'abut', 'random'][i % 8]
    ns = int(rng.integers(6, 70))
    N = T = P = None
    if kind in ('sched', 'sched0'):
        N = int(rng.integers(3, 17))
        T = 0 if kind == 'sched0' else int(rng.integers(1, (N - 1) // 2 + 1))
        token = f'sched:{N}:{T}'
        ends = [k * (N - 2 * T) + N - 1 for k in range(ns // max(N - 2 * T, 1) + 1)]
    elif kind == 'workers':
        P = int(rng.integers(2, 4))
        N = int(rng.integers(3, 11))
        T = int(rng.integers(0, (N - 1) // 2 + 1))
        ns = int(rng.integers(P * N, P * N + 40))           # the size condition of C06 (every worker has a batch to process)
        order = [int(x) for x in rng.permutation(P)] if rng.random() < 0.7 else list(range(P))
        token = f'workers:{N}:{T}:{P}:' + '.'.join(map(str, order))
        ends = [k * (N - 2 * T) + N - 1 for k in range(ns // max(N - 2 * T, 1) + 1)]
    else:
        if kind == 'chain':
            wins = _chain_list(rng, ns)
        elif kind == 'abut':
            cuts = sorted(set([0, ns] + [int(x) for x in rng.integers(1, ns, size=int(rng.integers(1, 5)))]))
            wins = list(zip(cuts[:-1], cuts[1:]))
        else:
            wins = []
            for _ in range(int(rng.integers(1, 7))):
                a = int(rng.integers(0, ns))
                wins.append((a, int(rng.integers(a + 1, ns + 1))))
        token = ','.join(f'{a}:{b}' for a, b in wins)
        ends = [b - 1 for a, b in wins]
    if integer:
        R, fs, v, step, amp = 100, 1, 5.0, 10, 99
    else:
        R, fs, v, step, amp = 1.0, 30000.0, 1e-8, dtype(0.4), dtype(0.995)
    data = np.zeros((nc, ns), dtype=dtype)
    spots = {}
    for e in ends:                                          # on the last sample of a batch, and next to it
        for d in (0, 0, -1, 1):
            if rng.random() < 0.45 and 0 <= e + d < ns - 1:
                spots.setdefault(e + d, 'slew' if rng.random() < 0.7 else 'amp')
    for x in rng.integers(0, max(ns - 1, 1), size=int(rng.integers(0, 4))):
        spots.setdefault(int(x), 'slew' if rng.random() < 0.5 else 'amp')
    for t in sorted(spots):
        k = int(np.clip(k0 + int(rng.choice([0, 1, 1, nc])), 0, nc))
        ch = rng.permutation(nc)[:k]
        if spots[t] == 'slew':                              # a step between t and t+1, the level stays far below 98 % of range
            up = data[ch, t] == 0
            data[ch[up], t + 1:] = step
            data[ch[~up], t + 1:] = 0
        else:                                               # one sample beyond 98 % of range (the steps into and out of it fire too)
            data[ch, t] = amp
    case = {'data': data, 'max_voltage': R, 'v_per_sec': v, 'fs': fs, 'proportion': p, 'mute_window_samples': None}
    desc = {'mode': 'batch', 'i': i, 'nc': nc, 'ns': ns, 'dtype': str(np.dtype(dtype)), 'batches': token, 'proportion': p}
    return case, token, desc, ['mode=batch', 'batches=' + kind]


def _real_batched(case, wins):
    """the loop of decompress_destripe_cbin on the real function: flags of every batch written over np.zeros(ns, bool), in order;
    also the mute gain of every batch"""
    data = case['data']
    ns = data.shape[1]
    kw = {k: case[k] for k in ARG_ORDER if case.get(k) is not None}
    buf, mutes = np.zeros(ns, dtype=bool), []
    for a, b in wins:
        with warnings.catch_warnings():
            warnings.simplefilter('ignore')
            try:
                f, m = _sat()(data[:, a:b], case['max_voltage'], **kw)
            except ValueError as e:
                return (_classify(e),)
            except Exception as e:
                return (f'err {type(e).__name__} {str(e)[:60]}',)
        f, m = np.asarray(f), np.asarray(m)
        if f.shape != (b - a,) or m.shape != (b - a,) or f.dtype.kind not in 'bui':
            return (f'err shape flags{f.shape} mute{m.shape} for the batch [{a}, {b})',)
        buf[a:b] = f.astype(bool)
        mutes.append(m.astype(np.float64))
    return ('ok', buf, mutes)


def _parse_batch_answer(ans):
    if not ans.startswith('ok '):
        return None
    parts = dict(x.split('=', 1) for x in ans.split()[1:])
    fl = np.array([c == '1' for c in parts['flags']], dtype=bool) if parts['flags'] != '-' else np.zeros(0, bool)
    wins = [] if parts['wins'] == '-' else [tuple(int(y) for y in x.split(':')) for x in parts['wins'].split(',')]
    return fl, parts['chain'] == '1', wins


def _fl(a):
    return ''.join('1' if b else '0' for b in a)


def _batch_cases(ctx):
    dflt = _defaults()
    built = [_case_batch(ctx, i) for i in range(ctx.n(320, 3200))]
    answers = ctx.lean([_line_batch(case, dflt, token) for case, token, _, _ in built])
    Mi = int(dflt['mute_window_samples'])
    c = (Mi - 1) // 2
    lost = 0
    for (case, token, desc, tags), ans in zip(built, answers):
        parsed = _parse_batch_answer(ans)
        if parsed is None:
            ctx.compare('batch', desc, 'ok', ans, tags=tuple(tags))
            continue
        mflags, chain, wins = parsed
        ns = case['data'].shape[1]
        if any(a >= b for a, b in wins):           # an empty batch: the pipeline never calls saturation on one (outside the batch model's domain)
            ctx.case(desc, nontrivial=False, tags=('mode=batch', 'empty_batch(skipped)'))
            continue
        real = _real_batched(case, wins)
        tags = list(tags) + ['chain' if chain else 'no_chain', 'batches=%d' % len(wins) if len(wins) < 4 else 'batches>=4']
        if real[0] != 'ok':
            ctx.compare('batch', desc, real[0], 'ok flags=' + _fl(mflags), tags=tuple(tags))
            continue
        # (1) the batch-wise vector of the real function = Saturation.batched, whatever the batch list
        same = ctx.compare('batch', desc, 'ok flags=' + _fl(real[1]), 'ok flags=' + _fl(mflags), nontrivial=bool(real[1].any()), tags=tuple(tags))
        whole = _call(case)
        if whole[0] != 'ok':
            ctx.compare('batch_whole', desc, whole[0], 'ok', tags=('batch_whole',))
            continue
        differs = not np.array_equal(real[1], whole[1])
        if chain:
            # (2) batched_eq_whole: under the chain hypothesis the batch-wise vector IS the flag vector of one call on the recording
            ctx.compare('batch_whole', dict(desc, op='batch_whole'), 'ok flags=' + _fl(real[1]), 'ok flags=' + _fl(whole[1]),
                        nontrivial=bool(whole[1].any()), tags=('batch_whole', 'chain'))
        elif differs:
            lost += 1
            ctx.case(dict(desc, op='seam_lost'), nontrivial=True, tags=('no_chain:batch-wise differs from the whole recording (as the model says)',))
        if not same:
            continue
        # (3) mute_window_eq_whole: away from the batch edges the gain of a batch is the gain of the whole recording
        bad = None
        nrows = 0
        for (a, b), m in zip(wins, real[2]):
            for i in range(b - a):
                if (a == 0 or Mi - 1 <= i + c) and (b == ns or a + i + c + 1 < b):
                    nrows += 1
                    if abs(m[i] - whole[2][a + i]) > 1e-12 and bad is None:
                        bad = f'batch [{a}, {b}) local sample {i}: gain {m[i]!r}, whole recording {whole[2][a + i]!r} at sample {a + i}'
        ctx.compare('batch_mute', dict(desc, op='batch_mute'), 'ok' if bad is None else bad, 'ok', nontrivial=nrows > 0, tags=('batch_mute',))
    ctx.note(f'batch-wise use: {len(built)} batch lists; in {lost} of the lists that violate the chain hypothesis the batch-wise flags differ from the '
             f'whole-recording flags (seam sample judged without its next sample), as Saturation.batched computes')


# ---------------------------------------------------------------------------------------------
# full-scale voltage: Reader.range_volts / _get_max_int_from_meta, and "98 % of full scale" in raw ADC counts
# ---------------------------------------------------------------------------------------------
# (fixture meta, stream suffix, typeThis == imec, version by SpikeGLX convention, channel order of the sorted Reader is the file order)
FIXTURES = [('sample3B_g0_t0.imec1.ap.meta', 'imec0.ap', True, '3B2', True),
            ('sample3A_g0_t0.imec.ap.meta', 'imec.ap', True, '3A', True),
            ('sampleNP2.1_g0_t0.imec.ap.meta', 'imec0.ap', True, 'NP2.1', False),
            ('sampleNP2.4_4shanks_g0_t0.imec.ap.meta', 'imec0.ap', True, 'NP2.4', False),
            ('sampleNPultra_g0_t0.imec0.ap.meta', 'imec0.ap', True, 'NPultra', False),
            ('sample3B_g0_t0.nidq.meta', 'nidq', False, None, True),
            ('sample3B_g0_t0.imec1.lf.meta', 'imec0.lf', True, '3B2', True)]
NP1_GAINS = (50, 125, 250, 500, 1000, 1500, 2000, 3000)
MAXINTS = (512, 8192, 2048, 1024, 32768, 511, 700, 8191)


def _fixture_dir():
    import os
    from pathlib import Path
    return Path(os.environ.get('IBL_REPO', '/repo')) / 'src' / 'tests' / 'fixtures'


_FIX = {}


def _fixture_lines(name):
    if name not in _FIX:
        _FIX[name] = (_fixture_dir() / name).read_text().splitlines()
    return _FIX[name]


def _conventional_full_scale(imec, version, mi):
    """full scale in ADC counts by the SpikeGLX convention the property refers to (written from the documentation, not from the
    code): the meta value imMaxInt when present; else 512 for 1.0-type imec probes, 32768 for NI streams; a 2.0 probe always
    carries imMaxInt"""
    if mi is not None:
        return int(mi)
    if not imec:
        return 32768
    if version in ('NP2.1', 'NP2.4') or version is None:
        return None
    return 512


def _write_recording(tmp, case):
    """meta text of the fixture with the recording length, a plain 30 kHz rate, imMaxInt kept / removed / replaced, optionally
    per-channel AP gains; raw int16 counts in the voltage columns, zeros in the sync column"""
    import re
    from pathlib import Path
    name, suffix = FIXTURES[case['fixture']][:2]
    raw = case['raw']
    ns = raw.shape[0]
    lines = _fixture_lines(name)
    nsaved = int(float([l for l in lines if l.startswith('nSavedChans=')][0].split('=')[1]))
    out, seen = [], False
    for l in lines:
        k = l.split('=', 1)[0]
        if k == 'fileSizeBytes':
            l = f'fileSizeBytes={ns * nsaved * 2}'
        elif k == 'fileTimeSecs':
            l = f'fileTimeSecs={ns / 30000:.12f}'
        elif k in ('imSampRate', 'niSampRate'):
            l = f'{k}=30000'
        elif k == 'imMaxInt':
            seen = True
            if case['mi_edit'] == 'delete':
                continue
            if case['mi_edit'] != 'keep':
                l = f'imMaxInt={case["mi_edit"]}'
        elif k == '~imroTbl' and case.get('gains') is not None:
            hdr = re.match(r'~imroTbl=(\([^)]*\))', l).group(1)
            six = re.search(r'\)\(\d+ \d+ \d+ \d+ \d+ \d+\)', l) is not None
            l = '~imroTbl=' + hdr + ''.join(f'({i} 0 0 {g} 250' + (' 1)' if six else ')') for i, g in enumerate(case['gains']))
        out.append(l)
    if not seen and case['mi_edit'] not in ('keep', 'delete'):
        out.append(f'imMaxInt={case["mi_edit"]}')
    D = np.zeros((ns, nsaved), np.int16)
    D[:, :raw.shape[1]] = raw
    binf = Path(tmp) / f'rec.{suffix}.bin'
    D.tofile(binf)
    (Path(tmp) / f'rec.{suffix}.meta').write_text('\n'.join(out) + '\n')
    return binf


def _fixture_maxint(name):
    for l in _fixture_lines(name):
        if l.startswith('imMaxInt='):
            return int(float(l.split('=')[1]))
    return None


def _case_fullscale(ctx, i):
    """a short recording of raw counts next to 98 % of the full scale, on just below / at / just above the proportion of the
    channels, under a meta file whose imMaxInt is kept, removed or replaced; uniform or (file-ordered probes) per-channel gains"""
    rng = ctx.subrng(13, i)
    fx = i % len(FIXTURES)
    name, suffix, imec, version, file_order = FIXTURES[fx]
    edit = ['keep', 'keep', 'delete', 'set'][int(rng.integers(0, 4))]
    own = _fixture_maxint(name)
    if edit == 'set':
        edit = int(rng.choice(MAXINTS))
    mi = own if edit == 'keep' else None if edit == 'delete' else int(edit)
    M = _conventional_full_scale(imec, version, mi)
    ncv = 1 if suffix == 'nidq' else 384
    ns = int(rng.integers(2, 9))
    p = [None, None, 0.5, 0.1][int(rng.integers(0, 4))]
    k0 = _k0(p, ncv)
    Mp = M if M is not None else 8192
    raw = rng.integers(-Mp // 3, Mp // 3 + 1, size=(ns, ncv)).astype(np.int16)
    thr = Fraction(49 * Mp, 50)
    above = min(int(math.floor(thr)) + 1, 32767)
    below = int(math.ceil(thr)) - 1                          # strictly below, never an exact tie (0.98 M an integer only for M = 700 here)
    tags = set()
    for t in range(ns):
        if rng.random() < 0.7:
            dk = int(rng.choice([-1, 0, 1, 1, 2, 10 ** 6]))
            n_above = int(np.clip(k0 + dk, 0, ncv))
            n_below = int(min(rng.choice([0, 1, 3]), ncv - n_above))
            perm = rng.permutation(ncv)
            sgn = rng.choice([-1, 1], size=ncv)
            hi = above if rng.random() < 0.7 else min(Mp - 1, 32767) if rng.random() < 0.5 else min(Mp, 32767)
            raw[t, perm[:n_above]] = (sgn * max(hi, above))[perm[:n_above]]
            raw[t, perm[n_above:n_above + n_below]] = (sgn * below)[perm[n_above:n_above + n_below]]
            tags.add('k=all' if n_above == ncv else 'k=k0%+d' % (n_above - k0) if abs(n_above - k0) <= 2 else 'k=other')
            tags.add('count_just_above_98pc')
            if n_below:
                tags.add('count_just_below_98pc')
    gains = None
    if file_order and suffix.endswith('ap') and rng.random() < 0.5:
        gains = [int(g) for g in rng.choice(NP1_GAINS, 384)]     # a per-channel SpikeGLX setting (known finding range_volts_file_order: only probes read in file order)
    case = {'kind': 'fullscale', 'fixture': fx, 'mi_edit': edit, 'mi': mi, 'raw': raw, 'proportion': p, 'gains': gains}
    desc = {'mode': 'fullscale', 'i': i, 'fixture': name, 'imMaxInt': 'fixture' if edit == 'keep' else edit, 'ns': ns, 'nc': ncv, 'proportion': p,
            'gains': 'per-channel' if gains else 'fixture'}
    return case, desc, ['mode=fullscale', 'probe=' + (version or 'nidq'), 'imMaxInt=' + ('fixture' if edit == 'keep' else 'absent' if edit == 'delete' else 'set'),
                        'gains=' + ('per-channel' if gains else 'fixture')] + sorted(tags)


def _run_fullscale(case):
    """the production composition on a real Reader: saturation(sr[:, :ncv].T, max_voltage=sr.range_volts[:ncv], fs=sr.fs) with the
    slew criterion switched off.  ('ok', maxint, flags) or ('err raises',)"""
    import shutil
    import tempfile
    import logging
    import spikeglx
    tmp = tempfile.mkdtemp()
    sr = None
    lvl = logging.getLogger('ibllib').level
    logging.getLogger('ibllib').setLevel(logging.CRITICAL)
    try:
        with warnings.catch_warnings():
            warnings.simplefilter('ignore')
            binf = _write_recording(tmp, case)
            try:
                sr = spikeglx.Reader(binf)
                ncv = sr.nc - sr.nsync
                data = sr[:, :ncv].T
                mv = sr.range_volts[:ncv]
                mx = spikeglx._get_max_int_from_meta(sr.meta)
                kw = {} if case.get('proportion') is None else {'proportion': case['proportion']}
                sat, _ = _sat()(data, mv, v_per_sec=float('inf'), fs=sr.fs, **kw)
            except Exception as e:
                return ('err raises', f'{type(e).__name__}: {str(e)[:80]}')
        sat = np.asarray(sat)
        if sat.shape != (case['raw'].shape[0],):
            return (f'err shape {sat.shape}',)
        return ('ok', int(mx), sat.astype(bool))
    finally:
        logging.getLogger('ibllib').setLevel(lvl)
        if sr is not None:
            try:
                sr.close()
            except Exception:
                pass
        shutil.rmtree(tmp, ignore_errors=True)


def _line_fullscale(case):
    name, suffix, imec, version, _ = FIXTURES[case['fixture']]
    P = _pfrac(0.2 if case.get('proportion') is None else case['proportion'])
    raw = case['raw']
    rows = ';'.join(','.join(map(str, r.tolist())) for r in raw.T)
    return (f'rawsat {P.numerator} {P.denominator} {1 if imec else 0} {version or "-"} {"-" if case["mi"] is None else case["mi"]} '
            f'{raw.shape[0]} {raw.shape[1]} {rows}')


def _fullscale_cases(ctx):
    built = [_case_fullscale(ctx, i) for i in range(ctx.n(56, 420))]
    answers = ctx.lean([_line_fullscale(case) for case, _, _ in built])
    for (case, desc, tags), ans in zip(built, answers):
        r = _run_fullscale(case)
        impl = f'ok maxint={r[1]} flags={_fl(r[2])}' if r[0] == 'ok' else r[0]
        nf = int(r[2].sum()) if r[0] == 'ok' else -1
        ctx.compare('fullscale', desc, impl, ans, nontrivial=True,
                    tags=tuple(tags) + (('raises',) if nf < 0 else ('flags=none' if nf == 0 else 'flags=all' if nf == len(r[2]) else 'flags=some',)))


VERSION_KEYS = [({'typeEnabled': 'imec'}, '3A'), ({'imDatPrb_type': 0.0, 'imDatPrb_port': 1.0, 'imDatPrb_slot': 2.0}, '3B2'), ({'imDatPrb_type': 0.0}, '3B1'),
                ({'imDatPrb_type': 21.0}, 'NP2.1'), ({'imDatPrb_type': 1030.0}, 'NP2.1'), ({'imDatPrb_type': 24.0}, 'NP2.4'),
                ({'imDatPrb_type': 2013.0}, 'NP2.4'), ({'imDatPrb_type': 1100.0}, 'NPultra'), ({'imDatPrb_type': 9999.0}, None)]


def _maxint_table(ctx):
    """_get_max_int_from_meta on meta dictionaries of every probe family x imMaxInt absent / present x the optional explicit
    version argument (positional / keyword, also one that contradicts the dictionary) against Saturation.fullScaleInt"""
    import spikeglx
    rows = []
    for keys, version in VERSION_KEYS:
        for mi in (None, 512.0, 8192.0, 2048, 511.0, 32768.0):
            md = dict(keys, typeThis='imec')
            if mi is not None:
                md['imMaxInt'] = mi
            rows.append((md, 1, version, mi, None))
            for given in ('3B2', 'NP2.4', 'NPultra', 'NP2.1', '3A'):
                rows.append((md, 1, given, mi, given))
    for tt in ('nidq', 'obx', None):
        for mi in (None, 32768.0, 512.0, 8192):
            md = {} if tt is None else {'typeThis': tt}
            if mi is not None:
                md['imMaxInt'] = mi
            rows.append((md, 0, None, mi, None))
            rows.append((md, 0, None, mi, 'NP2.4'))
    lines = [f'maxint {imec} {version or "-"} {"-" if mi is None else int(mi)}' for _, imec, version, mi, _ in rows]
    for j, ((md, imec, version, mi, given), ans) in enumerate(zip(rows, ctx.lean(lines))):
        try:
            b = spikeglx.Bunch(md)
            if given is None:
                r = spikeglx._get_max_int_from_meta(b)
            elif j % 2:
                r = spikeglx._get_max_int_from_meta(b, given)
            else:
                r = spikeglx._get_max_int_from_meta(b, neuropixel_version=given)
            impl = f'ok {int(r)}'
        except Exception:
            impl = 'err raises'
        ctx.compare('maxint', {'op': 'maxint', 'meta': {k: (v if isinstance(v, str) else float(v)) for k, v in md.items()}, 'version_argument': given},
                    impl, ans, nontrivial=True, tags=('maxint_table', 'imMaxInt=' + ('absent' if mi is None else 'present'),
                                                      'version=' + ('explicit' if given else 'from_meta')))


# ---------------------------------------------------------------------------------------------
# the production path: decompress_destripe_cbin saves the batch-wise flags (one worker, or workers run in order)
# ---------------------------------------------------------------------------------------------
class _SeqParallel:
    """stand-in for joblib.Parallel: every task once, sequentially, in the order given"""
    order = None

    def __init__(self, n_jobs=None, **kw):
        pass

    def __call__(self, tasks):
        tasks = list(tasks)
        for k in (type(self).order or range(len(tasks))):
            func, args, kwargs = tasks[k]
            func(*args, **kwargs)
        return [None] * len(tasks)


PIPE_STEP, PIPE_AMP = 300, 505          # counts: a step far above the slew limit (128 counts at gain 500), a level above 0.98 * 512


def _pipeline_input(ctx, i):
    """(ns, nbatch, nprocesses, order, events): a 3B recording that is flat except for common steps of 300 counts placed on the last
    sample of batches (and at random) and single samples at 505 counts"""
    rng = ctx.subrng(14, i)
    T = int(ctx.consts.get('DESTRIPE_TAPER', 1024))
    P = 1 if i % 2 == 0 else 2
    N = 2 * T + (1024 if i < 2 else int(rng.choice([2048, 1024, 3072])))      # the two quick cases use the shortest batches
    ns = N + int(rng.integers(N // 3 + 300, N // 2 + 400)) if P == 1 else 2 * N + int(rng.integers(300, 700))
    S = N - 2 * T
    ends = [k * S + N - 1 for k in range(ns // S + 1) if k * S + N - 1 < ns - 2]
    steps = sorted(set(ends + [int(x) for x in rng.integers(10, ns - 10, size=2)]))
    amps = sorted(set(int(x) for x in rng.integers(10, ns - 10, size=2)) - set(steps) - set(t + 1 for t in steps))
    return {'kind': 'pipeline', 'ns': ns, 'nbatch': N, 'nprocesses': P, 'order': list(range(P)), 'steps_between_t_and_t+1': steps, 'amplitude_samples': amps}


def _pipeline_raw(inp):
    raw = np.zeros((inp['ns'], 384), np.int16)
    level = 0
    for t in inp['steps_between_t_and_t+1']:
        level = PIPE_STEP - level
        raw[t + 1:, :] = level
    for t in inp['amplitude_samples']:
        raw[t, :] = PIPE_AMP
    return raw


def _run_pipeline(inp):
    """the real decompress_destripe_cbin on the recording; ('ok', saved flag vector, channel-0 volts, its range, fs, whole-recording flags of
    the real saturation) or ('skipped', why) when the pipeline itself does not run (not a matter of C16)"""
    import shutil
    import tempfile
    import logging
    from pathlib import Path
    tmp = Path(tempfile.mkdtemp())
    lvl = logging.getLogger('ibllib').level
    logging.getLogger('ibllib').setLevel(logging.CRITICAL)
    try:
        import spikeglx
        from ibldsp import voltage
        raw = _pipeline_raw(inp)
        binf = _write_recording(tmp, {'fixture': 0, 'mi_edit': 'keep', 'raw': raw, 'gains': None})
        with warnings.catch_warnings():
            warnings.simplefilter('ignore')
            sr = spikeglx.Reader(binf)
            x = sr[:, :384].T
            rv = sr.range_volts[:384]
            fs = sr.fs
            whole = voltage.saturation(x, max_voltage=rv, fs=fs)[0]
            sr.close()
            keep = voltage.Parallel
            voltage.Parallel = _SeqParallel
            _SeqParallel.order = list(inp['order'])
            try:
                voltage.decompress_destripe_cbin(binf, tmp / 'out.bin', nbatch=int(inp['nbatch']), nprocesses=int(inp['nprocesses']))
            finally:
                voltage.Parallel = keep
                _SeqParallel.order = None
        f = tmp / '_iblqc_ephysSaturation.samples.npy'
        if not f.exists():
            return ('skipped', 'no _iblqc_ephysSaturation.samples.npy was saved')
        saved = np.load(f)
        if saved.shape != (inp['ns'],):
            return ('skipped', f'saved vector of shape {saved.shape}')
        return ('ok', saved.astype(bool), x[0].copy(), rv[:1].copy(), float(fs), np.asarray(whole).astype(bool))
    except Exception as e:
        return ('skipped', f'{type(e).__name__}: {str(e)[:120]}')
    finally:
        logging.getLogger('ibllib').setLevel(lvl)
        shutil.rmtree(tmp, ignore_errors=True)


def _pipeline_rule(inp):
    """the property on the raw counts of the recording (every channel carries the same counts): flagged iff |raw| > 0.98 * 512 or the
    step into the next sample is at least 129 counts (limit 1e-8 V/s * 30000 Hz = 128.0 counts at 2.34 uV per count; the steps used are 300)"""
    r = _pipeline_raw(inp)[:, 0].astype(np.int64)
    flag = 50 * np.abs(r) > 49 * 512
    flag[:-1] |= np.abs(np.diff(r)) >= 129
    return flag


def oracle_pipeline(inp):
    res = _run_pipeline(inp)
    if res[0] != 'ok':
        return None
    want = _pipeline_rule(inp)
    d = np.where(res[1] != want)[0]
    if d.size:
        t = int(d[0])
        return (f'sample {t} is {"" if res[1][t] else "not "}flagged in the saved _iblqc_ephysSaturation.samples.npy; the rule on the recording says '
                f'{"flagged" if want[t] else "not flagged"} ({d.size} samples differ: {d[:6].tolist()}); saturation() on the whole recording: '
                f'{"flagged" if res[5][t] else "not flagged"}')
    return None


def _pipeline_cases(ctx):
    dflt = _defaults()
    T = int(ctx.consts.get('DESTRIPE_TAPER', 1024))
    for i in ([int(ctx.seed) % 2] if ctx.quick else range(8)):      # quick: one run, one worker or two by the seed
        inp = _pipeline_input(ctx, i)
        res = _run_pipeline(inp)
        desc = {'mode': 'pipeline', 'i': i, 'ns': inp['ns'], 'nbatch': inp['nbatch'], 'nprocesses': inp['nprocesses']}
        if res[0] != 'ok':
            ctx.note(f'pipeline case {i} not run: {res[1]}')
            ctx.case(desc, nontrivial=False, tags=('pipeline:skipped',))
            continue
        saved, x0, rv0, fs, whole = res[1:]
        case = {'data': x0[None, :], 'max_voltage': rv0, 'v_per_sec': None, 'fs': fs, 'proportion': None, 'mute_window_samples': None}
        token = f'workers:{inp["nbatch"]}:{T}:{inp["nprocesses"]}:' + '.'.join(map(str, inp['order']))
        parsed = _parse_batch_answer(ctx.lean([_line_batch(case, dflt, token)])[0])
        if parsed is None or not parsed[1]:
            ctx.note(f'pipeline case {i}: model answer unusable / not a chain')
            continue
        # INFORMATIONAL (what decompress_destripe_cbin stores is outside C16: nothing here can raise an alarm).  batched_eq_whole +
        # Tie.C16.saturation_calls_eq predict: workers run in order => saved vector = Saturation.batched = one call on the whole recording
        a1, a2 = np.array_equal(saved, parsed[0]), np.array_equal(saved, whole)
        ctx.case(desc, nontrivial=bool(saved.any()), tags=('pipeline(informational)', 'workers=%d' % inp['nprocesses'],
                                                           'pipeline:saved=model' if a1 else 'pipeline:saved!=model',
                                                           'pipeline:saved=whole_recording' if a2 else 'pipeline:saved!=whole_recording'))
        if not (a1 and a2):
            ctx.note(f'pipeline case {i} (informational, outside C16): saved flags {np.where(saved)[0].tolist()[:12]}, Saturation.batched '
                     f'{np.where(parsed[0])[0].tolist()[:12]}, whole recording {np.where(whole)[0].tolist()[:12]}')


# ---------------------------------------------------------------------------------------------
# oracle: the property text on the real code, independent of the model
# ---------------------------------------------------------------------------------------------
def _frac(x):
    return Fraction(float(x))


def oracle(case, info=None):
    """None when C16 holds for case['calls'] (default 1) successive calls of the real function with the same argument objects,
    else a description of the first violated clause (every call is judged against the values the caller passed in).
    Exact rational arithmetic on the stored values; a comparison closer to its boundary than rounding can resolve is
    'undecided' (either outcome accepted) unless it is an exact tie, which is decided by the text ('exceed', 'more than');
    the slew test accepts either outcome at an exact tie (the code uses >=)."""
    data = np.asarray(case['data'])
    if data.ndim != 2 or data.dtype.kind not in 'fi':
        return None
    nc, ns = data.shape
    dflt = _defaults()
    p = dflt['proportion'] if case.get('proportion') is None else case['proportion']
    v = dflt['v_per_sec'] if case.get('v_per_sec') is None else case['v_per_sec']
    fs = dflt['fs'] if case.get('fs') is None else case['fs']
    M = int(dflt['mute_window_samples'] if case.get('mute_window_samples') is None else case['mute_window_samples'])
    mva, md = _mv_array(case['max_voltage'])
    if nc < 1 or ns < 1 or mva.shape[0] not in (1, nc) or M < 1 or not (0 <= p) or not float(fs) > 0:
        return None                                   # outside the property's quantifier
    if data.dtype.kind == 'f' and not np.all(np.isfinite(data)):
        return None
    if data.dtype.kind == 'i':                        # known finding int_overflow: np.abs / np.diff wrap around in the data's dtype
        ii = np.iinfo(data.dtype)
        wide = data.astype(np.float64)
        if np.any(data == ii.min) or (ns > 1 and np.any(np.abs(np.diff(wide, axis=1)) > ii.max)):
            return None
    results = _run(case)
    R = np.broadcast_to(mva.astype(np.float64), (nc,))
    single = data.dtype == np.float32 or md == '32' or any(isinstance(x, np.float32) for x in (v, fs))
    eps = float(np.finfo(np.float32).eps if single else np.finfo(np.float64).eps)
    band = 16 * eps
    A = np.abs(data.astype(np.float64))
    T = 0.98 * R[:, None]
    over = np.where(A > T * (1 + band), 1, np.where(A < T * (1 - band), 0, -1)).astype(np.int8)     # -1 = look closer
    for c, t in zip(*np.where(over < 0)):
        over[c, t] = 0 if _frac(A[c, t]) == Fraction(49, 50) * _frac(R[c]) else 2                   # tie: does not exceed; 2 = undecided
    slew = np.zeros((nc, max(ns - 1, 0)), np.int8)
    if ns > 1 and math.isfinite(v):
        D = np.abs(np.diff(data.astype(np.float64), axis=1)) / float(fs)
        V = float(_pfrac(v))
        slew = np.where(D > V * (1 + band), 1, np.where(D < V * (1 - band), 0, 2)).astype(np.int8)
    P = _pfrac(p)

    def more(k):
        """is k of nc channels more than the proportion?  True / False / None (undecided)"""
        K = Fraction(int(k), nc)
        if K == P:
            return False
        if abs(K - P) <= Fraction(1, 10 ** 12):
            return None
        return K > P

    def judge(sat, mute):
        for t in range(ns):
            crit = [(int((over[:, t] == 1).sum()), int((over[:, t] >= 1).sum()), 'over 98 % of range')]
            if t + 1 < ns:
                crit.append((int((slew[:, t] == 1).sum()), int((slew[:, t] >= 1).sum()), 'over the slew limit into the next sample'))
            lo = [more(a) for a, b, _ in crit]
            hi = [more(b) for a, b, _ in crit]
            if any(x is True for x in lo) and not sat[t]:
                j = [x is True for x in lo].index(True)
                return f'sample {t}: {crit[j][0]} of {nc} channels {crit[j][2]} (> proportion {p}) but the sample is not flagged'
            if all(x is False for x in hi) and sat[t]:
                return (f'sample {t} is flagged although only {crit[0][1]} of {nc} channels exceed 98 % of range'
                        + (f' and {crit[1][1]} the slew limit' if len(crit) > 1 else '') + f' (not more than proportion {p})')
        if np.any(mute < 0) or np.any(mute > 1 + 1e-12) or not np.all(np.isfinite(mute)):
            t = int(np.where((mute < 0) | (mute > 1 + 1e-12) | ~np.isfinite(mute))[0][0])
            return f'mute gain {mute[t]!r} at sample {t} is outside [0, 1]'
        idx = np.where(sat)[0]
        if M % 2 == 1 and np.any(mute[idx] > 1e-12):
            t = int(idx[np.argmax(mute[idx] > 1e-12)])
            return f'sample {t} is flagged but its mute gain is {mute[t]!r}, not 0'
        if True:
            dist = np.full(ns, 10 ** 9)
            if idx.size:
                dist = np.min(np.abs(np.arange(ns)[:, None] - idx[None, :]), axis=1)
            far = dist > M // 2
            if np.any(np.abs(mute[far] - 1) > 1e-12):
                t = int(np.where(far & (np.abs(mute - 1) > 1e-12))[0][0])
                return f'sample {t} is {int(dist[t]) if idx.size else "infinitely"} samples from the nearest flag (half-width {M // 2}) but its mute gain is {mute[t]!r}, not 1'
        # depends on nothing but the flags: a different recording with the same flags gets the same gain
        other = {'data': np.where(sat[None, :], 2.0, 0.0).astype(np.float64), 'max_voltage': 1.0, 'v_per_sec': float('inf'),
                 'mute_window_samples': case.get('mute_window_samples')}
        r2 = _call(other)
        if r2[0] == 'ok' and np.array_equal(r2[1], sat) and not np.allclose(r2[2], mute, atol=1e-12, rtol=0):
            t = int(np.argmax(np.abs(r2[2] - mute)))
            return f'same flags, different gain: {mute[t]!r} at sample {t} here, {r2[2][t]!r} for a one-channel recording with identical flags'
        return None

    for j, res in enumerate(results):
        nth = '' if len(results) == 1 else f'call {j + 1} of {len(results)} with the same argument objects: '
        if res[0] != 'ok':
            return nth + f'the call failed: {res[0]}'
        r = judge(res[1], res[2])
        if r:
            return nth + r
    if info is not None:                # not a demand of C16 by itself: a hint for choosing follow-up calls
        info['modified'] = next((_modified(r) for r in results if _modified(r)), None)
    return None


def _safe_oracle(case, info=None):
    try:
        return oracle(case, info)
    except Exception as e:  # the oracle itself must not hide a crash of the real code
        return f'raised {type(e).__name__}: {e}'


def oracle_fullscale(case):
    """None when the flags of saturation(sr[:, :ncv].T, sr.range_volts[:ncv]) on a real Reader follow the property read in raw ADC
    counts: flagged iff more than the proportion of the channels have |raw| > 0.98 x full scale, the full scale being what the
    SpikeGLX convention says for the probe (independent of the code).  Exact integers; a sample that holds an exact tie is skipped."""
    name, suffix, imec, version, file_order = FIXTURES[case['fixture']]
    M = _conventional_full_scale(imec, version, case['mi'])
    if M is None or (case.get('gains') is not None and not file_order):
        return None                                    # no conventional full scale / range vector not lined up with the data (caller matter, see observations())
    r = _run_fullscale(case)
    if r[0] != 'ok':
        return 'the call failed: ' + str(r[-1])
    raw = np.abs(case['raw'].astype(np.int64))
    ncv = raw.shape[1]
    p = 0.2 if case.get('proportion') is None else case['proportion']
    P = _pfrac(p)
    for t in range(raw.shape[0]):
        if np.any(50 * raw[t] == 49 * M):
            continue
        k = int((50 * raw[t] > 49 * M).sum())
        want = Fraction(k, ncv) > P
        if bool(r[2][t]) != want:
            return (f'sample {t}: {k} of {ncv} channels exceed 98 % of the full scale of {M} counts ({"more" if want else "not more"} than the '
                    f'proportion {p}) but the sample is {"" if r[2][t] else "not "}flagged (max_voltage = Reader.range_volts, code full scale {r[1]})')
    return None


def _safe(fn, *a):
    try:
        return fn(*a)
    except Exception as e:
        return f'raised {type(e).__name__}: {e}'


def _tiny_fullscale():
    out = []
    for fx, (name, suffix, imec, version, _) in enumerate(FIXTURES):
        ncv = 1 if suffix == 'nidq' else 384
        for edit in ('keep', 'delete', 512, 8192, 32768):
            own = _fixture_maxint(name)
            mi = own if edit == 'keep' else None if edit == 'delete' else int(edit)
            M = _conventional_full_scale(imec, version, mi)
            if M is None:
                continue
            thr = Fraction(49 * M, 50)
            for val in (min(int(math.floor(thr)) + 1, 32767), int(math.ceil(thr)) - 1):
                raw = np.zeros((2, ncv), np.int16)
                raw[1, :] = -val
                out.append({'kind': 'fullscale', 'fixture': fx, 'mi_edit': edit, 'mi': mi, 'raw': raw, 'proportion': None, 'gains': None})
    return out


def _export_fullscale(case):
    name = FIXTURES[case['fixture']][0]
    return {'kind': 'fullscale', 'meta_fixture': 'src/tests/fixtures/' + name, 'imMaxInt_line': case['mi_edit'] if case['mi_edit'] in ('keep', 'delete') else int(case['mi_edit']),
            'imMaxInt_value': case['mi'], 'raw_counts[ns][nc]': case['raw'].tolist(), 'proportion': case.get('proportion'),
            'ap_gains': case.get('gains'), 'fixture': int(case['fixture'])}


def _import_fullscale(inp):
    return {'kind': 'fullscale', 'fixture': int(inp['fixture']), 'mi_edit': inp['imMaxInt_line'], 'mi': inp['imMaxInt_value'],
            'raw': np.array(inp['raw_counts[ns][nc]'], dtype=np.int16), 'proportion': inp.get('proportion'), 'gains': inp.get('ap_gains')}


def _shrink_fullscale(case, why):
    best, bwhy = case, why
    changed = True
    while changed:
        changed = False
        raw = best['raw']
        cands = [dict(best, raw=raw[a:b].copy()) for a, b in ((0, raw.shape[0] // 2), (raw.shape[0] // 2, raw.shape[0]), (1, raw.shape[0]), (0, raw.shape[0] - 1))
                 if 0 <= a < b <= raw.shape[0] and b - a < raw.shape[0]]
        if best.get('gains') is not None:
            cands.append(dict(best, gains=None))
        for c in cands:
            r = _safe(oracle_fullscale, c)
            if r:
                best, bwhy, changed = c, r, True
                break
    return best, bwhy


def _report_fullscale(case, why):
    return {'input': _export_fullscale(case), 'observed': why,
            'expected': 'C16: a sample is flagged exactly when more than `proportion` of the channels exceed 98 % of their full-scale voltage; with '
                        'max_voltage = Reader.range_volts that is |raw| > 0.98 x (imMaxInt, or 512 for 1.0 probes / 32768 for NI streams without it)',
            'how': 'harness/props/c16.py oracle_fullscale(_import_fullscale(input)): the fixture meta with fileSizeBytes / fileTimeSecs / rate adjusted and '
                   'the imMaxInt line kept / deleted / replaced, raw counts written as int16; sr = spikeglx.Reader(bin); '
                   'saturation(sr[:, :ncv].T, sr.range_volts[:ncv], v_per_sec=inf, fs=sr.fs)'}


def oracle_maxint(inp):
    """_get_max_int_from_meta on a meta dictionary against the SpikeGLX convention"""
    import spikeglx
    md, given = dict(inp['meta']), inp.get('version_argument')
    imec = md.get('typeThis') == 'imec'
    version = given
    if imec and version is None:
        version = next((v for keys, v in VERSION_KEYS if all(md.get(k) == x for k, x in keys.items()) and len(keys) == sum(k in md for k in ('typeEnabled', 'imDatPrb_type', 'imDatPrb_port', 'imDatPrb_slot'))), None)
    M = _conventional_full_scale(imec, version, md.get('imMaxInt'))
    if M is None:
        return None
    try:
        r = spikeglx._get_max_int_from_meta(spikeglx.Bunch(md)) if given is None else spikeglx._get_max_int_from_meta(spikeglx.Bunch(md), given)
    except Exception as e:
        return f'_get_max_int_from_meta raised {type(e).__name__}: {e} (full scale by convention: {M})'
    return None if int(r) == M else f'_get_max_int_from_meta returned {r}, the full scale of this stream is {M} counts'


def _tiny_cases():
    """small hand-shaped inputs, smallest first: each clause of the property on a few channels / samples"""
    out = []
    for dtype in (np.float64, np.float32, np.int16, np.int64):
        integer = np.dtype(dtype).kind == 'i'
        for nc in (1, 2, 5, 10):
            for ns in (1, 2, 3, 5):
                for p in (None, 0.5):
                    k0 = _k0(p, nc)
                    for M in (None, 3):
                        for t in sorted({0, ns // 2, ns - 1}):
                            for k in sorted({0, max(k0 - 1, 0), k0, min(k0 + 1, nc), nc}):
                                for rk in ('scalar', 'per'):
                                    R = (100.0 if integer else 50.0) if rk == 'scalar' else ((100.0 if integer else 50.0) * (1 + (np.arange(nc) // 2) % 3))
                                    Rc = np.broadcast_to(np.atleast_1d(R), (nc,))
                                    for what in ('tie', 'in97', 'in98', 'big', 'big2', 'step_big', 'step_neg', 'step_small'):
                                        d = np.zeros((nc, ns), dtype)
                                        kw = {'v_per_sec': 1e6}
                                        if what == 'tie':
                                            d[:k, t] = 0.98 * Rc[:k]               # 49, 98, 147 (98, 196, 294): exactly 98 % of the range
                                        elif what == 'in98':
                                            d[:k, t] = 0.99 * Rc[:k] if integer else 0.985 * Rc[:k]              # exceeds 98 %
                                        elif what == 'in97':
                                            d[:k, t] = -0.97 * Rc[:k] if integer else -0.975 * Rc[:k]             # does not
                                        elif what == 'big':
                                            d[:k, t] = -2 * Rc[:k]
                                        elif what == 'big2':                       # two adjacent saturated samples
                                            if t + 1 >= ns:
                                                continue
                                            d[:k, t] = -2 * Rc[:k]
                                            d[:k, t + 1] = -2 * Rc[:k]
                                        else:
                                            if ns < 2 or t + 1 >= ns:
                                                continue
                                            if integer:                            # units / s: limit 2 units per sample
                                                kw = {'v_per_sec': 2.0, 'fs': 1}
                                                d[:k, t + 1:] = {'step_big': 3, 'step_neg': -3, 'step_small': 1}[what]
                                            else:
                                                kw = {}
                                                d[:k, t + 1:] = {'step_big': 3e-3, 'step_neg': -3e-3, 'step_small': 3e-5}[what]    # limit 1e-8 * 30000 = 3e-4
                                        out.append({'data': d, 'max_voltage': ((100 if integer else 50.0) if rk == 'scalar' else np.array(R, dtype=float)),
                                                    'proportion': p, 'mute_window_samples': M, 'calls': 1, **kw})
                                        if rk == 'scalar' and what in ('in98', 'big', 'step_big') and M is None:
                                            # the same call in other legitimate forms: transposed view, positional spelling
                                            out.append(dict(out[-1], form={'layout': 'T', 'readonly': False, 'spelling': 'kw'}))
                                            out.append(dict(out[-2], form={'layout': 'C', 'readonly': True, 'spelling': 'pos'}))
                                        if rk == 'per' and what in ('in97', 'in98', 'tie') and M is None:
                                            # the caller keeps its range array and calls again
                                            out.append(dict(out[-1], calls=2))
    out.sort(key=lambda c: (c['data'].size, c['data'].shape[1], c['calls'], c['data'].dtype.kind == 'i', 'form' in c))
    return out


def _shrink(case, why):
    """keep the failure while cutting samples and channels"""
    best, bwhy = case, why
    changed = True
    while changed:
        changed = False
        d = best['data']
        nc, ns = d.shape
        mva, _ = _mv_array(best['max_voltage'])
        cands = []
        fm = best.get('form') or {}
        if fm.get('layout', 'C') != 'C' or fm.get('readonly') or fm.get('spelling', 'kw') != 'kw':
            cands.append(dict(best, form={'layout': 'C', 'readonly': False, 'spelling': 'kw'}))
        if (best.get('calls') or 1) > 1:
            cands.append(dict(best, calls=(best.get('calls') or 1) - 1))
        for a, b in ((ns // 2, ns), (0, ns - ns // 2), (1, ns), (0, ns - 1)):
            if 0 <= a < b <= ns and b - a < ns:
                cands.append(dict(best, data=d[:, a:b].copy()))
        if nc > 1:
            for sel in (slice(0, nc // 2), slice(nc // 2, nc), slice(1, nc), slice(0, nc - 1)):
                c = dict(best, data=d[sel].copy())
                if mva.shape[0] == nc:
                    c['max_voltage'] = np.asarray(best['max_voltage'])[sel].copy()
                cands.append(c)
        if nc > 1:
            for c0 in range(min(nc, 40)):            # a single channel
                c = dict(best, data=d[c0:c0 + 1].copy())
                if mva.shape[0] == nc:
                    c['max_voltage'] = np.asarray(best['max_voltage'])[c0:c0 + 1].copy()
                cands.append(c)
        thr = 0.5 * np.broadcast_to(mva.astype(np.float64), (nc,))[:, None] if mva.shape[0] in (1, nc) else None
        if thr is not None and d.dtype.kind == 'f' and np.any((d != 0) & (np.abs(d) < thr)):
            cands.append(dict(best, data=np.where(np.abs(d) < thr, 0, d).astype(d.dtype)))    # silence the background
        for c in cands:
            if c['data'].size == 0:
                continue
            r = _safe_oracle(c)
            if r:
                best, bwhy, changed = c, r, True
                break
    return best, bwhy


SCALAR_TYPES = {'int': int, 'float': float, 'float64': np.float64, 'float32': np.float32, 'int64': np.int64, 'int32': np.int32,
                'int16': np.int16, 'uint8': np.uint8}


def _export(case):
    """the concrete call, values and form: dtype, memory layout, spelling, scalar types, number of calls"""
    d = case['data']
    mv = case['max_voltage']
    num = (lambda x: int(x)) if d.dtype.kind == 'i' else (lambda x: float(x))
    if isinstance(mv, (int, float)) and not isinstance(mv, (np.floating, np.integer)):
        mvx, mvt = mv, 'python ' + type(mv).__name__
    elif isinstance(mv, list):
        mvx, mvt = list(mv), 'list'
    elif isinstance(mv, np.ndarray):
        mvx, mvt = [(int(x) if mv.dtype.kind in 'iu' else float(x)) for x in mv], 'ndarray ' + str(mv.dtype)
    else:
        mvx, mvt = float(mv), 'scalar ' + type(mv).__name__
    out = {'data': [[num(x) for x in row] for row in d], 'dtype': str(d.dtype), 'max_voltage': mvx, 'max_voltage_type': mvt}
    types = {}
    for k in ARG_ORDER:
        x = case.get(k)
        if x is None:
            out[k] = None
        else:
            types[k] = type(x).__name__
            out[k] = int(x) if isinstance(x, (int, np.integer)) else float(x)
    out.update({'types': types, 'form': case.get('form') or {'layout': 'C', 'readonly': False, 'spelling': 'kw'},
                'calls': int(case.get('calls') or 1)})
    return out


def _import(inp):
    data = np.array(inp['data'], dtype=np.dtype(inp['dtype'])).reshape(len(inp['data']), -1)
    mv, mvt = inp['max_voltage'], inp.get('max_voltage_type', '')
    if mvt.startswith('ndarray') or (not mvt and isinstance(mv, list)):
        dt = mvt.split()[1] if mvt else ('float32' if inp.get('max_voltage_dtype') == 'float32' else 'float64')
        mv = np.array(mv, dtype=np.dtype(dt))
    elif mvt.startswith('scalar'):
        mv = SCALAR_TYPES.get(mvt.split()[1], float)(mv)
    case = {'data': data, 'max_voltage': mv, 'calls': int(inp.get('calls') or 1), 'form': inp.get('form')}
    for k in ARG_ORDER:
        val = inp.get(k)
        if isinstance(val, str):        # json has no inf
            val = float(val)
        if val is not None:
            val = SCALAR_TYPES.get((inp.get('types') or {}).get(k, ''), type(val))(val)
        case[k] = val
    return case


def _report(case, why):
    return {'input': _export(case), 'observed': why,
            'expected': 'C16: flagged iff more than `proportion` of the channels exceed 0.98*max_voltage or reach the slew limit into the next '
                        'sample; mute in [0,1], 0 on flagged samples, 1 farther than mute_window_samples//2 from every flag, function of the flags',
            'how': 'python: from ibldsp.voltage import saturation; harness/props/c16.py oracle(_import(input)) '
                   '(saturation(np.array(data, dtype), max_voltage, **kwargs), `calls` times with the same argument objects)'}


def _follow_up(case):
    """the call left an argument modified: look for the consequence, a later call on the same objects whose result is wrong"""
    d = case['data']
    mva, _ = _mv_array(case['max_voltage'])
    if mva.shape[0] not in (1, d.shape[0]) or d.size == 0:
        return None
    R = np.broadcast_to(mva.astype(np.float64), (d.shape[0],))[:, None]
    for calls in (2, 3):
        cands = [dict(case, calls=calls)]
        for f in (0.975, 0.97, 0.95, 0.985, 0.99):
            for sgn in (1.0, -1.0):
                cands.append(dict(case, data=(sgn * f * R * np.ones_like(d, dtype=np.float64)).astype(d.dtype), calls=calls, v_per_sec=1e6))
        if d.shape[1] >= 2:
            for a in (2e-4, -2e-4):                      # a step through zero, twice the default slew limit 1e-8 * 30000
                x = np.zeros_like(d)
                x[:, 0], x[:, 1:] = -a, a
                cands.append(dict(case, data=x, calls=calls, v_per_sec=None, fs=None))
        for c in cands:
            r = _safe_oracle(c)
            if r:
                return c, r
    return None


def search(ctx, reasons):
    seen = set()
    for case in _tiny_cases():
        info = {}
        r = _safe_oracle(case, info)
        if r:
            return _report(*_shrink(case, r))
        key = (case['data'].shape, str(case['data'].dtype), isinstance(case['max_voltage'], np.ndarray))
        if info.get('modified') and key not in seen and len(seen) < 24:
            seen.add(key)
            f = _follow_up(case)
            if f:
                return _report(*_shrink(*f))
    for case in _tiny_fullscale():
        r = _safe(oracle_fullscale, case)
        if r:
            return _report_fullscale(*_shrink_fullscale(case, r))
    for m in ctx.mismatches[:40]:
        c = m['case']
        if c.get('mode') == 'fullscale':
            case = _case_fullscale(ctx, c['i'])[0]
            r = _safe(oracle_fullscale, case)
            if r:
                return _report_fullscale(*_shrink_fullscale(case, r))
        elif c.get('op') == 'maxint':
            inp = {'kind': 'maxint', 'meta': c['meta'], 'version_argument': c.get('version_argument')}
            r = _safe(oracle_maxint, inp)
            if r:
                return {'input': inp, 'observed': r, 'expected': 'full scale = imMaxInt when the meta has it, else 512 (1.0 imec probes) / 32768 (NI)',
                        'how': 'harness/props/c16.py oracle_maxint(input): spikeglx._get_max_int_from_meta(spikeglx.Bunch(meta)[, version_argument])'}
        elif c.get('mode') == 'batch':
            # every batch is an ordinary call of saturation on data[:, a:b]: judge each one by the property
            case, token, _, _ = _case_batch(ctx, c['i'])
            ans = ctx.lean([_line_batch(case, _defaults(), token)])[0]
            parsed = _parse_batch_answer(ans)
            for a, b in (parsed[2] if parsed else []):
                for form in ({'layout': 'strided'}, None):
                    sub = dict(case, data=case['data'][:, a:b].copy(), form=form, calls=1)
                    r = _safe_oracle(sub)
                    if r:
                        return _report(*_shrink(sub, r))
    found = None
    for m in ctx.mismatches[:60]:
        c = m['case']
        if c.get('mode') in BUILDERS:
            case, _ = build(ctx, c['mode'], c['i'])
            case['calls'] = 3
            r = _safe_oracle(case)
            if r:
                found = (case, r)
                break
    if not found:
        for mode, n in _plan(ctx):
            if mode == 'even':
                continue
            for i in range(min(n, 300)):
                case, _ = build(ctx, mode, i)
                case['calls'] = 2
                r = _safe_oracle(case)
                if r:
                    found = (case, r)
                    break
            if found:
                break
    if found:
        return _report(*_shrink(*found))
    for i, r in getattr(ctx, 'scale_failures', []):
        case = _case_scale(ctx, i)
        nc, ns = case['data'].shape
        return {'input': {'generator': 'harness/props/c16.py _case_scale(ctx, i)', 'i': i, 'seed': ctx.seed, 'nc': nc, 'ns': ns,
                          'dtype': str(case['data'].dtype), 'max_voltage': 1.0, 'v_per_sec': 1e-8, 'fs': 30000.0, 'proportion': 0.2,
                          'mute_window_samples': 7,
                          'events': 'all channels: one sample at 0.995 (amplitude) or a 0.4 step between t and t+1 (slew), on and next to '
                                    'multiples of ' + str(SEAMS)},
                'observed': str(r), 'expected': 'C16: flags follow the proportion rule at every sample, mute 0 on flags and 1 beyond the half width',
                'how': 'harness/props/c16.py oracle(_case_scale(ctx, i)) with VERIF_SEED = seed'}
    return None


def replay(ctx, rep):
    if rep['input'].get('kind') == 'fullscale':
        r = _safe(oracle_fullscale, _import_fullscale(rep['input']))
        print('oracle:', r)
        return r is not None
    if rep['input'].get('kind') == 'maxint':
        r = _safe(oracle_maxint, rep['input'])
        print('oracle:', r)
        return r is not None
    if rep['input'].get('generator', '').endswith('_case_scale(ctx, i)'):
        ctx.seed = int(rep['input'].get('seed', ctx.seed))
        r = _safe_oracle(_case_scale(ctx, int(rep['input']['i'])))
        print('oracle:', r)
        return r is not None
    r = _safe_oracle(_import(rep['input']))
    print('oracle:', r)
    return r is not None


def known_findings(ctx):
    def even_mute_window():
        d = np.zeros((1, 9))
        d[0, 4] = 2.0
        sat, mute = _sat()(d, 1.0, v_per_sec=float('inf'), mute_window_samples=8)
        ctx.note(f'F9: mute_window_samples=8, isolated flagged sample 4: flags={sat.astype(int).tolist()}, gain there {mute[4]!r} '
                 f'(1 - cos(pi/16) = {1 - math.cos(math.pi / 16)!r})')
        return bool(sat[4] and mute[4] > 1e-3)
    def int_overflow():
        # integer traces: np.abs(-32768) = -32768 and np.diff wraps around in int16
        a = np.array([[-32768, 0, 0]], dtype=np.int16)            # full-scale negative sample, range 32768: |x| > 0.98 range
        fa, _ = _sat()(a, 32768, v_per_sec=1e12)
        b = np.array([[-32768, 32767, 32767]], dtype=np.int16)    # a step of 65535 units, limit 2 units per sample
        fb, _ = _sat()(b, 1e9, v_per_sec=2.0, fs=1)
        ctx.note(f'int_overflow: int16 sample -32768 with range 32768 flagged={bool(fa[0])} (expected True); int16 step -32768 -> 32767 '
                 f'with limit 2 units/sample flagged={bool(fb[0])} (expected True)')
        return bool(not fa[0] and not fb[0])

    return {'even_mute_window': even_mute_window, 'int_overflow': int_overflow}


def observations(ctx):
    """Defects of CALLERS of saturation() observed while modelling.  They are outside C16 (the property is about the values saturation()
    returns for the arguments it is given; which range vector a caller passes, and in which order callers store the flags of several
    calls, is not part of it), so they are NOT known findings and are not run by ./check: call observations(ctx)[key]() by hand
    (True = still reproduces; details go to ctx.notes).  The Lean statements next to them are fullscale_misaligned_counterexample and
    batched_seam_counterexample."""

    def range_volts_file_order():
        # Reader.range_volts (and sample2volts) are in FILE channel order, the columns of sr[...] in geometry-sorted order: on a probe
        # whose sorted order is not the file order and whose channels have different AP gains, the production composition
        # saturation(sr[:, :ncv].T, sr.range_volts[:ncv]) compares a channel with the full scale of another channel
        fx = [k for k, f in enumerate(FIXTURES) if f[3] == 'NPultra'][0]
        raw = np.zeros((3, 384), np.int16)
        raw[1, :] = 400                                           # 78 % of the 512-count full scale on every channel
        case = {'kind': 'fullscale', 'fixture': fx, 'mi_edit': 'keep', 'mi': 512, 'raw': raw, 'proportion': None,
                'gains': [50 if c % 2 == 0 else 3000 for c in range(384)]}
        r = _run_fullscale(case)
        ctx.note(f'range_volts_file_order: NPultra meta with AP gains alternating 50 / 3000, every channel at 400 of 512 counts at sample 1: '
                 f'flags={r[2].astype(int).tolist() if r[0] == "ok" else r} (expected no flag)')
        return bool(r[0] == 'ok' and r[2][1])

    def saved_flags_worker_order():
        # decompress_destripe_cbin with 2 workers: worker 0's last batch ends at sample e; a slew-only event between e - 1 and e is
        # flagged by a call on the whole recording and by worker 1's first batch, but worker 0's batch (whose last sample has no next
        # sample) overwrites it when it is written later - the order in which the parallel workers normally finish
        return _demo_worker_order(ctx)
    return {'range_volts_file_order': range_volts_file_order, 'saved_flags_worker_order': saved_flags_worker_order}


def _demo_worker_order(ctx, N=4096, ns=8692):
    """runs the real decompress_destripe_cbin (2 workers, sequential stand-in for joblib) on a 3B recording that is flat except for
    one common step at the seam; returns True when the saved flag vector depends on the order in which the workers are run and
    differs from the flags of one call on the whole recording"""
    import shutil
    import tempfile
    import logging
    from pathlib import Path
    tmp = Path(tempfile.mkdtemp())
    lvl = logging.getLogger('ibllib').level
    logging.getLogger('ibllib').setLevel(logging.CRITICAL)
    try:
        import spikeglx
        from ibldsp import voltage
        T = int(ctx.consts.get('DESTRIPE_TAPER', 1024))
        ans = ctx.lean([f'windows {ns} workers:{N}:{T}:2:0', f'windows {ns} workers:{N}:{T}:2:1'])
        w0 = [tuple(int(y) for y in x.split(':')) for x in ans[0].split('wins=')[1].split(',')]
        seam = w0[-1][1] - 1
        raw = np.zeros((ns, 384), np.int16)
        raw[seam + 1:, :] = 300                                   # a step of 300 counts on every channel; |x| stays below 0.98 * 512
        case = {'kind': 'fullscale', 'fixture': 0, 'mi_edit': 'keep', 'mi': None, 'raw': raw, 'proportion': None, 'gains': None}
        binf = _write_recording(tmp, case)
        sr = spikeglx.Reader(binf)
        whole, _ = voltage.saturation(sr[:, :384].T, max_voltage=sr.range_volts[:384], fs=sr.fs)
        sr.close()
        saved = {}
        keep = voltage.Parallel
        voltage.Parallel = _SeqParallel
        try:
            for order in ((0, 1), (1, 0)):
                d = tmp / f'out{order[0]}'
                d.mkdir()
                _SeqParallel.order = order
                with warnings.catch_warnings():
                    warnings.simplefilter('ignore')
                    voltage.decompress_destripe_cbin(binf, d / 'out.bin', nbatch=N, nprocesses=2)
                saved[order] = np.load(d / '_iblqc_ephysSaturation.samples.npy')
        finally:
            voltage.Parallel = keep
            _SeqParallel.order = None
        ctx.note(f'saved_flags_worker_order: ns={ns}, nbatch={N}, 2 workers, step on all channels between samples {seam} and {seam + 1}: one call on the '
                 f'recording flags {np.where(whole)[0].tolist()}; saved vector, workers run 0 then 1: {np.where(saved[(0, 1)])[0].tolist()}; run 1 then 0 '
                 f'(worker 0 finishes last, as in a parallel run): {np.where(saved[(1, 0)])[0].tolist()}')
        return bool(whole[seam] and saved[(0, 1)][seam] and not saved[(1, 0)][seam])
    except Exception as e:
        ctx.note(f'saved_flags_worker_order: demonstration could not run ({type(e).__name__}: {e})')
        return False
    finally:
        logging.getLogger('ibllib').setLevel(lvl)
        shutil.rmtree(tmp, ignore_errors=True)
