"""C06 — Chunked destripe-to-file writes every sample exactly once, for any worker count
(ibldsp.voltage.decompress_destripe_cbin)."""
import concurrent.futures
import hashlib
import io
import json
import multiprocessing
import os
import shutil
import sys
import tempfile
import time
import traceback
from pathlib import Path

import numpy as np

ID = 'C06'
DRIVER = 'C06'
LEAN_TARGETS = ['IblVerif.Properties.C06']
THEOREMS = [
    'IblVerif.C06.no_worker_fails',
    'IblVerif.C06.writes_partition',
    'IblVerif.C06.final_file',
    'IblVerif.C06.output_independent_of_workers',
    'IblVerif.C06.append_concatenates',
    'IblVerif.C06.sync_columns_copied',
    'IblVerif.C06.qc_sizes',
    'IblVerif.C06.prepare_offsets_at_end',
    'IblVerif.C06.short_recording_counterexample',
]
RULE = ('cases = (recording, configuration) x runs (nprocesses, executor, task order).  Recordings: NP1-like, 385 channels (384 voltage '
        '+ 1 sync word), noise + common-mode stripes + spikes + saturated stretches planted at batch seams / kept-range ends / worker '
        'boundaries / file ends, sync activity through the saturated stretches.  NBATCH 2100..8192 (FFT-friendly sizes incl. odd ones), ns on '
        'the boundaries of the schedule: ns = P*NBATCH (+0, 1, P-1), CHUNK_SIZE a multiple of NBATCH, a worker stop rule hit with equality, '
        'shortest / just complete last batch, single batch down to ns = SAMPLES_TAPER, NBATCH barely above two tapers.  Every recording is run '
        'with 1 worker and with the largest admissible worker count (ns >= P*NBATCH, P <= 8) and others in between, x {append to a first '
        'run, a destination that already holds a LONGER unrelated output (stale out.bin / ap_rms.bin / ap_time.bin; non-append runs must give what they give in an empty directory), ns2add, k-filter or CAR, whitening none / scalar / identity / dense / penta-diagonal, per-channel AP gains uniform / two halves / '
        'all mixed (imro table), nc_out without sync, (thorough tier and escalated quick runs only) one recording long enough that with float64 output the last worker writes beyond byte 2^31 (default NBATCH, filters replaced by the identity, sync column = sample index), .cbin input, channel rejection (thorough)}.  Independently of the values the FORM of the '
        'call is drawn (tags form:*): output dtype int16 / float32 / int32 / float64 (row bytes of the model = nc_out x item size of the OUTPUT '
        'dtype), sr_file and output_file as str or Path, output_qc_path given, reader_kwargs given, butter_kwargs default / default given '
        'explicitly / non-default, k_kwargs default given explicitly, h passed explicitly, nbatch and nprocesses as Python or NumPy integers, '
        'keyword or positional call in the current signature order, wrot as float64 C / float32 / Fortran-ordered / read-only array.  Runs use '
        'the real function; joblib.Parallel is replaced by a sequential stand-in that executes the tasks in a seeded order and records every '
        'seek / tofile (most runs) or is the real thread / process back-end.  Compared per run: byte ranges written in the output / RMS / '
        'timestamp files vs the model, output bytes vs recomposition from the model\'s row provenance (P = 1), and the property observables '
        '(size, sync column = source, bytes = 1-worker bytes, prefix kept when appending, QC shapes and contents, and for matrix whitening '
        'out(wrot=W) = out(wrot=None) @ W within the truncation tolerance).  A second family covers the '
        'excluded class ns < nprocesses*NBATCH (finding F14), where ONLY model = code is compared (which worker writes which byte ranges, which '
        'crashes, resulting bytes in task order).  Non-trivial = at least 2 batches or 2 workers; distinct by (recording, configuration, P, executor, order, op)')
ASSUMPTIONS = [
    'domain of the property: nprocesses*NBATCH <= ns (or nprocesses = 1 and ns >= SAMPLES_TAPER), NBATCH > 2*SAMPLES_TAPER; outside it the code '
    'crashes or writes P-dependent bytes (known finding short_recording_many_workers): the property observables are never evaluated there',
    'compute_rms=True throughout: compute_rms=False raises NameError (file_saturation undefined) for every input (known finding compute_rms_false)',
    'CHUNK_SIZE = int(ns / P) and n_batch = int(ceil(i*CHUNK/NBATCH)) are float64 computations in the code, exact integers in the model (equal below 2^52)',
    'pyfftw is replaced by a NumPy rfft/irfft stand-in with the same call surface (harness/stubs/pyfftw); BLAS/OpenMP are limited to one thread so that '
    'the whitening product does not depend on the thread count of the executing process',
    'QC reading of the statement: the saturation vector has one entry per sample of the recording of THIS call (append replaces the file, it does not '
    'extend it); RMS / timestamp files have one row per batch of every run appended so far',
    'forms excluded because the API rejects them with a clear error: float-valued nbatch (TypeError: cannot be interpreted as an integer); '
    'forms excluded as known findings: output_qc_path as str (AttributeError at the very end, QC files not saved; key output_qc_path_str), nbatch as a '
    'narrow NumPy integer (seek offsets wrap in that width, silently wrong file for P >= 2; key nbatch_fixed_width_int; np.int32 / np.int64 are '
    'generated, they are wide enough for the test sizes)',
    'output dtype: the property is stated on VALUES - sync column equal to the source numbers, voltage columns within 1 count of the recomposition '
    'cast to the same dtype; byte-identity is demanded only between runs of the same call with different worker counts',
    'padding: the statement fixes only the number of rows; the model (and the recomposition) use what the code does, ns2add copies of the last row',
    'recomposition compares voltage columns within 1 int16 LSB (bit-exact on the unchanged tree, reported in the notes) and the sync column exactly; '
    'it is a harness-level oracle (the Lean model places rows, it does not compute values) in the documented order: destripe batch, x mute on the '
    'voltage columns, / sample2volts per channel, whitening, astype(int16)',
    'whitening relation out(wrot=W)[:, :ncv] = out(wrot=None)[:, :ncv] @ W is demanded up to sum_i |W[i, j]| + 1 counts per output channel j '
    '(both files are truncated to integers)',
    'writes of different processes to overlapping byte ranges are applied by the OS in some order; the theorem shows they carry identical bytes, torn '
    'writes therefore do not matter (not observed, not modelled)',
]
TRUSTED = [
    'joblib runs every submitted task exactly once (any order, any interleaving); the sequential stand-in used for most runs does the same in a seeded order',
    'the per-batch numeric pipeline (taper, sosfiltfilt, fshift / FFT stencil, k-filter / CAR, mute, scaling, whitening, astype) is deterministic: the same '
    'source window gives the same bytes in every process (checked every run: outputs of different worker counts / executors are byte-identical)',
    'numpy.ndarray.tofile on a buffered file = flush, tell, write, seek (how the write trace is recorded)',
    'Model/Window.lean + Lemmas/Window*.lean (C17): firstlast_valid and its partition lemma are reused as the reference batch list',
]
LEVEL_TEXT = ('Lean 4 theorems for every (ns, NBATCH, taper, nprocesses, row size, append offsets, ns2add) with nprocesses*NBATCH <= ns (or one worker and '
              'ns >= taper): no worker fails; the writes of all workers are exactly the entries of WindowGenerator(ns, NBATCH, 2*taper).firstlast_valid, each '
              'at byte offset + first_valid*rowbytes, and the valid ranges contain every sample once; for ANY execution order the resulting file equals a '
              'reference file that does not mention nprocesses (hence byte-identical for all worker counts and schedules), untouched below the append '
              'offset and equal to a fresh run above it, padded by ns2add copies of the last row; sync bytes come from the source sample of the same row; '
              'RMS/timestamp rows sit at their batch index, one per batch; counterexample outside the domain.  The model is tied to the code by the '
              'recorded seeks/writes of the real function and by byte comparison of the output files')
LEVEL_NOTE = ('proved: scheduling / file-position / partition / P- and schedule-independence / padding / append / QC-row statements about the model. '
              'partial (checked numerically every run, not proved): that the processed bytes of a batch depend only on its source window (determinism of the '
              'numeric pipeline) and the equality with in-memory batch-wise destriping (bit-exact here, tolerance 1 LSB); real process races are covered only '
              'through the identical-bytes argument; float64 chunk arithmetic assumed exact')
TECHNIQUE = ('Lean 4 proof by functional induction over the worker loop + Nat arithmetic (omega/grind), reusing the C17 window lemmas; exact differential '
             'run (write traces, file bytes, QC files) against the real decompress_destripe_cbin')

NC = 385
NCV = 384
RROW = NCV * 4
TROW = 4


# ---------------------------------------------------------------------------------------------
# synthetic recordings
# ---------------------------------------------------------------------------------------------
def _src_dir():
    return Path(os.environ.get('IBL_REPO', '/repo')) / 'src'


_META_CACHE = {}


NP1_AP_GAINS = (50, 125, 250, 500, 1000, 1500, 2000, 3000)


def _gains(kind, seed):
    """per-channel AP gains written into the imro table: None = the fixture's uniform 500; 'halves' = 500 on channels
    0..191 and 250 on 192..383; 'mixed' = every channel its own gain out of the NP1 gain set (a per-channel SpikeGLX setting)"""
    if not kind or kind == 'uniform':
        return None
    if kind == 'halves':
        return [500] * (NCV // 2) + [250] * (NCV - NCV // 2)
    rng = np.random.default_rng([int(seed), 4242])
    return [int(g) for g in rng.choice(NP1_AP_GAINS, NCV)]


def _meta_text(ns, gains=None):
    fix = _src_dir() / 'tests' / 'fixtures' / 'sample3B_g0_t0.imec1.ap.meta'
    if 'lines' not in _META_CACHE:
        _META_CACHE['lines'] = fix.read_text().splitlines()
    out = []
    for l in _META_CACHE['lines']:
        if l.startswith('~imroTbl') and gains is not None:
            l = '~imroTbl=(0,384)' + ''.join(f'({i} 0 0 {int(g)} 250 1)' for i, g in enumerate(gains))
        if l.startswith('fileSizeBytes'):
            l = f'fileSizeBytes={ns * NC * 2}'
        elif l.startswith('fileTimeSecs'):
            l = f'fileTimeSecs={ns / 30000:.12f}'      # never exponent notation (read back as a string: C09's finding)
        elif l.startswith('imSampRate'):
            l = 'imSampRate=30000'
        out.append(l)
    return '\n'.join(out) + '\n'


def make_recording(d, stem, ns, seed, sat=(), cbin=False, faulty=False, gains=None):
    """385-channel int16 recording: noise + common-mode stripes + local spikes + saturated stretches + random sync words."""
    rng = np.random.default_rng([int(seed), int(ns), 606])
    D = (rng.standard_normal((ns, NC)) * 12).astype(np.int16)
    # common-mode stripes (all channels), every few hundred samples
    k = 0
    while k < ns:
        D[k:k + 3, :NCV] += np.int16(rng.integers(40, 120))
        k += int(rng.integers(150, 900))
    # local spikes
    for _ in range(max(3, ns // 400)):
        t = int(rng.integers(0, ns)); c = int(rng.integers(0, NCV - 3))
        D[t:t + 2, c:c + 3] -= np.int16(rng.integers(60, 200))
    # saturated stretches: > 20 % of the channels beyond 0.98 * 512 LSB
    for (s0, n) in sat:
        s0 = max(0, min(int(s0), ns - 1)); n = max(1, min(int(n), ns - s0))
        ch = rng.permutation(NCV)[: int(rng.integers(100, 300))]
        D[s0:s0 + n, ch] = np.int16(rng.choice([-511, 511, 508, -510]))
    if faulty:       # a dead and a noisy channel for the channel-rejection branch
        D[:, 17] = 0
        D[:, 200] = (rng.standard_normal(ns) * 300).astype(np.int16)
    sync = rng.integers(0, 65536, ns).astype(np.uint16)
    sync[rng.integers(0, ns, max(1, ns // 50))] = 65535
    sync[rng.integers(0, ns, max(1, ns // 50))] = 32768
    sync[0] = 65535; sync[-1] = 40000
    for (s0, n) in sat:      # sync activity through the saturated stretches (the F18 class)
        s0 = max(0, min(int(s0), ns - 1))
        sync[s0:s0 + int(n) + 8] |= np.uint16(0x8041)
    D[:, -1] = sync.view(np.int16)
    d = Path(d)
    binf = d / f'{stem}.ap.bin'
    D.tofile(binf)
    (d / f'{stem}.ap.meta').write_text(_meta_text(ns, _gains(gains, seed)))
    if cbin:
        import spikeglx
        import contextlib
        sr = spikeglx.Reader(binf)
        with open(os.devnull, 'w') as nul, contextlib.redirect_stderr(nul):     # mtscomp progress bars
            sr.compress_file(keep_original=False, chunk_duration=0.1)
        sr.close()
        return d / f'{stem}.ap.cbin', D
    return binf, D


# ---------------------------------------------------------------------------------------------
# running the real function
# ---------------------------------------------------------------------------------------------
class _Trace:
    """Records, per task, every explicit seek and every tofile (= flush, tell, seek) on the files opened 'r+b'."""

    def __init__(self):
        self.worker = None
        self.events = {}     # worker -> file name -> list of ('seek', pos) / ('write', pos, n)

    def open(self, file, mode='r', *a, **k):
        if mode != 'r+b' or self.worker is None:
            return open(file, mode, *a, **k)
        tr, name, wk = self, Path(file).name, self.worker
        log = tr.events.setdefault(wk, {}).setdefault(name, [])

        class TF(io.BufferedRandom):
            _told = None

            def tell(self):
                r = super().tell()
                self._told = r
                return r

            def seek(self, pos, whence=0):
                r = super().seek(pos, whence)
                if self._told is not None:
                    log.append(('write', self._told, r - self._told))
                    self._told = None
                else:
                    log.append(('seek', r))
                return r
        return TF(io.FileIO(file, 'r+'))


class _SeqParallel:
    """Stand-in for joblib.Parallel: runs every task exactly once, sequentially, in a given order; a failing task
    does not stop the others (as with separate processes); the first failure (by task index) is re-raised at the end."""
    order = None
    trace = None
    errors = None

    def __init__(self, n_jobs=None, **kw):
        self.n_jobs = n_jobs

    def __call__(self, tasks):
        tasks = list(tasks)
        cls = type(self)
        order = cls.order if cls.order is not None else list(range(len(tasks)))
        order = [k for k in order if k < len(tasks)] + [k for k in range(len(tasks)) if k not in order]
        errs = {}
        for k in order:
            func, args, kwargs = tasks[k]
            if cls.trace is not None:
                cls.trace.worker = k
            try:
                func(*args, **kwargs)
            except Exception as e:     # noqa
                errs[k] = e
            finally:
                if cls.trace is not None:
                    cls.trace.worker = None
        cls.errors = errs
        if errs:
            raise errs[min(errs)]
        return [None] * len(tasks)


def _limit_threads():
    for v in ('OMP_NUM_THREADS', 'OPENBLAS_NUM_THREADS', 'MKL_NUM_THREADS', 'NUMEXPR_NUM_THREADS'):
        os.environ[v] = '1'


# the CURRENT signature of decompress_destripe_cbin after sr_file (used for the positional call spelling)
SIG = ('output_file', 'h', 'wrot', 'append', 'nc_out', 'butter_kwargs', 'dtype', 'ns2add', 'nbatch', 'nprocesses', 'compute_rms',
       'reject_channels', 'k_kwargs', 'k_filter', 'reader_kwargs', 'output_qc_path')
SIG_DEFAULTS = dict(output_file=None, h=None, wrot=None, append=False, nc_out=None, butter_kwargs=None, dtype=np.int16, ns2add=0,
                    nbatch=None, nprocesses=None, compute_rms=True, reject_channels=True, k_kwargs=None, k_filter=True,
                    reader_kwargs=None, output_qc_path=None)
FORM_DEFAULT = {'dtype': 'int16', 'src': 'path', 'out': 'path', 'qc': 0, 'reader_kwargs': 0, 'butter': 'default', 'k_kwargs': 0,
                'h': 0, 'nbatch': 'int', 'nproc': 'int', 'call': 'kw', 'wform': 'c64'}
NBATCH_FORMS = {'int': int, 'np64': np.int64, 'np32': np.int32, 'float': float, 'np16': np.int16}


def _form(x):
    """the representation of the call (how the same mathematical request is spelled), with defaults filled in"""
    f = dict(FORM_DEFAULT)
    x = x or {}
    if any(k not in FORM_DEFAULT for k in x):      # a case / oracle input: its 'form' entry
        x = x.get('form') or {}
    f.update(x)
    return f


def _odt(x):
    """requested OUTPUT dtype"""
    return np.dtype(_form(x)['dtype'])


def _butter(form, fs):
    """butter_kwargs VALUE of the call (None = the function's default)"""
    if form['butter'] == 'n2':
        return {'N': 2, 'Wn': 500 / fs * 2, 'btype': 'highpass'}
    return None


def _call_args(src_file, out_dir, N, P, form, kw):
    from ibldsp import voltage
    form = _form(form)
    out = Path(out_dir) / 'out.bin'
    a = dict(kw)
    a.setdefault('reject_channels', False)
    a.setdefault('compute_rms', True)
    a['output_file'] = str(out) if form['out'] == 'str' else out
    a['nbatch'] = NBATCH_FORMS[form['nbatch']](N)
    a['nprocesses'] = np.int64(P) if form['nproc'] == 'np64' else int(P)
    if form['dtype'] != 'int16':
        a['dtype'] = getattr(np, form['dtype'])
    if form['qc']:
        q = Path(out_dir) / 'qc'
        q.mkdir(exist_ok=True)
        a['output_qc_path'] = str(q) if form['qc'] == 'str' else q
    if form['reader_kwargs']:
        a['reader_kwargs'] = {'ignore_warnings': True}
    if form['butter'] != 'default' or form['k_kwargs'] or form['h']:
        import spikeglx
        sr = spikeglx.Reader(src_file)
        fs = sr.fs
        if form['butter'] == 'explicit':      # the default value, given explicitly
            a['butter_kwargs'] = dict(voltage._get_destripe_parameters(fs, None, None, True)[0])
        elif form['butter'] == 'n2':
            a['butter_kwargs'] = _butter(form, fs)
        if form['k_kwargs']:                  # the default value, given explicitly
            a['k_kwargs'] = dict(voltage._get_destripe_parameters(fs, None, None, True)[1])
        if form['h']:                         # the geometry the function would read itself
            a['h'] = dict(sr.geometry)
        sr.close()
    src = str(src_file) if form['src'] == 'str' else Path(src_file)
    if form['call'] == 'pos':
        return [src] + [a.get(k, SIG_DEFAULTS[k]) for k in SIG], {}
    return [src], a


def run_destripe(src_file, out_dir, N, P, mode='seq', order=None, trace=False, form=None, **kw):
    """Calls the real decompress_destripe_cbin(src_file, out_dir/'out.bin', nbatch=N, nprocesses=P, **kw) in the call
    spelling `form` (str / Path, positional / keyword, output dtype, options given explicitly ...).
    mode 'seq' (sequential stand-in, task order `order`), 'threads' / 'loky' (real joblib back-ends).
    Returns {'error': None | 'Type: msg', 'trace': {worker: {file: events}}, 'task_errors': {worker: type}}."""
    from ibldsp import voltage
    res = {'error': None, 'trace': None, 'task_errors': {}}
    args, kwargs = _call_args(src_file, out_dir, N, P, form, kw)
    if mode == 'seq':
        tr = _Trace() if trace else None
        _SeqParallel.order, _SeqParallel.trace, _SeqParallel.errors = order, tr, None
        saved = voltage.Parallel
        voltage.Parallel = _SeqParallel
        if tr is not None:
            voltage.open = tr.open
        try:
            voltage.decompress_destripe_cbin(*args, **kwargs)
        except Exception as e:    # noqa
            res['error'] = f'{type(e).__name__}: {e}'[:200]
        finally:
            voltage.Parallel = saved
            if tr is not None:
                del voltage.open
        res['task_errors'] = {k: type(e).__name__ for k, e in (_SeqParallel.errors or {}).items()}
        res['trace'] = tr.events if tr is not None else None
    else:
        import joblib
        try:
            if mode == 'threads':
                with joblib.parallel_config(backend='threading'):
                    voltage.decompress_destripe_cbin(*args, **kwargs)
            else:
                voltage.decompress_destripe_cbin(*args, **kwargs)
        except Exception as e:    # noqa
            res['error'] = f'{type(e).__name__}: {e}'[:200]
        finally:
            if mode == 'loky':     # do not leave idle worker processes behind (they would delay the exit of this process)
                try:
                    from joblib.externals.loky import get_reusable_executor
                    get_reusable_executor().shutdown(wait=True, kill_workers=True)
                except Exception:
                    pass
    return res


def _plant_stale(d, rows, rb, seed=0):
    """A destination that already holds the (longer) outputs of an earlier, unrelated run: out.bin and the two scratch QC files
    with junk content.  A non-append run must give exactly what it gives in an empty directory."""
    r = np.random.default_rng(seed + 977)
    d = Path(d)
    r.integers(0, 255, size=int(rows) * int(rb), dtype=np.uint8).tofile(d / 'out.bin')
    r.random(size=(40, NCV)).astype(np.float32).tofile(d / 'ap_rms.bin')
    r.random(size=40).astype(np.float32).tofile(d / 'ap_time.bin')


def read_outputs(out_dir, form=None):
    d = Path(out_dir)
    o = {}
    f = d / 'out.bin'
    o['bytes'] = np.fromfile(f, dtype=np.uint8) if f.exists() else None
    q = d / 'qc' if _form(form)['qc'] else d
    for key, name in (('rms', '_iblqc_ephysTimeRmsAP.rms.npy'), ('times', '_iblqc_ephysTimeRmsAP.timestamps.npy'),
                      ('sat', '_iblqc_ephysSaturation.samples.npy')):
        p = q / name
        try:
            o[key] = np.load(p) if p.exists() else None
        except Exception:
            o[key] = None
    return o


def _wrot(kind, seed, wform='c64'):
    w = _wrot_value(kind, seed)
    if w is None or np.isscalar(w):
        return w
    if wform == 'f32':
        w = w.astype(np.float32)
    elif wform == 'F':
        w = np.asfortranarray(w)
    elif wform == 'ro':
        w.setflags(write=False)
    return w


def _wrot_value(kind, seed):
    if kind == 'none':
        return None
    if kind == 'scalar':
        return 0.5
    if kind == 'identity':
        return np.identity(NCV)
    if kind == 'penta':      # local whitening: every channel coupled to its two neighbours on either side
        w = np.eye(NCV) * 1.1
        for k, v in ((1, -0.3), (2, -0.1)):
            w += np.eye(NCV, k=k) * v + np.eye(NCV, k=-k) * v
        return w
    rng = np.random.default_rng([int(seed), 77])     # 'matrix': dense
    return (np.eye(NCV) * 0.8 + rng.standard_normal((NCV, NCV)) * 0.02)


MATRIX_WROT = ('identity', 'matrix', 'penta')


def whitening_relation(rows_w, rows_0, W, ncv):
    """out(wrot=W)[:, :ncv] against out(wrot=None)[:, :ncv] @ W.  Both files are truncated to integers, so each of the
    terms of the product may be off by less than one count, plus one for the final truncation: tolerance per output
    column j = sum_i |W[i, j]| + 1.  Returns None when it holds, else a description."""
    a = rows_w[:, :ncv].astype(np.float64)
    b = rows_0[:, :ncv].astype(np.float64) @ W
    tol = np.abs(W).sum(axis=0) + 1.0
    exc = np.abs(a - b) - tol[np.newaxis, :]
    if exc.max() <= 0:
        return None
    t, c = np.unravel_index(int(np.argmax(exc)), exc.shape)
    return (f'out(wrot=W) != out(wrot=None) @ W: sample {int(t)} channel {int(c)}: {a[t, c]:.0f} instead of {b[t, c]:.1f} '
            f'(tolerance {tol[c]:.1f} counts); {int((exc > 0).sum())} entries outside the tolerance')


class BatchProcessor:
    """HARNESS-LEVEL ORACLE (the Lean model describes where rows go, not their values).  Documented order of the
    per-batch transform: destripe the batch -> x saturation mute on the voltage columns -> / sample2volts PER CHANNEL
    (back to integer units) -> whitening `wrot` ("to apply to the output") -> astype(int16).
    In-memory destriping of one batch `_sr[f:l]` with the real pieces, the way the documentation of the function
    describes it (cosine taper of SAMPLES_TAPER samples at both ends, high-pass, ADC shift, spatial filter, sync
    re-attached, saturation mute on the voltage columns, scaling back to integers, optional whitening)."""

    def __init__(self, src_file, N, T, k_filter=True, wrot=None, nc_out=None, reject=False, dtype=np.int16, butter_kwargs=None):
        import scipy.signal
        import pyfftw
        import spikeglx
        from ibldsp import voltage
        self.sr = sr = spikeglx.Reader(src_file)
        self.N, self.T, self.wrot = N, T, wrot
        self.nc_out = nc_out or sr.nc
        self.h = h = sr.geometry
        self.ncv = ncv = h['sample_shift'].size
        self.labels = voltage.detect_bad_channels_cbin(sr) if reject else None
        self.dtype = np.dtype(dtype)
        bk, kk, self.spatial = voltage._get_destripe_parameters(sr.fs, butter_kwargs, None, k_filter)
        self.taper = np.r_[0, scipy.signal.windows.cosine((T - 1) * 2), 0]
        self.sos = scipy.signal.butter(**bk, output='sos')
        win = pyfftw.empty_aligned((ncv, N), dtype='float32')
        WIN = pyfftw.empty_aligned((ncv, int(N / 2 + 1)), dtype='complex64')
        self.fft = pyfftw.FFTW(win, WIN, axes=(1,), direction='FFTW_FORWARD', threads=4)
        self.ifft = pyfftw.FFTW(WIN, win, axes=(1,), direction='FFTW_BACKWARD', threads=4)
        dephas = np.zeros((ncv, N), dtype=np.float32)
        dephas[:, 1] = 1.0
        self.DEPHAS = np.exp(1j * np.angle(self.fft(dephas)) * h['sample_shift'][:, np.newaxis])
        self.cache = {}

    def full(self, f, l):
        """processed batch (l-f, nc) in volts (sync columns raw), before slicing"""
        if (f, l) in self.cache:
            return self.cache[(f, l)]
        import scipy.signal
        from ibldsp import voltage, fourier
        sr, ncv, T = self.sr, self.ncv, self.T
        chunk = sr[f:l, :ncv].T
        _, mute = voltage.saturation(data=chunk, max_voltage=sr.range_volts[:ncv], fs=sr.fs)
        chunk[:, :T] *= self.taper[:T]
        chunk[:, -T:] *= self.taper[T:]
        chunk = scipy.signal.sosfiltfilt(self.sos, chunk)
        if l == sr.ns:
            chunk = fourier.fshift(chunk, s=self.h['sample_shift'])
        else:
            chunk = self.ifft(self.fft(chunk) * self.DEPHAS)
        if self.labels is not None:
            chunk = voltage.interpolate_bad_channels(chunk, self.labels, self.h['x'], self.h['y'])
            inside = np.where(self.labels != 3)[0]
            chunk[inside, :] = self.spatial(chunk[inside, :])
        else:
            chunk = self.spatial(chunk)
        chunk = np.r_[chunk, sr[f:l, ncv:].T].T
        chunk[:, :ncv] = chunk[:, :ncv] * mute[:, np.newaxis]
        if len(self.cache) > 3:
            self.cache.pop(next(iter(self.cache)))
        self.cache[(f, l)] = chunk
        return chunk

    def rows(self, f, l, lo, hi):
        """the rows [lo, hi) of batch (f, l) as they go to the file, in the requested output dtype"""
        chunk = self.full(f, l)[lo:hi, :] * (1 / self.sr.sample2volts)
        if self.wrot is not None:
            chunk[:, :self.ncv] = np.dot(chunk[:, :self.ncv], self.wrot)
        return chunk[:, :self.nc_out].astype(self.dtype)

    def close(self):
        self.sr.close()


def _diff_rows(a, b, ncv_cols):
    """a, b (n, nc) in the output dtype: returns (exact, max abs difference of the VALUES on the voltage columns, sync columns equal)"""
    if a.shape != b.shape:
        return False, None, False
    if a.size == 0:
        return True, 0, True
    dv = np.abs(a[:, :ncv_cols].astype(np.float64) - b[:, :ncv_cols].astype(np.float64))
    sync_eq = bool(np.array_equal(a[:, ncv_cols:], b[:, ncv_cols:]))
    mx = float(dv.max()) if dv.size else 0.0
    mx = mx if np.isfinite(mx) else 1e30
    return bool(mx == 0 and sync_eq), mx, sync_eq


# ---------------------------------------------------------------------------------------------
# model side helpers (parsing the driver's answers)
# ---------------------------------------------------------------------------------------------
def _rb(case):
    """bytes per output row: nc_out x item size of the OUTPUT dtype"""
    return (case.get('nc_out') or NC) * _odt(case).itemsize


def _line(op, case, P, offs):
    rb = _rb(case)
    return f"{op} {case['ns']} {case['N']} {P} {rb} {offs[0]} {RROW} {TROW} {offs[1]} {offs[2]} {case['ns2add']}"


def _parse_sched(ans):
    if not ans.startswith('ok '):
        return None
    parts = dict(p.split('=', 1) for p in ans.split()[1:])
    ref = [tuple(int(x) for x in q.split(',')) for q in parts['ref'].split(';')] if parts['ref'] != '-' else []
    workers = []
    for ws in parts['w'].split('|') if parts['w'] else []:
        if ws.startswith('err:'):
            workers.append(ws)
        elif ws == '-':
            workers.append([])
        else:
            workers.append([tuple(int(x) for x in w.split(':')) for w in ws.split(';')])
    return {'T': int(parts['T']), 'dom': int(parts['dom']), 'nwin': int(parts['nwin']), 'ref': ref, 'workers': workers}


def _coalesce(iv):
    """merge byte intervals [(pos, n)] into sorted disjoint [start, end) ranges (zero-length writes dropped)"""
    out = []
    for p, n in sorted((p, n) for p, n in iv if n > 0):
        if out and p <= out[-1][1]:
            out[-1][1] = max(out[-1][1], p + n)
        else:
            out.append([p, p + n])
    return out


def _model_writes(workers, rb):
    """per worker: 'err' or {'o': [(pos, n)], 'r': [...], 't': [...]} as predicted by the model"""
    out = []
    for w in workers:
        if isinstance(w, str):
            out.append('err')
            continue
        d = {'o': [], 'r': [], 't': []}
        for (pos, f, l, lo, hi, rp, tp, pad) in w:
            d['o'].append((pos, (hi - lo) * rb))
            if pad > 0:
                d['o'].append((pos + (hi - lo) * rb, pad * rb))
            d['r'].append((rp, RROW))
            d['t'].append((tp, TROW))
        out.append(d)
    return out


def _impl_writes(res, P):
    """the same from the recorded seeks / tofile calls of the real function"""
    out = []
    for k in range(P):
        if k in res['task_errors']:
            out.append('err')
            continue
        ev = (res['trace'] or {}).get(k, {})
        d = {}
        for key, name in (('o', 'out.bin'), ('r', 'ap_rms.bin'), ('t', 'ap_time.bin')):
            d[key] = [(e[1], e[2]) for e in ev.get(name, []) if e[0] == 'write']
        out.append(d)
    return out


def _trace_views(ws):
    """(exact per-worker sequence, per-worker byte ranges, byte ranges written by anybody) — all JSON-able"""
    exact = ['err' if w == 'err' else ' '.join(k + '=' + ','.join(f'{p}:{n}' for p, n in w[k]) for k in 'ort') for w in ws]
    per_worker = ['err' if w == 'err' else {k: _coalesce(w[k]) for k in 'ort'} for w in ws]
    union = {k: _coalesce([iv for w in ws if w != 'err' for iv in w[k]]) for k in 'ort'}
    union['crashed'] = sum(1 for w in ws if w == 'err') > 0
    return exact, per_worker, union


def _parse_rows(ans):
    if not ans.startswith('ok '):
        return None
    parts = dict(p.split('=', 1) for p in ans.split()[1:])
    segs = [tuple(int(x) for x in s.split(':')) for s in parts['rows'].split(';')] if parts['rows'] != '-' else []
    return {'segs': segs, 'whole': int(parts['whole']), 'eq': int(parts['eq'])}


def _nwin(ns, N, T):
    S = N - 2 * T
    return max(-(-(ns - N) // S), 0) + 1


# ---------------------------------------------------------------------------------------------
# one case = one recording (+ optional first run to append to) x several runs; executed in a pool process
# ---------------------------------------------------------------------------------------------
def _kw(case):
    kw = dict(k_filter=bool(case['kfilter']), ns2add=int(case['ns2add']), reject_channels=bool(case.get('reject')))
    w = _wrot(case['wrot'], case['seed'], _form(case)['wform'])
    if w is not None:
        kw['wrot'] = w
    if case.get('nc_out'):
        kw['nc_out'] = int(case['nc_out'])
    return kw


def _offsets(case, T):
    """(offset, rms_offset, time_offset) the appended run starts from (sizes left by the first run)"""
    if not case.get('append'):
        return (0, 0, 0)
    a = case['append']
    rb = _rb(case)
    b0 = _nwin(a['ns'], a['N'], T)
    return ((a['ns'] + a.get('ns2add', 0)) * rb, b0 * RROW, b0 * TROW)


def _expected_from_segments(bp, segs, nc_out, keep=None, dtype=np.int16):
    """assemble the file rows the model predicts (holes stay 0); `keep` = indices of the segments to compute
    (None = all), the mask tells which rows were computed"""
    nrows = max([s[1] for s in segs], default=0)
    exp = np.zeros((nrows, nc_out), dtype=dtype)
    mask = np.zeros(nrows, dtype=bool) if keep is not None else np.ones(nrows, dtype=bool)
    for k, (r0, r1, f, l, t0, step) in enumerate(segs):
        if keep is not None:
            if k not in keep:
                continue
            mask[r0:r1] = True
        if step == 1:
            exp[r0:r1] = bp.rows(f, l, t0 - f, t0 - f + (r1 - r0))
        else:
            exp[r0:r1] = bp.rows(f, l, t0 - f, t0 - f + 1)
    return exp, mask


def _keep_segments(case, segs):
    """which batches the recomposition computes: all, or (large cases) the first two, the last two + padding and three others"""
    k = case.get('recomp')
    n = len(segs)
    if not k or n <= k:
        return None
    rng = np.random.default_rng([int(case['seed']), 9])
    keep = {0, 1, n - 1, n - 2, n - 3}
    while len(keep) < k:
        keep.add(int(rng.integers(0, n)))
    return keep


def run_case(payload):
    """Runs in a pool process.  Returns a list of records {op, desc, impl, model, nontrivial, tags, note?}."""
    _limit_threads()
    import warnings
    warnings.filterwarnings('ignore')
    case, model, T = payload['case'], payload['model'], payload['T']
    recs = []
    t_start = time.time()
    tmp = Path(tempfile.mkdtemp(prefix='c06_'))
    try:
        ns, N, seed = case['ns'], case['N'], case['seed']
        nc_out = case.get('nc_out') or NC
        form, odt = _form(case), _odt(case)
        rb = _rb(case)
        src, D = make_recording(tmp, 'rec', ns, seed, sat=case.get('sat', ()), cbin=bool(case.get('cbin')),
                                faulty=bool(case.get('reject')), gains=case.get('gains'))
        kw = _kw(case)
        base = {k: case[k] for k in ('ns', 'N', 'seed', 'kfilter', 'wrot', 'ns2add') if k in case}
        for k in ('nc_out', 'cbin', 'reject', 'gains'):
            if case.get(k):
                base[k] = case[k]
        if case.get('append'):
            base['append'] = case['append']
        if case.get('stale'):
            base['stale'] = case['stale']
        base['form'] = {k: v for k, v in form.items() if v != FORM_DEFAULT[k]}
        ctag = tuple(f'form:{k}={v}' for k, v in sorted(form.items())) + ('kfilt' if case['kfilter'] else 'car', 'wrot=' + case['wrot'], 'ns2add>0' if case['ns2add'] else 'ns2add=0',
                'append' if case.get('append') else ('stale-destination' if case.get('stale') else 'fresh'), 'cbin' if case.get('cbin') else 'bin',
                'reject' if case.get('reject') else 'noreject', 'nc_out=' + str(nc_out), 'kind=' + case.get('kind', '?'),
                'gains=' + (case.get('gains') or 'uniform'))
        offs = _offsets(case, T)
        # state to append to
        pre_dir, pre = None, None
        if case.get('append'):
            a = case['append']
            src0, _ = make_recording(tmp, 'first', a['ns'], seed + 1)
            pre_dir = tmp / 'pre'; pre_dir.mkdir()
            r0 = run_destripe(src0, pre_dir, a['N'], a['P'], mode='seq', form=form, **{**kw, 'ns2add': a.get('ns2add', 0)})
            pre = read_outputs(pre_dir, form)
            sizes = (len(pre['bytes']) if pre['bytes'] is not None else -1, (pre_dir / 'ap_rms.bin').stat().st_size,
                     (pre_dir / 'ap_time.bin').stat().st_size)
            recs.append(dict(op='append_state', desc={**base, 'op': 'append_state'}, impl=f'{r0["error"]} {sizes}',
                             model=f'None {tuple(offs)}', nontrivial=True, tags=('append_state',)))

        def fresh_dir(name, with_pre):
            d = tmp / name
            if with_pre and pre_dir is not None:
                shutil.copytree(pre_dir, d)
            else:
                d.mkdir()
                if case.get('stale'):       # destination already holding a longer, unrelated output (non-append runs only)
                    _plant_stale(d, ns + case['ns2add'] + int(case['stale']), rb, seed)
            return d

        bp = BatchProcessor(src, N, T, k_filter=kw['k_filter'], wrot=kw.get('wrot'), nc_out=case.get('nc_out'),
                            reject=bool(case.get('reject')), dtype=odt, butter_kwargs=_butter(form, 30000.0))
        ref_bytes = None       # output of the first in-domain run (P = 1 by construction of the generator)
        ref_rows = None
        ref_qc = None
        for ri, (P, mode, order) in enumerate(case['runs']):
            mk = f'{P}'
            ms = _parse_sched(model['sched'][mk])
            dom = ms['dom']
            desc = {**base, 'P': P, 'exec': mode, 'order': order}
            B = ms['nwin']
            nontriv = bool(B >= 2 or P >= 2)
            rtags = ctag + (f'P={P}', 'exec=' + mode, 'dom' if dom else 'F14', 'B=1' if B == 1 else 'B=2..9' if B < 10 else 'B>=10')
            d = fresh_dir(f'run{ri}', True)
            kwr = dict(kw)
            if case.get('append'):
                kwr['append'] = True
            t1 = time.time()
            res = run_destripe(src, d, N, P, mode=mode, order=order, trace=(mode == 'seq'), form=form, **kwr)
            out = read_outputs(d, form)
            shutil.rmtree(d, ignore_errors=True)
            # -- (1) schedule: every seek / write of every worker, and which workers crash
            if mode == 'seq':
                ie, ip, iu = _trace_views(_impl_writes(res, P))
                me, mp, mu = _trace_views(_model_writes(ms['workers'], rb))
                ttags = rtags + ('trace', 'crash' if mu['crashed'] else 'nocrash', 'sched_same' if ie == me else 'sched_differs') \
                    + tuple(sorted({'exc=' + v for v in res['task_errors'].values()}))
                if dom:
                    # in the domain: which bytes of the three files get written at all (by whichever worker), and that nobody crashes
                    recs.append(dict(op='written_ranges', desc={**desc, 'op': 'written_ranges'}, impl=iu, model=mu,
                                     nontrivial=nontriv, tags=ttags))
                else:
                    # excluded class: bug-for-bug, which worker writes which byte ranges / crashes
                    recs.append(dict(op='worker_ranges', desc={**desc, 'op': 'worker_ranges'}, impl=ip, model=mp,
                                     nontrivial=nontriv, tags=ttags))
            model_fails = any(isinstance(w, str) for w in ms['workers'])
            if model_fails or res['error']:
                recs.append(dict(op='outcome', desc={**desc, 'op': 'outcome'}, impl='raises' if res['error'] else 'returns',
                                 model='raises' if model_fails else 'returns', nontrivial=nontriv, tags=rtags + ('outcome',),
                                 note=res['error']))
                continue
            # -- (2) bytes against the recomposition from the model's row provenance (sequential order for F14 cases)
            got = out['bytes']
            prefix = pre['bytes'] if pre is not None else np.zeros(0, np.uint8)
            if mk in model['rows']:
                mr = _parse_rows(model['rows'][mk])
                ok_pref = len(got) >= len(prefix) and np.array_equal(got[:len(prefix)], prefix)
                tail = got[len(prefix):]
                if mr is None:
                    impl_s, model_s = 'file written', model['rows'][mk][:60]
                else:
                    exp, mask = _expected_from_segments(bp, mr['segs'], nc_out, _keep_segments(case, mr['segs']), odt)
                    if len(tail) != exp.size * odt.itemsize:
                        impl_s, model_s = f'rows={len(tail) / rb}', f'rows={exp.shape[0]}'
                    else:
                        exact, mx, sync_eq = _diff_rows(tail.view(odt).reshape(-1, nc_out)[mask], exp[mask], min(NCV, nc_out))
                        good = ok_pref and mx is not None and mx <= 1 and sync_eq and mr['whole'] == 1 and (mr['eq'] == 1 or not dom)
                        impl_s = 'ok' if good else f'prefix_kept={ok_pref} maxdiff={mx} sync_eq={sync_eq}'
                        model_s = 'ok' if good else f'whole={mr["whole"]} eq_ref={mr["eq"]}'
                        rtags = rtags + (('recomp_exact',) if exact else ('recomp_inexact',))
                recs.append(dict(op='recompose', desc={**desc, 'op': 'recompose'}, impl=impl_s, model=model_s,
                                 nontrivial=nontriv, tags=rtags + ('recompose',)))
            if not dom:
                continue
            # -- (3) property observables, in domain: size, sync column, P-independence, append, QC files
            h = hashlib.sha1(got.tobytes()).hexdigest()
            if ref_bytes is None:
                ref_bytes, ref_qc, ref_P = h, out, P
                if len(got) == len(prefix) + (ns + case['ns2add']) * rb:
                    ref_rows = got[len(prefix):].view(odt).reshape(-1, nc_out).copy()
            exp_size = len(prefix) + (ns + case['ns2add']) * rb
            obs, want = {}, {}
            obs['size'], want['size'] = len(got), exp_size
            if len(got) == exp_size:
                rows = got[len(prefix):].view(odt).reshape(-1, nc_out)
                if nc_out == NC:
                    bad = np.where(rows[:ns, NCV] != D[:, NCV].astype(odt))[0]     # same VALUES, whatever the output dtype
                    obs['sync'] = 'equal' if bad.size == 0 else f'{bad.size} differ, first at {int(bad[0])}'
                    want['sync'] = 'equal'
                obs['prefix'] = bool(np.array_equal(got[:len(prefix)], prefix)); want['prefix'] = True
            obs['same_as_first_run'], want['same_as_first_run'] = h, ref_bytes
            n_pre = 0 if pre is None else pre['times'].shape[0]
            obs['qc'] = [None if out[k] is None else list(out[k].shape) for k in ('sat', 'rms', 'times')]
            want['qc'] = [[ns], [n_pre + B, NCV], [n_pre + B]]
            if all(out[k] is not None and ref_qc[k] is not None for k in ('rms', 'times')):
                obs['qc_same'] = bool(np.array_equal(out['rms'], ref_qc['rms']) and np.array_equal(out['times'], ref_qc['times']))
                want['qc_same'] = True
            if pre is not None and out['rms'] is not None and out['rms'].shape[0] >= n_pre:
                obs['qc_prefix'] = bool(np.array_equal(out['rms'][:n_pre], pre['rms']) and np.array_equal(out['times'][:n_pre], pre['times']))
                want['qc_prefix'] = True
            recs.append(dict(op='observe', desc={**desc, 'op': 'observe'}, impl=obs, model=want, nontrivial=nontriv,
                             tags=rtags + ('observe',)))
        # -- (4) whitening is applied to the OUTPUT (integer units): out(W) = out(None) @ W up to the truncations
        if case['wrot'] in MATRIX_WROT and ref_rows is not None and not case.get('f14'):
            d = fresh_dir('nowrot', False)
            kw0 = {k: v for k, v in kw.items() if k != 'wrot'}
            r0 = run_destripe(src, d, N, 1, mode='seq', form=form, **kw0)
            o0 = read_outputs(d, form)
            shutil.rmtree(d, ignore_errors=True)
            if r0['error'] or o0['bytes'] is None or len(o0['bytes']) != (ns + case['ns2add']) * rb:
                impl_s = f'run without wrot: {r0["error"]}'
            else:
                rel = whitening_relation(ref_rows[:ns], o0['bytes'].view(odt).reshape(-1, nc_out)[:ns], kw['wrot'], NCV)
                impl_s = 'holds' if rel is None else rel
            recs.append(dict(op='whitening_relation', desc={**base, 'op': 'whitening_relation'}, impl=impl_s, model='holds',
                             nontrivial=True, tags=ctag + ('whitening_relation',)))
        bp.close()
    except Exception as e:      # noqa
        recs.append(dict(op='harness', desc={'case': case, 'op': 'harness'}, impl=f'{type(e).__name__}: {e}',
                         model='no exception in the harness', nontrivial=False, tags=('harness_error',),
                         note=traceback.format_exc()[-1200:]))
    finally:
        shutil.rmtree(tmp, ignore_errors=True)
    return {'records': recs, 'wall': time.time() - t_start, 'case': case}


# ---------------------------------------------------------------------------------------------
# generator
# ---------------------------------------------------------------------------------------------
def _sat_positions(rng, ns, N, T, P):
    """saturated stretches at the places the property is sensitive to"""
    S = N - 2 * T
    cands = [0, ns - 40, T - 5, N - T - 20, N - 30, S + T - 10, max(ns // max(P, 1) - 25, 0), ns - 1]
    cands += [int(rng.integers(0, ns)) for _ in range(2)]
    k = int(rng.integers(1, 4))
    pick = rng.choice(len(cands), size=k, replace=False)
    return [[int(max(0, min(cands[i], ns - 1))), int(rng.integers(1, 60))] for i in pick]


def _cost(case):
    """rough number of (sample x 385 channel) rows pushed through the pipeline, in CAR units"""
    N, ns = case['N'], case['ns']
    f = (2.5 if case['kfilter'] else 1.0) + (0.5 if case['wrot'] in MATRIX_WROT else 0.0)
    B = _nwin(ns, N, 1024) if N > 2048 else 1
    c = B * N * f * (len(case['runs']) + (1 if case['wrot'] in MATRIX_WROT else 0)) + min(B, case.get('recomp', B)) * N * f
    if case.get('append'):
        a = case['append']
        c += _nwin(a['ns'], a['N'], 1024) * a['N'] * f
    return c


def _smooth(n):
    """smallest n' >= n whose prime factors are <= 7 (fast FFT sizes; the code's default 65536 is one)"""
    while True:
        m = n
        for p in (2, 3, 5, 7):
            while m % p == 0:
                m //= p
        if m == 1:
            return n
        n += 1


def _draw_form(rng, force_dtype=None):
    """the spelling of the call, drawn independently of the values (only non-default entries are stored)"""
    f = {'dtype': force_dtype or str(rng.choice(['int16', 'float32', 'int32', 'float64'], p=[.45, .3, .15, .1])),
         'src': str(rng.choice(['path', 'str'])), 'out': str(rng.choice(['path', 'str'])),
         'qc': int(rng.random() < 0.25), 'reader_kwargs': int(rng.random() < 0.25),
         'butter': str(rng.choice(['default', 'explicit', 'n2'], p=[.6, .25, .15])), 'k_kwargs': int(rng.random() < 0.25),
         'h': int(rng.random() < 0.3), 'nbatch': str(rng.choice(['int', 'np64', 'np32'], p=[.6, .25, .15])),
         'nproc': str(rng.choice(['int', 'np64'], p=[.8, .2])), 'call': str(rng.choice(['kw', 'pos'], p=[.65, .35])),
         'wform': str(rng.choice(['c64', 'f32', 'F', 'ro'], p=[.4, .2, .2, .2]))}
    return {k: v for k, v in f.items() if v != FORM_DEFAULT[k]}


def _order(rng, P):
    kind = int(rng.integers(0, 3))
    return list(range(P))[::-1] if kind == 0 else [int(x) for x in rng.permutation(P)] if kind == 1 else list(range(P))


def _in_domain_case(rng, T, kind, Pt, quick):
    # NBATCH with small prime factors only (FFT cost); a few odd sizes (3^7, 7^4, 5^5, 15^3: rfft length N//2+1 with N odd)
    r = rng.random()
    if r < 0.5:
        N = _smooth(int(rng.choice([2 * T + 512, 2 * T + 952, 2 * T + 1024, 4 * T, 2 * T + 2952, 8 * T])))
    elif r < 0.85:
        N = _smooth(int(rng.integers(2 * T + 400, 8 * T + 1)))
    else:
        N = int(rng.choice([n for n in (2187, 2401, 3125, 3375, 5103, 6561) if n > 2 * T + 100] or [_smooth(3 * T)]))
    if kind == 'exact':                       # the edge of the domain: ns = P*NBATCH (+ less than P)
        ns = Pt * N + int(rng.choice([0, 0, 1, Pt - 1]))
    elif kind == 'chunk_mult':                # CHUNK_SIZE a multiple of NBATCH: the ceil in n_batch is exact
        ns = Pt * int(rng.integers(1, 3)) * N + int(rng.integers(0, Pt))
    elif kind == 'stop_eq':                   # some worker i stops with last_s == max_s: S*b + N == (i+1)*CHUNK
        S = N - 2 * T
        i = int(rng.integers(0, Pt - 1)) if Pt > 1 else 0
        b = int(rng.integers(0, 3)) + (i + 1) * (N // S + 1)
        C = max(N, (S * b + N) // (i + 1))
        ns = Pt * C + int(rng.integers(0, Pt))
    elif kind == 'short_last':                # last batch as short as it gets (2T+1 ...) or just complete
        S = N - 2 * T
        k = int(rng.integers(Pt * N // S, Pt * N // S + 4))
        ns = max(Pt * N, N + k * S + int(rng.choice([1, 2, S, S - 1, T])))
    elif kind == 'single':                    # one worker, one or two batches, down to ns = taper
        S = N - 2 * T
        ns = int(rng.choice([T, T + 1, 2 * T, N - 1, N, N + 1, 2 * T + 1, N + S, N + S + 1]))
        Pt = 1
    elif kind == 'small_stride':              # NBATCH barely above two tapers: many batches, tiny kept ranges
        N = _smooth(2 * T + int(rng.choice([52, 100, 139, 180])))
        Pt = min(Pt, 2)
        ns = Pt * N + int(rng.integers(0, 300))
    else:
        ns = int(rng.integers(Pt * N, Pt * N + 2 * N))
    ns = int(ns)
    case = {'ns': ns, 'N': int(N), 'seed': int(rng.integers(0, 2 ** 31)), 'kind': kind,
            'kfilter': int(rng.random() < 0.25),
            'wrot': str(rng.choice(['none', 'scalar', 'identity', 'matrix', 'penta'], p=[.3, .15, .1, .2, .25])),
            'gains': str(rng.choice(['uniform', 'halves', 'mixed'], p=[.35, .3, .35])),
            'ns2add': int(rng.choice([0, 0, 1, 7, 137]))}
    case['sat'] = _sat_positions(rng, ns, N, T, Pt)
    if rng.random() < 0.3:
        a_N = int(rng.choice([N, 2 * T + 700]))
        a_P = int(rng.choice([1, 2]))
        case['append'] = {'ns': int(a_P * a_N + rng.integers(0, 900)), 'N': a_N, 'P': a_P, 'ns2add': int(rng.choice([0, 3]))}
    if not case.get('append') and rng.random() < 0.3:
        case['stale'] = int(rng.choice([1, 500, N, 3 * N]))       # rows the existing destination is longer by
    if rng.random() < 0.12:
        case['nc_out'] = NCV
    if rng.random() < 0.12:
        case['cbin'] = 1
    if not quick and rng.random() < 0.08 and ns >= 9500:
        case['reject'] = 1
    # runs: P = 1 first (the reference), then the largest admissible worker count, then others
    pmax = max(1, min(8, ns // N))
    Ps = [pmax] if pmax > 1 else []
    for P in [int(x) for x in rng.permutation(np.arange(2, pmax))] if pmax > 2 else []:
        Ps.append(P)
    r = rng.random()
    case['runs'] = [[1, 'seq', [0]]]
    for k, P in enumerate(Ps):
        mode = 'seq' if (k > 0 or r < 0.7) else ('threads' if r < 0.9 else 'loky')
        case['runs'].append([P, mode, _order(rng, P) if mode == 'seq' else []])
    return case


def gen_cases(ctx):
    rng = ctx.rng
    T = int(ctx.consts.get('DESTRIPE_TAPER', 1024))
    budget = ctx.n(150e3, 400e3)
    kinds = ['exact', 'chunk_mult', 'stop_eq', 'short_last', 'single', 'random', 'small_stride']
    cases = []
    n_in = ctx.n(9, 120)
    for ci in range(n_in):
        kind = kinds[ci % 7]
        Pt = [2, 8, 3, 4, 5, 6, 7, 2, 4, 8][ci % 10] if ci < 10 else int(rng.integers(2, 9))
        case = None
        while case is None and Pt >= 1:
            for attempt in range(12):
                cand = _in_domain_case(rng, T, kind, Pt, ctx.quick)
                cand['recomp'] = ctx.n(6, 20)
                cand['form'] = _draw_form(rng, {1: 'float32', 3: 'int32', 5: 'float32'}.get(ci % 6))
                if ci % 3 == 0:     # a fixed share of non-diagonal whitening on recordings with non-uniform gains
                    cand['wrot'] = ['penta', 'matrix'][(ci // 3) % 2]
                    cand['gains'] = ['halves', 'mixed'][(ci // 3 + ci // 6) % 2]
                # fit the budget: fewer runs first (always keep P = 1 and the largest P), then the cheaper spatial filter
                while _cost(cand) > budget and len(cand['runs']) > 2:
                    cand['runs'].pop()
                if _cost(cand) > budget and cand['kfilter']:
                    cand['kfilter'] = 0
                if _cost(cand) > budget and cand.get('append'):
                    del cand['append']
                if _cost(cand) <= budget:
                    case = cand
                    break
            Pt -= 1
        if case is not None:
            cases.append(case)
    # the excluded class (finding F14): model = code only (traces, crashes, bytes under the sequential order)
    for ci in range(ctx.n(8, 80)):
        N = _smooth(int(rng.choice([2 * T + 512, 2 * T + 952, 4 * T, int(rng.integers(2 * T + 300, 6 * T))])))
        S = N - 2 * T
        P = int(rng.integers(2, 9))
        sub = ci % 4
        if sub == 0:
            ns = int(rng.integers(T, min(P * N, 3 * N)))
        elif sub == 1:     # some worker starts within a taper of the end, or beyond it
            ns = S * (1 if rng.random() < 0.7 else 2) + int(rng.choice([0, 1, T // 2, T - 1, T, T + 1, 2 * T, 2 * T + 1]))
        elif sub == 2:
            ns = P * N - int(rng.integers(1, N))
        else:
            ns = int(rng.integers(1, P)) if rng.random() < 0.3 else int(rng.integers(T, 2 * N))
        ns = max(1, min(int(ns), P * N - 1, 4 * N))
        case = {'ns': ns, 'N': N, 'seed': int(rng.integers(0, 2 ** 31)), 'kind': 'f14', 'kfilter': 0, 'wrot': 'none',
                'ns2add': int(rng.choice([0, 0, 5])), 'sat': [], 'runs': [[P, 'seq', list(range(P))]], 'f14': 1}
        if ci % 3 == 1:
            case['form'] = {'dtype': str(rng.choice(['float32', 'int32']))}
        cases.append(case)
    return cases, T


def _model_lines(cases, T):
    lines, keys = [], []
    for ci, case in enumerate(cases):
        offs = _offsets(case, T)
        seenP = set()
        for (P, mode, order) in case['runs']:
            if P in seenP:
                continue
            seenP.add(P)
            lines.append(_line('sched', case, P, offs)); keys.append((ci, 'sched', str(P)))
            if case.get('f14') or P == 1:
                lines.append(_line('rows', case, P, (0, 0, 0) if not case.get('f14') else offs)); keys.append((ci, 'rows', str(P)))
    return lines, keys


def _pool(nproc):
    _limit_threads()
    ctxm = multiprocessing.get_context('spawn')
    return concurrent.futures.ProcessPoolExecutor(max_workers=nproc, mp_context=ctxm)


def _nproc():
    try:
        n = len(os.sched_getaffinity(0))
    except Exception:
        n = os.cpu_count() or 4
    return max(2, min(10, n - 2))


def _lean_parallel(ctx, lines, shards=4):
    """the driver is an interpreter: split the request lines over a few instances"""
    if len(lines) < 8:
        return ctx.lean(lines)
    idx = [list(range(k, len(lines), shards)) for k in range(shards)]
    with concurrent.futures.ThreadPoolExecutor(max_workers=shards) as ex:
        outs = list(ex.map(lambda ii: ctx.lean([lines[i] for i in ii]), idx))
    ans = [None] * len(lines)
    for ii, oo in zip(idx, outs):
        for i, o in zip(ii, oo):
            ans[i] = o
    return ans


# ---------------------------------------------------------------------------------------------
# scale: file positions beyond 2^31 bytes (thorough tier, or a quick run escalated by a broken tie)
# ---------------------------------------------------------------------------------------------
LARGE_N = 65536            # the library's default batch size


def _large_ns(T, P, rb):
    """smallest multiple of N/2 with ns >= P*N for which the LAST worker starts writing at or beyond byte 2^31 + 2^20"""
    N = LARGE_N
    ns = P * N
    while True:
        chunk = ns // P
        nb = -((-(P - 1) * chunk) // N)
        if ((N - 2 * T) * nb + T) * rb >= 2 ** 31 + 2 ** 20:
            return ns
        ns += N // 2


def oracle_large(inp):
    """C06 at scale, on the real code: a recording long enough that (with float64 output) the last of P workers writes beyond
    byte 2^31.  Content: a ramp on every voltage channel, sync word = sample index mod 2^16, so that every output row identifies the
    input row it came from.  To keep the run short the temporal filter and the spatial filter are replaced by the identity in this
    process (they do not decide where a row is written); everything else is the real function.  Judged: the call returns, the output
    has ns rows, the sync column equals the source's at every row, saturation has ns entries, RMS one row per batch."""
    _limit_threads()
    import scipy.signal
    from ibldsp import voltage
    from ibldsp.utils import WindowGenerator
    T, P = int(inp.get('T', 1024)), int(inp['P'])
    N = LARGE_N
    odt = np.dtype('float64')
    rb = NC * odt.itemsize
    ns = int(inp['ns'])
    tmp = Path(tempfile.mkdtemp(prefix='c06L_'))
    saved = (scipy.signal.sosfiltfilt, voltage.car)
    try:
        t = np.arange(ns, dtype=np.int64)
        D = np.empty((ns, NC), dtype=np.int16)
        D[:, :NCV] = ((t % 201) - 100).astype(np.int16)[:, None]
        D[:, NCV] = (t % 65536).astype(np.uint16).view(np.int16)
        D.tofile(tmp / 'rec.ap.bin')
        (tmp / 'rec.ap.meta').write_text(_meta_text(ns))
        sync = D[:, NCV].copy()
        del D
        scipy.signal.sosfiltfilt = lambda sos, x, *a, **k: x
        voltage.car = lambda x, *a, **k: x
        out = tmp / 'out'
        out.mkdir()
        r = run_destripe(tmp / 'rec.ap.bin', out, N, P, mode='seq', order=inp.get('order'), form={'dtype': 'float64'},
                         k_filter=False, reject_channels=False)
        if r['error']:
            return f'{P} workers, {ns} samples, float64 output ({ns * rb} bytes): raised {r["error"]}'
        size = (out / 'out.bin').stat().st_size
        if size != ns * rb:
            return f'{P} workers, {ns} samples, float64 output: the file has {size} bytes = {size / rb} rows, expected {ns}'
        mm = np.memmap(out / 'out.bin', dtype=odt, mode='r', shape=(ns, NC))
        got = np.asarray(mm[:, NCV])
        bad = np.where(got != sync.astype(odt))[0]
        del mm
        if bad.size:
            b = int(bad[0])
            return (f'{P} workers, {ns} samples, float64 output ({ns * rb} bytes, worker start positions beyond byte 2^31): the sync column differs '
                    f'from the source at {bad.size} rows, first at row {b} (byte {b * rb}): {got[b]} instead of {int(sync[b])}')
        B = len(list(WindowGenerator(ns, N, 2 * T).firstlast))
        o = read_outputs(out, None)
        qc = [None if o[k] is None else tuple(o[k].shape) for k in ('sat', 'rms', 'times')]
        if qc != [(ns,), (B, NCV), (B,)]:
            return f'{P} workers, {ns} samples: QC shapes (saturation, rms, timestamps) = {qc}, expected {[(ns,), (B, NCV), (B,)]}'
        return None
    finally:
        scipy.signal.sosfiltfilt, voltage.car = saved
        shutil.rmtree(tmp, ignore_errors=True)


def _large_case(payload):
    import warnings
    warnings.filterwarnings('ignore')
    t0 = time.time()
    try:
        r = oracle_large(payload)
    except Exception as e:      # noqa
        r = f'harness: {type(e).__name__}: {e}'
    return r, time.time() - t0


def correspondence(ctx):
    cases, T = gen_cases(ctx)
    lines, keys = _model_lines(cases, T)
    t0 = time.time()
    answers = _lean_parallel(ctx, lines)
    t_lean = time.time() - t0
    models = [{'sched': {}, 'rows': {}} for _ in cases]
    for (ci, op, P), a in zip(keys, answers):
        models[ci][op][P] = a
    payloads = [{'case': c, 'model': m, 'T': T} for c, m in zip(cases, models)]
    # longest first
    order = sorted(range(len(cases)), key=lambda i: -cases[i]['ns'] * len(cases[i]['runs']))
    rng_large = ctx.subrng(9106)
    t0 = time.time()
    results = [None] * len(cases)
    with _pool(_nproc()) as ex:
        large = None
        if not ctx.quick:      # thorough tier, or a quick run escalated by a broken tie
            Pl = int(rng_large.integers(3, 9))
            linp = {'large': 1, 'P': Pl, 'T': T, 'ns': _large_ns(T, Pl, NC * 8), 'order': [int(x) for x in rng_large.permutation(Pl)]}
            large = (linp, ex.submit(_large_case, linp))
        futs = {ex.submit(run_case, payloads[i]): i for i in order}
        for f in concurrent.futures.as_completed(futs):
            results[futs[f]] = f.result()
        t_last = time.time() - t0
        if large is not None:
            linp, fut = large
            res, wall = fut.result()
            ctx.compare('large-offset', {'op': 'large-offset', **linp}, res or 'holds', 'holds', nontrivial=True,
                        tags=('scale: last worker writes beyond byte 2^31 (float64 output, default NBATCH)', f'P={linp["P"]}'))
            ctx.note(f'large-offset case: {linp["ns"]} samples, {linp["P"]} workers, {wall:.0f}s')
    t_run = time.time() - t0
    ctx.note(f'last case finished after {t_last:.1f}s, pool closed after {t_run:.1f}s')
    exact = inexact = same = differs = 0
    for r in results:
        for rec in r['records']:
            same += 'sched_same' in rec['tags']
            differs += 'sched_differs' in rec['tags']
            exact += 'recomp_exact' in rec['tags']
            inexact += 'recomp_inexact' in rec['tags']
            ok = ctx.compare(rec['op'], rec['desc'], rec['impl'], rec['model'], nontrivial=rec['nontrivial'], tags=rec['tags'])
            if not ok and rec.get('note'):
                ctx.note(f"{rec['op']} {json.dumps(rec['desc'], default=str)[:300]}: {rec['note']}")
    ctx.note(f'{len(cases)} recordings ({sum(1 for c in cases if not c.get("f14"))} in the property domain, '
             f'{sum(1 for c in cases if c.get("f14"))} in the excluded F14 class), {sum(len(c["runs"]) for c in cases)} runs of the real function; '
             f'recomposition bit-exact in {exact} runs, within 1 LSB in {inexact}; '
             f'exact sequence of seeks/writes per worker identical to the model in {same} of {same + differs} traced runs; lean {t_lean:.1f}s, runs {t_run:.1f}s on {_nproc()} processes; '
             f'taper constant from the source: {T}')
    ctx.c06_cases = cases
    slow = sorted(results, key=lambda r: -r['wall'])[:4]
    ctx.note('slowest cases: ' + '; '.join(f"{r['wall']:.0f}s ns={r['case']['ns']} N={r['case']['N']} kfilter={r['case']['kfilter']} "
                                           f"runs={[x[0] for x in r['case']['runs']]}" for r in slow))


# ---------------------------------------------------------------------------------------------
# oracle: the property stated directly on the real code (no Lean model involved)
# ---------------------------------------------------------------------------------------------
def _oracle_desc():
    return ('C06: for ns >= nprocesses*NBATCH the output has (ns + ns2add) rows after the bytes already there (append), the sync column '
            'equals the source, the bytes are the same for 1 and for P workers in any task order, they equal batch-wise in-memory '
            'destriping over WindowGenerator(ns, NBATCH, 2*SAMPLES_TAPER).firstlast_valid, saturation has ns entries and '
            'RMS/timestamps one row per batch')


def oracle(inp):
    """Returns None when the property holds on this input, else a description of what fails.
    inp: ns, N, P, seed, T, kfilter, wrot, gains, ns2add, sat, append (None or {ns, N, P, ns2add}), nc_out (None or int)."""
    if inp.get('large'):
        return oracle_large(inp)
    _limit_threads()
    from ibldsp.utils import WindowGenerator
    ns, N, P, T = int(inp['ns']), int(inp['N']), int(inp['P']), int(inp.get('T', 1024))
    if not (N > 2 * T and P >= 1 and (ns >= P * N or (P == 1 and ns >= T))):
        return None      # outside the domain of the property (known finding)
    case = {'kfilter': inp.get('kfilter', 0), 'wrot': inp.get('wrot', 'none'), 'ns2add': inp.get('ns2add', 0),
            'seed': inp.get('seed', 0), 'nc_out': inp.get('nc_out'), 'form': inp.get('form') or {}}
    kw = _kw(case)
    nc_out = inp.get('nc_out') or NC
    form, odt = _form(case), _odt(case)
    rb = _rb(case)
    tmp = Path(tempfile.mkdtemp(prefix='c06o_'))
    try:
        src, D = make_recording(tmp, 'rec', ns, case['seed'], sat=inp.get('sat') or (), gains=inp.get('gains'))
        # 1 worker, fresh file: the reference of "independent of the worker count"
        d1 = tmp / 'p1'; d1.mkdir()
        if inp.get('stale') and not inp.get('append'):
            _plant_stale(d1, ns + case['ns2add'] + int(inp['stale']), rb, case['seed'])
        r = run_destripe(src, d1, N, 1, mode='seq', form=form, **kw)
        if r['error']:
            return f'1 worker: raised {r["error"]}'
        o1 = read_outputs(d1, form)
        wg = WindowGenerator(ns, N, 2 * T)
        valid = [tuple(int(x) for x in q) for q in wg.firstlast_valid]
        B = len(valid)
        b1 = o1['bytes']
        if len(b1) != (ns + case['ns2add']) * rb:
            return f'1 worker: output has {len(b1) / rb} rows, expected ns + ns2add = {ns + case["ns2add"]}'
        rows1 = b1.view(odt).reshape(-1, nc_out)
        if nc_out == NC:
            bad = np.where(rows1[:ns, NCV] != D[:, NCV].astype(odt))[0]
            if bad.size:
                return (f'sync column differs from the source at {bad.size} samples, first at {int(bad[0])}: '
                        f'{rows1[bad[0], NCV]} instead of {int(D[bad[0], NCV])}')
        qc = [None if o1[k] is None else tuple(o1[k].shape) for k in ('sat', 'rms', 'times')]
        if qc != [(ns,), (B, NCV), (B,)]:
            return f'1 worker: QC shapes (saturation, rms, timestamps) = {qc}, expected {[(ns,), (B, NCV), (B,)]}'
        # batch-wise in-memory destriping with the documented margins
        bp = BatchProcessor(src, N, T, k_filter=kw['k_filter'], wrot=kw.get('wrot'), nc_out=inp.get('nc_out'), dtype=odt,
                            butter_kwargs=_butter(form, 30000.0))
        idx = list(range(B)) if B <= 10 else sorted({0, 1, 2, B // 2, B - 3, B - 2, B - 1})
        for k in idx:
            f, l, fv, lv = valid[k]
            exp = bp.rows(f, l, fv - f, lv - f)
            exact, mx, sync_eq = _diff_rows(rows1[fv:lv], exp, min(NCV, nc_out))
            if mx is None or mx > 1 or not sync_eq:
                bp.close()
                return (f'1 worker: rows [{fv}, {lv}) differ from in-memory destriping of batch [{f}, {l}) in the documented order '
                        f'(destripe, mute, / sample2volts per channel, whitening, astype(dtype)): max difference {mx} counts, sync equal: {sync_eq}')
        bp.close()
        # the whitening matrix is applied to the output: out(W) = out(None) @ W up to the integer truncations
        if case['wrot'] in MATRIX_WROT:
            d0 = tmp / 'p1_nowrot'; d0.mkdir()
            r = run_destripe(src, d0, N, 1, mode='seq', form=form, **{k: v for k, v in kw.items() if k != 'wrot'})
            if r['error']:
                return f'1 worker without wrot: raised {r["error"]}'
            rows0 = read_outputs(d0, form)['bytes'].view(odt).reshape(-1, nc_out)
            rel = whitening_relation(rows1[:ns], rows0[:ns], kw['wrot'], NCV)
            if rel:
                return '1 worker: ' + rel
        # P workers, two task orders, optionally appended to a first run
        pre = None
        if inp.get('append'):
            a = inp['append']
            src0, _ = make_recording(tmp, 'first', int(a['ns']), case['seed'] + 1)
            dp = tmp / 'pre'; dp.mkdir()
            r = run_destripe(src0, dp, int(a['N']), int(a['P']), mode='seq', form=form, **{**kw, 'ns2add': int(a.get('ns2add', 0))})
            if r['error']:
                return f'first run (to append to) raised {r["error"]}'
            pre = read_outputs(dp, form)
        orders = [list(range(P))] + ([list(range(P))[::-1]] if P > 1 else [])
        if P == 1 and not pre:
            orders = []
        for order in orders:
            d = tmp / f'p{P}_{order[0]}'
            if pre is not None:
                shutil.copytree(tmp / 'pre', d)
            else:
                d.mkdir()
                if inp.get('stale'):
                    _plant_stale(d, ns + case['ns2add'] + int(inp['stale']), rb, case['seed'])
            r = run_destripe(src, d, N, P, mode='seq', form=form, order=order, **({**kw, 'append': True} if pre is not None else kw))
            who = f'{P} workers (task order {order})' + (' appending' if pre is not None else '')
            if r['error']:
                return f'{who}: raised {r["error"]}'
            o = read_outputs(d, form)
            got = o['bytes']
            npre = 0 if pre is None else len(pre['bytes'])
            if len(got) != npre + len(b1):
                return f'{who}: output has {len(got)} bytes, expected {npre} + {len(b1)}'
            if pre is not None and not np.array_equal(got[:npre], pre['bytes']):
                return f'{who}: the bytes of the first run were modified'
            if not np.array_equal(got[npre:], b1):
                bad = np.where(got[npre:] != b1)[0]
                return (f'{who}: bytes differ from the 1-worker output at {bad.size} positions, first in row {int(bad[0]) // rb} '
                        f'(column {(int(bad[0]) % rb) // 2})')
            n0 = 0 if pre is None else pre['times'].shape[0]
            qc = [None if o[k] is None else tuple(o[k].shape) for k in ('sat', 'rms', 'times')]
            if qc != [(ns,), (n0 + B, NCV), (n0 + B,)]:
                return f'{who}: QC shapes (saturation, rms, timestamps) = {qc}, expected {[(ns,), (n0 + B, NCV), (n0 + B,)]}'
            if not np.array_equal(o['rms'][n0:], o1['rms']):
                return f'{who}: RMS rows differ from the 1-worker run'
        return None
    finally:
        shutil.rmtree(tmp, ignore_errors=True)


def _oracle_safe(inp):
    import warnings
    warnings.filterwarnings('ignore')
    try:
        return oracle(inp)
    except Exception as e:     # noqa
        return f'oracle raised {type(e).__name__}: {e}'


def _size(inp):
    return (inp['ns'], inp['P'], int(bool(inp.get('stale'))) + int(bool(inp.get('append'))) + int(bool(inp.get('ns2add'))) + int(inp.get('wrot', 'none') != 'none')
            + int(bool(inp.get('kfilter'))) + int(bool(inp.get('sat'))) + int(bool(inp.get('nc_out')))
            + int((inp.get('gains') or 'uniform') != 'uniform') + len(inp.get('form') or {}))


def _grid(T):
    g = []
    N1, N2, N3 = _smooth(2 * T + 512), _smooth(3 * T), _smooth(4 * T)

    def mk(ns, N, P, **k):
        d = {'ns': ns, 'N': N, 'P': P, 'seed': 11, 'T': T, 'kfilter': 0, 'wrot': 'none', 'gains': 'uniform', 'ns2add': 0, 'sat': [], 'append': None, 'nc_out': None, 'form': {}}
        d.update(k)
        return d
    g.append(mk(2 * N1, N1, 2))
    g.append(mk(2 * N1, N1, 2, stale=N1))
    g.append(mk(T, N2, 1, stale=1, ns2add=3))
    g.append(mk(T, N2, 1))
    g.append(mk(T, N2, 1, wrot='penta', gains='halves'))
    g.append(mk(2 * N1, N1, 2, wrot='matrix', gains='mixed'))
    g.append(mk(2 * N1, N1, 2, form={'dtype': 'float32'}))
    g.append(mk(2 * N1 + 1, N1, 2, form={'dtype': 'int32', 'call': 'pos', 'src': 'str', 'out': 'str', 'qc': 1},
                append={'ns': N1, 'N': N1, 'P': 1, 'ns2add': 0}))
    g.append(mk(3 * N2, N2, 3, wrot='penta', gains='halves',
                form={'dtype': 'float32', 'h': 1, 'k_kwargs': 1, 'butter': 'explicit', 'reader_kwargs': 1, 'nbatch': 'np64', 'wform': 'F'}))
    g.append(mk(N1 + (N1 - 2 * T) + 1, N1, 1, ns2add=5, sat=[[N1 - T - 20, 50]]))
    g.append(mk(2 * N1 + 1, N1, 2, ns2add=3, sat=[[N1 - 30, 40], [2 * N1 - 20, 30]], append={'ns': N1, 'N': N1, 'P': 1, 'ns2add': 0}))
    g.append(mk(3 * N2 + 1, N2, 3, wrot='scalar', sat=[[N2, 25]]))
    g.append(mk(4 * N3, N3, 4, sat=[[5, 30]]))
    g.append(mk(5 * N2 + 3, N2, 5, ns2add=1, append={'ns': 2 * N1, 'N': N1, 'P': 2, 'ns2add': 3}))
    g.append(mk(3 * N1, N1, 3, kfilter=1))
    g.append(mk(8 * N3, N3, 8))
    return g


def _inputs_from_mismatches(ctx, T):
    out, seen = [], set()
    for m in ctx.mismatches[:60]:
        c = m['case'].get('case') if 'case' in m['case'] else m['case']
        if not isinstance(c, dict) or 'ns' not in c or 'N' not in c:
            continue
        P = int(c.get('P', 1))
        inp = {'ns': int(c['ns']), 'N': int(c['N']), 'P': P, 'seed': int(c.get('seed', 0)), 'T': T, 'kfilter': int(c.get('kfilter', 0)),
               'wrot': c.get('wrot', 'none'), 'gains': c.get('gains') or 'uniform', 'ns2add': int(c.get('ns2add', 0)), 'sat': c.get('sat') or [],
               'append': c.get('append'), 'nc_out': c.get('nc_out'), 'form': c.get('form') or {}, 'stale': c.get('stale')}
        if inp['ns'] < P * inp['N'] and not (P == 1 and inp['ns'] >= T):
            continue
        key = json.dumps(inp, sort_keys=True)
        if key not in seen:
            seen.add(key); out.append(inp)
    out.sort(key=_size)
    return out[:10]


def search(ctx, reasons):
    T = int(ctx.consts.get('DESTRIPE_TAPER', 1024))
    # the saturated stretches of the generated cases are not part of the mismatch descriptions: recover them
    sat_of = {(c['ns'], c['N'], c['seed']): c.get('sat') for c in getattr(ctx, 'c06_cases', [])}
    for m in ctx.mismatches:
        if m.get('op') == 'large-offset':
            linp = {k: v for k, v in m['case'].items() if k != 'op'}
            with _pool(1) as ex:
                r = list(ex.map(_oracle_safe, [linp]))[0]
            if r:
                return {'input': linp, 'observed': r, 'expected': _oracle_desc() + ' — at a scale where file positions exceed 2^31 bytes',
                        'how': 'harness/props/c06.py oracle_large(input): ramp recording, temporal and spatial filters replaced by the identity '
                               '(they do not decide where rows are written), real decompress_destripe_cbin(nbatch=65536, dtype=float64, '
                               'nprocesses=P) run with the sequential stand-in in the given task order; ./check C06 --replay <this file>'}
    cands = _inputs_from_mismatches(ctx, T)
    for c in cands:
        c['sat'] = sat_of.get((c['ns'], c['N'], c['seed'])) or []
    cands = cands + _grid(T)
    fails = []
    with _pool(_nproc()) as ex:
        for inp, r in zip(cands, ex.map(_oracle_safe, cands)):
            if r:
                fails.append((inp, r))
        if not fails:
            return None
        fails.sort(key=lambda x: _size(x[0]))
        inp, r = fails[0]
        # shrink: drop options one at a time, then fewer workers
        for _ in range(4):
            trials = []
            for k, v in (('append', None), ('stale', None), ('ns2add', 0), ('wrot', 'none'), ('kfilter', 0), ('sat', []), ('nc_out', None), ('gains', 'uniform')):
                if inp.get(k) not in (v, None, 0, 'none', []):
                    trials.append({**inp, k: v})
            if len(inp.get('form') or {}) > 1:
                trials.append({**inp, 'form': {}})
                if 'dtype' in inp['form']:
                    trials.append({**inp, 'form': {'dtype': inp['form']['dtype']}})
            for k in list(inp.get('form') or {}):      # back to the default spelling, one entry at a time
                trials.append({**inp, 'form': {kk: vv for kk, vv in inp['form'].items() if kk != k}})
            if inp['P'] > 2:
                trials.append({**inp, 'P': 2})
            if not trials:
                break
            res = list(ex.map(_oracle_safe, trials))
            better = [(t, rr) for t, rr in zip(trials, res) if rr]
            if not better:
                break
            better.sort(key=lambda x: _size(x[0]))
            inp, r = better[0]
    return {'input': inp, 'observed': r, 'expected': _oracle_desc(),
            'how': 'harness/props/c06.py oracle(input): synthetic 385-channel recording make_recording(ns, seed, sat), then '
                   'ibldsp.voltage.decompress_destripe_cbin(rec, out, nbatch=N, nprocesses=P, reject_channels=False, ...) with the '
                   'pyfftw stand-in of harness/stubs on PYTHONPATH; ./check C06 --replay <this file>'}


def replay(ctx, rep):
    inp = dict(rep['input'])
    with _pool(1) as ex:
        r = list(ex.map(_oracle_safe, [inp]))[0]
    print('oracle:', r)
    return r is not None


# ---------------------------------------------------------------------------------------------
# known findings
# ---------------------------------------------------------------------------------------------
def _demo_short(T):
    """F14: recording shorter than nprocesses x NBATCH -> crash, or bytes that depend on the worker count"""
    _limit_threads()
    N = _smooth(3 * T)
    tmp = Path(tempfile.mkdtemp(prefix='c06k_'))
    try:
        # (a) 2 workers, ns = 1900 < 2*N: worker 1 starts within a taper of the end -> chunk shorter than the taper
        src, _ = make_recording(tmp, 'a', 1900 * T // 1024, 5)
        da = tmp / 'a2'; da.mkdir()
        ra = run_destripe(src, da, N, 2, mode='seq')
        crash = ra['error'] is not None
        # (b) ns = N, 4 workers: worker 3 re-writes the tail from window [N-2T, N) instead of [0, N)
        src, _ = make_recording(tmp, 'b', N, 6)
        outs = {}
        for P in (1, 4):
            d = tmp / f'b{P}'; d.mkdir()
            r = run_destripe(src, d, N, P, mode='seq')
            outs[P] = (r['error'], read_outputs(d))
        differs = (outs[4][0] is not None or outs[1][0] is not None
                   or not np.array_equal(outs[1][1]['bytes'], outs[4][1]['bytes'])
                   or outs[1][1]['rms'].shape != outs[4][1]['rms'].shape)
        return bool(crash or differs)
    finally:
        shutil.rmtree(tmp, ignore_errors=True)


def _demo_rms_false(T):
    _limit_threads()
    tmp = Path(tempfile.mkdtemp(prefix='c06k_'))
    try:
        src, _ = make_recording(tmp, 'a', 2 * T, 5)
        r = run_destripe(src, tmp, _smooth(3 * T), 1, mode='seq', compute_rms=False)
        return r['error'] is not None and 'NameError' in r['error']
    finally:
        shutil.rmtree(tmp, ignore_errors=True)


def _demo_qc_str(T):
    """output_qc_path given as str (output_file may be a str): AttributeError after the output has been written, QC files not saved"""
    _limit_threads()
    tmp = Path(tempfile.mkdtemp(prefix='c06k_'))
    try:
        src, _ = make_recording(tmp, 'a', 2 * T, 5)
        r = run_destripe(src, tmp, _smooth(3 * T), 1, mode='seq', form={'qc': 'str', 'out': 'str'})
        return r['error'] is not None and 'AttributeError' in r['error']
    finally:
        shutil.rmtree(tmp, ignore_errors=True)


def _demo_nbatch_int16(T):
    """nbatch given as a NumPy fixed-width integer: first_s and the seek offsets are computed in that width and wrap"""
    _limit_threads()
    import warnings
    warnings.filterwarnings('ignore')
    tmp = Path(tempfile.mkdtemp(prefix='c06k_'))
    try:
        N = _smooth(2 * T + 512)
        ns = 2 * N + 7
        src, _ = make_recording(tmp, 'a', ns, 5)
        sizes = {}
        for f in ('int', 'np16'):
            d = tmp / f; d.mkdir()
            r = run_destripe(src, d, N, 2, mode='seq', form={'nbatch': f})
            o = read_outputs(d)
            sizes[f] = (r['error'], None if o['bytes'] is None else len(o['bytes']))
        return sizes['int'] == (None, ns * NC * 2) and sizes['np16'] != sizes['int']
    finally:
        shutil.rmtree(tmp, ignore_errors=True)


def known_findings(ctx):
    T = int(ctx.consts.get('DESTRIPE_TAPER', 1024))

    def in_pool(fn):
        def run():
            with _pool(1) as ex:
                return ex.submit(fn, T).result()
        return run
    return {'short_recording_many_workers': in_pool(_demo_short), 'compute_rms_false': in_pool(_demo_rms_false),
            'output_qc_path_str': in_pool(_demo_qc_str), 'nbatch_fixed_width_int': in_pool(_demo_nbatch_int16)}
