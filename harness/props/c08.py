"""C08 — Probe geometry is a consistent, jointly permuted description of the sites
(spikeglx.geometry_from_meta & helpers, neuropixel.{rc2xy, xy2rc, dense_layout, adc_shifts, trace_header,
split_trace_header})."""
import logging
import os
import shutil
import tempfile

import numpy as np

ID = 'C08'
DRIVER = 'C08'
LEAN_TARGETS = ['IblVerif.Properties.C08']
THEOREMS = [
    'IblVerif.C08.tuples_parsed_once',
    'IblVerif.C08.sites_listed_once',
    'IblVerif.C08.unsorted_geometry_wf',
    'IblVerif.C08.sorted_is_sort_of_unsorted',
    'IblVerif.C08.sort_perm',
    'IblVerif.C08.sort_order',
    'IblVerif.C08.sort_joint',
    'IblVerif.C08.sort_ind',
    'IblVerif.C08.rc_xy_inverse',
    'IblVerif.C08.xy_rc_inverse',
    'IblVerif.C08.encodings_agree',
    'IblVerif.C08.split_is_restriction',
    'IblVerif.C08.adc_loop_eq_closed',
    'IblVerif.C08.adc_table',
    'IblVerif.C08.adc_hardware',
    'IblVerif.C08.adc_by_channel_partial',
    'IblVerif.C08.adc_by_position_counterexample',
    'IblVerif.C08.dense_layouts',
    'IblVerif.C08.trace_header_eq',
    'IblVerif.C08.geometry_program',
    'IblVerif.C08.geometry_program_pure',
    'IblVerif.C08.program_order_matters_swapped',
    'IblVerif.C08.program_order_matters',
]
RULE = ('site tables drawn from the NP1 (2x480), NP2.1 (2x640), NP2.4 (4 shanks x 2x640) and NPultra (8x48) grids: '
        'n in {0,1..8, 9..64, 65..383, 383, 384, 385..400} sites (boundary-biased), selections dense / contiguous bank / '
        'random distinct / every k-th row / shank-interleaved blocks, orders natural / shuffled / reversed / column-major, '
        'occasional duplicated site and 0 flags; rendered as snsShankMap, as snsGeomMap under the SpikeGLX convention, both keys, '
        'off-grid geometry maps, malformed tuples, no map, unknown probe type; sort on/off; NP2.4_shank key absent / present / '
        'empty shank; every case is run through geometry_from_meta(return_index=True) (a tenth also through a written .meta '
        'file and read_geometry; a seventh also against the statement program GeomStages.run of the model) and the Lean model, all nine keys + the index list compared exactly; plus '
        'split_trace_header of those geometries, _map_channels_from_meta on random strings over "0-9:(),", '
        'rc2xy/xy2rc on random on/off-grid integers, all trace_header/dense_layout/split_trace_header/adc_shifts arguments. '
        'plus an exhaustive box (all ordered selections of 1..2 (quick) / 1..3 (thorough) sites of a 2x2x2 grid corner). A case is non-trivial when it has >= 2 sites; distinct by its full description (generator index, sizes, first sites).')
ASSUMPTIONS = [
    'input forms excluded because the API does not support them (checked on the unchanged tree): Python lists for rc2xy / xy2rc (TypeError), '
    'float nc for adc_shifts (TypeError), numeric metadata given as strings (imDatPrb_type = "24" is not recognised: read_meta_data never produces it), '
    'a string shank for split_trace_header (compares unequal to every site), unsigned arrays below the grid origin for xy2rc (modular arithmetic), '
    '8-bit integer arrays for rc2xy (NumPy keeps the array dtype against the Python-int pitches, so y = 20*row + 20 wraps: see known_findings demo rc2xy_narrow_int_overflow)',
    'results must not depend on earlier calls: repeated / interleaved calls on the same metadata dict, header dict or arrays must keep '
    'returning the geometry of the original values (on the unchanged tree no call changes its argument objects: geometry_from_meta does '
    '`th["y"] += 20` in place, but on the array parsed in that call); argument bit-identity itself and aliasing of results are not demanded',
    'tuple fields are parsed through np.float32: exact for values <= 2^24; generated fields are < 10^5 (the model answers outofmodel above 2^24)',
    'geometry-map coordinates off the probe grid (non-integral row/col in Python) are outside the property; the model answers '
    '"offgrid" there and the harness checks that the real code returns a non-integral row or column exactly in those cases',
    'two-encodings claim under the SpikeGLX convention NP1 x = 27 + 32c - 16(r%2), y = 20r; NP2 x = 27 + 32c, y = 15r (part of the statement); '
    'NPultra is outside that claim (its geometry map gets the +20 um offset although its grid has Y0 = 0): the model reproduces the code',
    'ADC group / delay are assigned by POSITION in the saved list: equal to "by original channel number" only when the saved channels are '
    'a prefix 0..n-1 (known finding adc_by_position_nonprefix_subset); the generator never produces a non-prefix snsSaveChanSubset '
    '(the code does not read that key at all) and theorem adc_by_channel_partial carries the hypothesis',
    'np.lexsort is stable (ties keep file order); probe versions are the six tags of MAJOR_VERSION or None',
    'sample_shift is compared as the exact numerator k of k / n_cycles (float64 division re-done in Python must reproduce the value bit for bit)',
    'translator tie: tests of the source that are not integer comparisons are fixed per item (version == "NPultra" true / false, sort true / false, '
    'return_index = True, the no-map test false); `version` stands for np.floor(version); a broken or unavailable tie is never a violation (the '
    'correspondence is escalated to thorough depth and decides)',
]
TRUSTED = ['np.lexsort / NumPy fancy indexing / boolean-mask assignment semantics as transcribed in Model/Geometry.lean, Model/Adc.lean',
           "Python re: '[0-9]*:[0-9]*:[0-9]*:[0-9]*' scanned leftmost, greedy, non-overlapping (transcribed as findTuples; compared on random strings each run)",
           'translator tie: harness/pyfn2lean.py and the regular expressions of harness/tiespecs/c08.py that read array statements as events; the NumPy meaning '
           'given to each event in Model/GeomStagesC08.lean (step / denseStep / runMapPlan / runSplit / runLoopBody: dict copy, in-place +=, dict.update with the result of '
           'xy2rc / rc2xy, np.c_ + np.lexsort with the last key primary, {k: v[idx]} over every key, np.tile / repeat); the statement program is also run against the real '
           'code (op geomprog)']
LEVEL_TEXT = ('Lean 4 theorems for every site table of <= NC sites in any order, both encodings, sorted/unsorted, every shank: parse lists '
              'each tuple once; the sort is a permutation ordered by (shank, row, -col, original index) that re-indexes all nine keys jointly; '
              'rc2xy/xy2rc inverse on every grid; shank-map and geometry-map strings give identical geometries (NP1/NP2/NP2.4, SpikeGLX convention); '
              'split geometry = restriction of the parent (sort commutes with restriction); adc_shifts loop = closed form, each ADC serves its '
              'channels at distinct evenly spaced delays; dense layouts = closed forms; geometry_from_meta = the run of its statement program '
              '(order of copy / NP1 flip / +20 / conversion / ADC columns by position / shank split / ind / lexsort keys / joint gather) from ANY '
              'leftover state (purity). Model tied to the real code by an exact differential run AND by a translator tie: the decision / '
              'statement-order skeleton of adc_shifts, _map_channels_from_meta, _split_geometry_into_shanks, split_trace_header, geometry_from_meta and '
              'dense_layout is regenerated from the source text on every run and proved equal to the model for all arguments.')
LEVEL_NOTE = ('partial: "ADC attributes depend only on the original channel number" is proved for prefix saved subsets only (known finding, '
              'counterexample theorem); ADC loop and dense layouts are kernel evaluations over the complete 384-channel tables (decide +kernel; '
              'the tie of dense_layout evaluates the SOURCE\'s tile / repeat statements the same way), everything else is by induction / case analysis for all inputs. '
              'Tie (IblVerif.Tie.C08, 16 theorems): rc2xy / xy2rc expressions, ADC number, pointwise fix-ups; per-version (adc_channels, n_cycles) and the '
              'mask assignment of the loop body; which map key is scanned and the field positions; both shank restrictions gather EVERY key; the whole '
              'statement list of geometry_from_meta (site-table branch, sort on / off) = GeomStages.stages, whose run = geometryFromMeta; dense_layout '
              'for versions 1 / 2 / 2.4 / NPultra and every nshank. NOT covered by the tie (correspondence only): the regular-expression scan and np.float32 '
              'conversion of the tuples, the closed form (i % 2a) // 2 of the sampling rank (the source has only the loop; model loop = closed form by kernel '
              'evaluation), the no-map default branch of geometry_from_meta, _get_neuropixel_version_from_meta (tied under C09), NumPy dtype / aliasing behaviour. '
              'Purity is proved for the local variables of the program; a cache outside the function (seeded change C08_g) is only caught by the call-sequence '
              'checks of the correspondence. trusted: Lean kernel, harness, NumPy lexsort stability, float32 exactness below 2^24')
TECHNIQUE = ('Lean 4: generic stable insertion sort (Perm / Sorted / stability / commutes with filter and key-preserving maps), list induction, '
             'omega over generated grid and ADC constants, decide +kernel over complete tables; a small-step interpreter of the statement programs '
             '(Model/GeomStagesC08.lean) proved equal to the functional model; translator tie (source text -> Lean event lists -> theorems, re-proved on every run); '
             'exact correspondence run on generated metadata')

# ---------------------------------------------------------------------------------------------
GRIDS = {   # family -> (n shanks, n columns, n rows) of the site grid in shank-map coordinates
    'NP1': (1, 2, 480), 'NP2.1': (1, 2, 640), 'NP2.4': (4, 2, 640), 'NPultra': (1, 8, 48),
}
FAMILY = {'3A': 'NP1', '3B1': 'NP1', '3B2': 'NP1', 'NP2.1': 'NP2.1', 'NP2.4': 'NP2.4', 'NPultra': 'NPultra', None: 'NP2.4'}
MAJOR_TOKEN = {'3A': '1', '3B1': '1', '3B2': '1', 'NP2.1': '2', 'NP2.4': '2.4', 'NPultra': 'NPultra'}
KEYS = ('shank', 'col', 'row', 'x', 'y', 'flag', 'sample_shift', 'adc', 'ind')


def _mods():
    import neuropixel
    import spikeglx
    logging.getLogger(spikeglx._logger.name).setLevel(logging.ERROR)
    return spikeglx, neuropixel


def version_fields(tag, rng=None):
    """metadata entries that make _get_neuropixel_version_from_meta return `tag` (None: unknown probe)."""
    alt = (rng.integers(0, 2) == 1) if rng is not None else False
    if tag == '3A':
        return {'typeEnabled': '1'}
    if tag == '3B1':
        return {'imDatPrb_type': 0.0}
    if tag == '3B2':
        return {'imDatPrb_type': 0.0, 'imDatPrb_port': 1.0, 'imDatPrb_slot': 2.0}
    if tag == 'NP2.1':
        return {'imDatPrb_type': 1030.0 if alt else 21.0, 'imDatPrb_port': 1.0, 'imDatPrb_slot': 2.0}
    if tag == 'NP2.4':
        return {'imDatPrb_type': 2013.0 if alt else 24.0, 'imDatPrb_port': 1.0, 'imDatPrb_slot': 2.0}
    if tag == 'NPultra':
        return {'imDatPrb_type': 1100.0, 'imDatPrb_port': 1.0, 'imDatPrb_slot': 2.0}
    return {'imDatPrb_type': 1300.0, 'imDatPrb_port': 1.0, 'imDatPrb_slot': 2.0} if alt else {'imDatPrb_port': 1.0}


def sglx_xy(family, c, r):
    """SpikeGLX geometry-map coordinates of the site (col c, row r) of the shank map (the stated convention)."""
    if family == 'NP1':
        return 27 + 32 * c - 16 * (r % 2), 20 * r
    if family == 'NPultra':
        return 6 * c, 6 * r + 4     # + 4: the code adds 20 um, 24 = 4 * 6 keeps the site on the 6 um grid
    return 27 + 32 * c, 15 * r


def render(sites, hdr):
    return hdr + ''.join('(%d:%d:%d:%d)' % tuple(t) for t in sites)


# ---- input forms: the same mathematical value / the same call in every legitimate representation ----------------
NUM_FORMS = ('float', 'int', 'npfloat', 'npint')          # numeric metadata values: parsed from a file (float) or hand-built
SHANK_FORMS = ('float', 'int', 'npint', 'str')            # meta_data["NP2.4_shank"] goes through int(...)
VERSION_FORMS = {'1': ('int', 'float', 'npfloat', 'npint', 'npfloat32'), '2': ('int', 'float', 'npfloat', 'npint', '2.1'),
                 '2.4': ('float', 'npfloat'), 'NPultra': ('str',)}
DEFAULT_FORM = {'md': 'dict', 'num': 'float', 'shank': 'float', 'call': 'kw'}


def num_form(x, form):
    return {'float': float, 'int': int, 'npfloat': np.float64, 'npint': np.int64, 'str': lambda v: str(int(v)),
            'npfloat32': np.float32}[form](x)


def version_value(token, form='default'):
    """the Python value of a major version token ('1', '2', '2.4', 'NPultra') in the given form"""
    base = {'1': 1, '2': 2, '2.4': 2.4, 'NPultra': 'NPultra'}[token]
    if form in ('default', 'str') or token == 'NPultra':
        return base
    if form == '2.1':
        return 2.1
    if token == '2.4':
        return {'float': 2.4, 'npfloat': np.float64(2.4)}[form]
    return num_form(base, form)


def draw_form(rng):
    """form of a geometry_from_meta call, drawn independently of the value; the plain form half of the time"""
    if rng.random() < 0.5:
        return dict(DEFAULT_FORM)
    return {'md': 'bunch' if rng.random() < 0.5 else 'dict', 'num': NUM_FORMS[int(rng.integers(0, 4))],
            'shank': SHANK_FORMS[int(rng.integers(0, 4))], 'call': 'pos' if rng.random() < 0.5 else 'kw'}


def build_meta(case, rng=None):
    """the metadata dict of a generated case (what read_meta_data would return for the written file); numeric values,
    the NP2.4_shank value and the container type follow case['form'] when present"""
    form = case.get('form') or DEFAULT_FORM
    md = {k: (num_form(v, form['num']) if isinstance(v, float) else v) for k, v in version_fields(case['version'], rng).items()}
    fam = FAMILY[case['version']]
    sites = case['sites']
    enc = case['enc']
    g = GRIDS[fam]
    hdr_s = '(%d,%d,%d)' % g
    hdr_g = '(NP%d,%d,%d,70)' % (1010 if fam == 'NP1' else 2013, g[0], 0 if g[0] == 1 else 250)
    geom_sites = [(s, *sglx_xy(fam, c, r), f) for (s, c, r, f) in sites]
    if enc in ('shank', 'both'):
        md['snsShankMap'] = render(sites, hdr_s)
    if enc == 'geom':
        md['snsGeomMap'] = render(geom_sites, hdr_g)
    if enc == 'both':       # a different table in the geometry map: the shank map must win
        md['snsGeomMap'] = render(geom_sites[::-1], hdr_g)
    if enc == 'offgrid':
        k, dx, dy = case['perturb']
        gs = [list(t) for t in geom_sites]
        gs[k][1] += dx
        gs[k][2] += dy
        md['snsGeomMap'] = render(gs, hdr_g)
    if enc == 'malformed':
        k, field = case['perturb'][:2]
        body = ['%d:%d:%d:%d' % tuple(t) for t in sites]
        parts = body[k].split(':')
        parts[field] = ''
        body[k] = ':'.join(parts)
        md['snsShankMap'] = hdr_s + ''.join('(%s)' % b for b in body)
    if case.get('shank_key') is not None:
        md['NP2.4_shank'] = num_form(case['shank_key'], form['shank'])
    n = len(sites)
    md['nSavedChans'] = num_form(n + 1, form['num'])
    md['snsSaveChanSubset'] = ('0:%d,%d' % (n - 1, 768)) if n else '768'   # always a prefix of the probe + sync
    if form['md'] == 'bunch':
        from iblutil.util import Bunch
        md = Bunch(md)
    return md


def geometry_call(md, sort, nc=384, return_index=True, spelling='kw'):
    """spikeglx.geometry_from_meta spelled with keywords or positionally in the documented order
    (meta_data, return_index, nc, sort)"""
    spikeglx, _ = _mods()
    if spelling == 'pos':
        return spikeglx.geometry_from_meta(md, return_index, nc, sort)
    return spikeglx.geometry_from_meta(md, return_index=return_index, nc=nc, sort=sort)


def _tok(s):
    """map string -> driver token: '-' key absent, '@' key present but empty"""
    return '-' if s is None else (s or '@')


def meta_tokens(md):
    """the driver's view of the metadata: shankMap geomMap typeEnabled prbType portSlot np24shank"""
    pt = md.get('imDatPrb_type')
    sh = md.get('NP2.4_shank')
    return [_tok(md.get('snsShankMap')), _tok(md.get('snsGeomMap')),
            '1' if 'typeEnabled' in md else '0', '-' if pt is None else str(int(float(pt))),
            '1' if ('imDatPrb_port' in md and 'imDatPrb_slot' in md) else '0',
            '-' if sh is None else str(int(float(sh)))]


def _ints(a):
    a = np.asarray(a, dtype=float)
    r = np.rint(a)
    if not np.array_equal(r, a):
        return None
    return ','.join(str(int(v)) for v in r) if a.size else '-'


def canon_geom(th, den):
    """geometry dict -> the driver's canonical line (without 'ok ' / inds); 'offgrid' for non-integral row/col"""
    out = ['den=%d' % den]
    for k, name in (('shank', 'shank'), ('col', 'col'), ('row', 'row'), ('x', 'x'), ('y', 'y'), ('flag', 'flag'),
                    ('sample_shift', 'ss'), ('adc', 'adc'), ('ind', 'ind')):
        if k not in th:
            if k in ('shank', 'col', 'row', 'x', 'y'):
                return 'missing-key ' + k
            out.append(name + '=absent')
            continue
        v = np.asarray(th[k], dtype=float)
        if k == 'sample_shift':
            num = np.rint(v * den)
            if not np.array_equal(num / den, v):     # same float64 division as np.arange(a) / n_cycles
                return 'inexact-sample-shift'
            s = _ints(num)
        else:
            s = _ints(v)
            if s is None:
                return 'offgrid' if k in ('row', 'col') else 'non-integral ' + k
        out.append(name + '=' + s)
    return ' '.join(out)


def den_of(ctx_consts, major):
    if major in ('1', 'NPultra'):
        return int(ctx_consts['ADC_NP1_CYCLES'])
    return int(ctx_consts['ADC_NP2_CYCLES'])


def _err(e):
    return 'err ' + type(e).__name__



# ---------------------------------------------------------------------------------------------
# statefulness: the Lean model is a function of its arguments, so the correspondence is only meaningful if the
# implementation is one too.  Every call below is made as a SEQUENCE (`pure_seq`) on the SAME argument objects:
#   call 1;  call 2 (same objects);  other library functions on other data;  call 3 (same objects);
#   call 4 on fresh equal copies of the ORIGINAL argument values.
# What is demanded is only the property-level consequence: every result equals the first one (and hence the model
# of the original values).  Whether a call modified its argument objects is recorded (tag `arg-modified`, quoted in
# the message of a failing sequence) but is not itself a disagreement; returned values are never written to
# (result aliasing an internal buffer is not part of the property).
# ---------------------------------------------------------------------------------------------
import collections
PURITY = collections.Counter()


def _snap(x):
    if isinstance(x, np.ndarray):
        return x.copy()
    if isinstance(x, dict):
        return {k: _snap(v) for k, v in x.items()}
    if isinstance(x, (list, tuple)):
        return type(x)(_snap(v) for v in x)
    return x


def _same(a, b, path='arg'):
    """None when b is bit-identical to the snapshot a, else where it differs"""
    if isinstance(a, np.ndarray):
        if not isinstance(b, np.ndarray) or a.dtype != b.dtype or a.shape != b.shape or a.tobytes() != b.tobytes():
            return f'{path} (array) was {np.asarray(a).ravel()[:6]}, now {np.asarray(b).ravel()[:6]}'
        return None
    if isinstance(a, dict):
        if not isinstance(b, dict) or list(a.keys()) != list(b.keys()):
            return f'{path} keys {list(a.keys())[:8]} -> {list(b.keys())[:8] if isinstance(b, dict) else type(b).__name__}'
        for k in a:
            r = _same(a[k], b[k], f'{path}[{k!r}]')
            if r:
                return r
        return None
    if isinstance(a, (list, tuple)):
        if type(a) is not type(b) or len(a) != len(b):
            return f'{path} changed length/type'
        for i, (u, v) in enumerate(zip(a, b)):
            r = _same(u, v, f'{path}[{i}]')
            if r:
                return r
        return None
    if type(a) is not type(b) or a != b:
        return f'{path} {a!r:.60} -> {b!r:.60}'
    return None


_INTERLEAVE_MD = {'imDatPrb_type': 21.0, 'imDatPrb_port': 1.0, 'imDatPrb_slot': 1.0,
                  'snsGeomMap': '(NP2013,1,0,70)(0:27:0:1)(0:59:0:1)(0:27:15:1)'}
_INTERLEAVE_MD2 = {'imDatPrb_type': 0.0, 'imDatPrb_port': 1.0, 'imDatPrb_slot': 1.0, 'NP2.4_shank': 0.0,
                   'snsShankMap': '(1,2,480)(0:1:3:1)(0:0:3:1)(0:0:2:0)'}
_ICOUNT = [0]


def _interleave():
    """other functions of the library, on other data, between two identical calls (results are only read)"""
    spikeglx, neuropixel = _mods()
    i = _ICOUNT[0] = _ICOUNT[0] + 1
    v = (1, 2, 2.4, 'NPultra')[i % 4]
    j = i % 6
    if j == 0:
        neuropixel.trace_header(version=v, nshank=4 if v == 2.4 else 1)
    elif j == 1:
        neuropixel.adc_shifts(version=v, nc=7 + i % 5)
    elif j == 2:
        spikeglx.geometry_from_meta(_INTERLEAVE_MD, sort=bool(i % 4 < 2))
    elif j == 3:
        a = np.arange(5, dtype=np.float32)
        neuropixel.xy2rc(a, a, version=v); neuropixel.rc2xy(a, a, version=v)
    elif j == 4:
        spikeglx.geometry_from_meta(_INTERLEAVE_MD2, sort=bool(i % 4 < 2))
    else:
        neuropixel.split_trace_header(neuropixel.dense_layout(version=2, nshank=4), shank=i % 4)


def pure_seq(call, args, kwargs, canon, name):
    """Run the call sequence described above.  Returns the canonical first result when every call of the sequence
    agrees with it, else 'stateful: <the concrete call sequence and its wrong result>' (never equal to a model answer)."""
    def one(a, k):
        try:
            return call(*a, **k), None
        except (KeyError, ValueError, IndexError) as e:
            return None, _err(e)

    def differs(r, e):          # later result vs the (snapshotted) first one; canonical strings only when needed
        if e is not None or e1 is not None:
            return None if e == e1 else _first_diff(c1, e or canon(r))
        if _same(r1, r, 'result') is None:
            return None
        c = canon(r)
        return None if c == c1 else _first_diff(c1, c)
    snap_a, snap_k = _snap(args), _snap(kwargs)
    r1, e1 = one(args, kwargs)
    c1 = e1 or canon(r1)
    r1 = _snap(r1)
    mod = _same(snap_a, args) or _same(snap_k, kwargs, 'kwarg')
    note = ''
    if mod:
        PURITY['arg-modified:' + name] += 1
        note = f' [the first call changed its argument object: {mod}]'
    PURITY['sequences:' + name] += 1
    d = differs(*one(args, kwargs))
    if d:
        return f'stateful: r1 = {name}(a); r2 = {name}(a) with the same argument objects: r2 differs from r1: ' + d + note
    _interleave()
    d = differs(*one(args, kwargs))
    if d:
        return (f'stateful: r1 = {name}(a); r2 = {name}(a); other library calls on other data '
                f'(trace_header / adc_shifts / geometry_from_meta / xy2rc / split_trace_header); r3 = {name}(a): r3 differs from r1: '
                + d + note)
    d = differs(*one(_snap(snap_a), _snap(snap_k)))
    if d:
        return f'stateful: {name}(fresh copy of the original a) after three calls differs from the first call: ' + d + note
    return c1


def _first_diff(c1, c2):
    t1, t2 = c1.split(), c2.split()
    for u, v in zip(t1, t2):
        if u != v:
            k1, _, v1 = u.partition('='); _, _, v2 = v.partition('=')
            l1, l2 = v1.split(','), v2.split(',')
            for i, (x, y) in enumerate(zip(l1, l2)):
                if x != y:
                    return f'{k1}[{i}] = {x} (first call) vs {y}'
            return f'{u[:60]} vs {v[:60]}'
    return f'{c1[:60]} vs {c2[:60]}'


def impl_geom(consts, md, major, sort, nc, pure=True, spelling='kw'):
    spikeglx, _ = _mods()

    def canon(res):
        th, inds = res
        if th is None:
            return 'none' if inds is None else 'bad-none'
        c = canon_geom(th, den_of(consts, major))
        if not c.startswith('den='):
            return c
        return 'ok ' + c + ' inds=' + (_ints(inds) or 'non-integral')

    def call(m, **kw):
        return geometry_call(m, spelling=spelling, **kw)
    kw = {'return_index': True, 'nc': nc, 'sort': sort}
    if pure:
        return pure_seq(call, (md,), kw, canon, 'geometry_from_meta')
    try:
        return canon(call(md, **kw))
    except (KeyError, ValueError, IndexError) as e:
        return _err(e)


def split_call(h, s, shank_form='int', spelling='kw'):
    """neuropixel.split_trace_header with the shank number as int / float / numpy int, keyword or positional"""
    _, neuropixel = _mods()
    sv = {'int': int, 'float': float, 'npint': np.int64, 'npuint8': np.uint8}[shank_form](s)
    return neuropixel.split_trace_header(h, sv) if spelling == 'pos' else neuropixel.split_trace_header(h, shank=sv)


def impl_geomsplit(consts, md, major, sort, s, shank_form='int', spelling='kw'):
    spikeglx, neuropixel = _mods()
    try:
        th = spikeglx.geometry_from_meta(md, sort=sort)
    except (KeyError, ValueError, IndexError) as e:
        return _err(e)
    if th is None:
        return 'none'
    c0 = canon_geom(th, den_of(consts, major))
    if not c0.startswith('den='):
        return c0

    def canon(r):
        c = canon_geom(r, den_of(consts, major))
        return ('ok ' + c) if c.startswith('den=') else c
    return pure_seq(lambda h, shank: split_call(h, shank, shank_form, spelling), (th,), {'shank': s}, canon, 'split_trace_header')


# ---------------------------------------------------------------------------------------------
# generator
# ---------------------------------------------------------------------------------------------
def _natural_sites(fam, rng, n, kind):
    """n sites of the family's grid, distinct, in the order SpikeGLX would list them for that selection"""
    nsh, ncol, nrow = GRIDS[fam]
    per_row = ncol
    if kind == 'onecol':                      # a single column of one shank: only even or only odd electrodes
        c_ = int(rng.integers(0, ncol))
        sh = int(rng.integers(0, nsh))
        step = int(rng.choice([1, 1, 2, 3]))
        n = min(n, (nrow - 1) // step + 1)
        r0 = int(rng.integers(0, nrow - (n - 1) * step))
        return [(sh, c_, r0 + i * step) for i in range(n)]
    if kind == 'dense':                       # bank 0, channel i -> (col i % ncol, row i // ncol)
        sh = 0
        return [(sh, i % per_row, i // per_row) for i in range(n)]
    if kind == 'bank':                        # contiguous block starting at a random row / shank
        rows_needed = -(-n // per_row)
        r0 = int(rng.integers(0, max(nrow - rows_needed, 0) + 1))
        sh = int(rng.integers(0, nsh))
        return [(sh, i % per_row, r0 + i // per_row) for i in range(n)]
    if kind == 'rows':                        # every k-th row
        k = int(rng.integers(2, 5))
        rows_needed = -(-n // per_row)
        k = max(1, min(k, (nrow - 1) // max(rows_needed - 1, 1))) if rows_needed > 1 else 1
        sh = int(rng.integers(0, nsh))
        return [(sh, i % per_row, (i // per_row) * k) for i in range(n)]
    if kind == 'blocks':                      # blocks of `b` channels alternating between shanks
        b = int(rng.choice([2, 16, 32, 48, 96]))
        shanks = [int(x) for x in rng.permutation(nsh)[:int(rng.integers(1, nsh + 1))]]
        nxt = {s: int(rng.integers(0, 40)) * per_row for s in shanks}
        out = []
        i = 0
        while len(out) < n:
            s = shanks[(i // b) % len(shanks)]
            j = nxt[s]
            nxt[s] += 1
            out.append((s, j % per_row, j // per_row))
            i += 1
        return out
    # random distinct sites over the whole grid
    total = nsh * ncol * nrow
    idx = rng.choice(total, size=min(n, total), replace=False)
    idx.sort()
    return [(int(i // (ncol * nrow)), int(i % ncol), int((i // ncol) % nrow)) for i in idx]


def gen_case(rng, k):
    tag = [None, '3A', '3B1', '3B2', 'NP2.1', 'NP2.4', 'NPultra'][int(rng.choice(7, p=[.05, .08, .05, .2, .2, .34, .08]))]
    fam = FAMILY[tag]
    nsh, ncol, nrow = GRIDS[fam]
    b = rng.random()
    if b < 0.02:
        n = 0
    elif b < 0.16:
        n = int(rng.integers(1, 4))          # tiny tables: 1..3 sites
    elif b < 0.34:
        n = int(rng.integers(1, 9))
    elif b < 0.58:
        n = int(rng.integers(9, 65))
    elif b < 0.68:
        n = int(rng.integers(65, 383))
    elif b < 0.72:
        n = 383
    elif b < 0.97:
        n = 384
    else:
        n = int(rng.integers(385, 401))
    n = min(n, nsh * ncol * nrow)
    kind = ['dense', 'bank', 'rows', 'blocks', 'random', 'onecol'][int(rng.choice(6, p=[.17, .13, .08, .22 if nsh > 1 else .05, .25 if nsh > 1 else .42, .15]))]
    sites = _natural_sites(fam, rng, n, kind) if n else []
    order = ['natural', 'shuffled', 'reversed', 'colmajor'][int(rng.choice(4, p=[.4, .35, .1, .15]))]
    if order == 'shuffled':
        sites = [sites[i] for i in rng.permutation(len(sites))]
    elif order == 'reversed':
        sites = sites[::-1]
    elif order == 'colmajor':
        sites = sorted(sites, key=lambda t: (t[1], t[0], t[2]))
    dup = False
    if len(sites) >= 2 and rng.random() < 0.06:       # a site listed twice (ties: stability of the sort)
        i, j = rng.integers(0, len(sites), 2)
        sites[int(i)] = sites[int(j)]
        dup = bool(i != j)
    flags = (rng.random(len(sites)) < 0.5).astype(int) if rng.random() < 0.15 else np.ones(len(sites), int)
    sites = [(s, c, r, int(f)) for (s, c, r), f in zip(sites, flags)]
    e = rng.random()
    enc = 'shank' if e < .43 else 'geom' if e < .84 else 'both' if e < .88 else 'offgrid' if e < .92 else \
        'malformed' if e < .95 else 'none'
    perturb = None
    if enc in ('offgrid', 'malformed'):
        if not sites or (enc == 'offgrid' and n > 384):
            enc = 'shank'
        else:
            perturb = (int(rng.integers(0, len(sites))), int(rng.integers(0, 4)) if enc == 'malformed' else int(rng.integers(1, 6)),
                       int(rng.integers(0, 5)))
    shank_key = None
    u = rng.random()
    if enc == 'offgrid':
        pass        # an off-grid site could be filtered out by the shank restriction: keep the classification simple
    elif (nsh > 1 and u < 0.4) or u < 0.05:
        present = sorted({t[0] for t in sites}) or [0]
        shank_key = int(rng.choice(present)) if rng.random() < 0.85 else int(rng.integers(0, 6))
    case = {'k': k, 'version': tag, 'sites': sites, 'enc': enc, 'perturb': perturb, 'sort': bool(rng.random() < 0.6),
            'shank_key': shank_key, 'nc': 384 if rng.random() < 0.8 else int(rng.integers(0, 500)),
            'kind': kind, 'order': order, 'dup': dup}
    case['form'] = draw_form(rng)
    return case


def case_desc(c, op='geom', extra=None):
    d = {'op': op, 'k': c['k'], 'version': c['version'], 'n': len(c['sites']), 'enc': c['enc'], 'kind': c['kind'],
         'order': c['order'], 'sort': c['sort'], 'shank_key': c['shank_key'], 'first_sites': [list(t) for t in c['sites'][:4]],
         'form': c.get('form')}
    if extra:
        d.update(extra)
    return d


def nbucket(n):
    return 'n=0' if n == 0 else 'n=1' if n == 1 else 'n=2..8' if n <= 8 else 'n=9..64' if n <= 64 else \
        'n=65..383' if n <= 383 else 'n=384' if n == 384 else 'n>384'


def _write_meta(md, path):
    with open(path, 'w') as fid:
        for k, v in md.items():
            key = '~' + k if k in ('snsShankMap', 'snsGeomMap') else k
            if isinstance(v, float):
                v = int(v)
            fid.write(f'{key}={v}\n')


RCXY_DTYPES = ('int16', 'int32', 'int64', 'float32', 'float64', 'uint16')
RCXY_LAYOUTS = ('scalar', '1d', '2d', 'strided', 'readonly', 'fortran')


def draw_rcxy_form(rng, vtoken):
    lay = RCXY_LAYOUTS[int(rng.choice(6, p=[.25, .3, .15, .1, .1, .1]))]
    dt = ('pyint', 'pyfloat', 'npint64', 'npfloat32')[int(rng.integers(0, 4))] if lay == 'scalar' else RCXY_DTYPES[int(rng.integers(0, 6))]
    vf = VERSION_FORMS[vtoken]
    return {'layout': lay, 'dtype': dt, 'version': vf[int(rng.integers(0, len(vf)))], 'call': ('pos', 'kw', 'mixed')[int(rng.integers(0, 3))]}


def _operand(vals, form):
    """the list of integers `vals` in the requested representation"""
    lay, dt = form['layout'], form['dtype']
    if lay == 'scalar':
        return {'pyint': int, 'pyfloat': float, 'npint64': np.int64, 'npfloat32': np.float32}[dt](vals[0])
    a = np.array(vals, dtype=dt)
    if lay == '2d':
        return a.reshape(1, -1) if a.size % 2 else a.reshape(2, -1)
    if lay == 'fortran':
        return np.asfortranarray(np.stack([a, a])[:1] if a.size < 2 else a.reshape(-1, 2) if a.size % 2 == 0 else a.reshape(-1, 1))
    if lay == 'strided':
        big = np.zeros(2 * a.size, dtype=dt)
        big[::2] = a
        return big[::2]
    if lay == 'readonly':
        a.setflags(write=False)
    return a


def rcxy_call(fn, vtoken, form, first, second):
    """neuropixel.rc2xy(row, col, version) / xy2rc(x, y, version) on the values in the given form; canonical answers of the
    elements joined by ';' (through the call sequence of pure_seq)"""
    _, neuropixel = _mods()
    f = getattr(neuropixel, fn)
    names = ('row', 'col') if fn == 'rc2xy' else ('x', 'y')
    pv = version_value(vtoken, form['version'])

    def call(p, q):
        if form['call'] == 'pos':
            return f(p, q, pv)
        if form['call'] == 'kw':
            return f(**{names[1]: q, names[0]: p, 'version': pv})
        return f(p, q, version=pv)

    def canon(out):
        if fn == 'rc2xy':
            xs, ys = np.asarray(out['x'], dtype=float).ravel(), np.asarray(out['y'], dtype=float).ravel()
            return ';'.join(f'ok x={_ints([a]) or "non-integral"} y={_ints([b]) or "non-integral"}' for a, b in zip(xs, ys))
        rs, cs = np.asarray(out['row'], dtype=float).ravel(), np.asarray(out['col'], dtype=float).ravel()
        return ';'.join('offgrid' if _ints([a]) is None or _ints([b]) is None else f'ok row={_ints([a])} col={_ints([b])}' for a, b in zip(rs, cs))
    try:
        return pure_seq(call, (_operand(first, form), _operand(second, form)), {}, canon, fn)
    except TypeError as e:
        return 'err TypeError ' + str(e)[:60]


def n_cases(ctx):
    return ctx.n(1500, 25000)


def correspondence(ctx):
    spikeglx, neuropixel = _mods()
    consts = ctx.consts
    # --- constants the model takes from the translator: assert them against the imported module as well
    g = neuropixel.CHANNEL_GRID
    live = {'NC': neuropixel.NC, 'GRID_NP1_DX': g[1]['DX'], 'GRID_NP1_X0': g[1]['X0'], 'GRID_NP1_DY': g[1]['DY'], 'GRID_NP1_Y0': g[1]['Y0'],
            'GRID_NP2_DX': g[2]['DX'], 'GRID_NP2_X0': g[2]['X0'], 'GRID_NP2_DY': g[2]['DY'], 'GRID_NP2_Y0': g[2]['Y0'],
            'GRID_NPU_DX': g['NPultra']['DX'], 'GRID_NPU_X0': g['NPultra']['X0'], 'GRID_NPU_DY': g['NPultra']['DY'], 'GRID_NPU_Y0': g['NPultra']['Y0']}
    for k, v in live.items():
        ctx.compare('constant', {'op': 'constant', 'name': k}, int(v), int(consts.get(k, -1)), nontrivial=False, tags=('constant',))

    lines, impl, meta = [], [], []

    def add(op, desc, line, impl_s, nontrivial=True, tags=()):
        lines.append(line); impl.append(impl_s); meta.append((op, desc, nontrivial, tags))

    # --- 1. geometry_from_meta on generated site tables
    tmp = tempfile.mkdtemp(prefix='c08_')
    try:
        N = n_cases(ctx)
        for k in range(N):
            rng = ctx.subrng(1, k)
            c = gen_case(rng, k)
            md = build_meta(c, rng)
            major = MAJOR_TOKEN.get(c['version'], 'None')
            toks = meta_tokens(md)
            n = len(c['sites'])
            line = 'geom ' + ' '.join(toks) + f" {int(c['sort'])} {c['nc']}"
            fm = c['form']
            res = impl_geom(consts, md, major, c['sort'], c['nc'], pure=(n <= 64 or k % 2 == 0),    # call sequence; every 2nd large table
                            spelling=fm['call'])
            outcome = res.split()[0] + (' ' + res.split()[1] if res.startswith('err') else '')
            tags = ('geom', 'version=' + str(c['version']), 'enc=' + c['enc'], nbucket(n), 'order=' + c['order'], 'sel=' + c['kind'],
                    'sort=' + str(int(c['sort'])), 'shank_key=' + ('absent' if c['shank_key'] is None else 'present'),
                    'outcome=' + outcome, 'form:md=' + fm['md'], 'form:num=' + fm['num'], 'form:call=' + fm['call']) + \
                (('duplicate-site',) if c['dup'] else ()) + ((('form:shank=' + fm['shank']),) if c['shank_key'] is not None else ()) + \
                (('cols-present=' + ''.join(str(x) for x in sorted({t[1] for t in c['sites']})),) if 0 < n and FAMILY[c['version']] != 'NPultra' else ())
            add('geom', case_desc(c), line, res, nontrivial=(n >= 2), tags=tags)
            # the statement program of the model (GeomStages.run on GeomStages.stages) on the same metadata: the interpreter that
            # Tie/C08.lean runs the source's event list through is compared with the real code as well
            if k % 7 == 3 and n >= 1 and c['enc'] != 'none':
                add('geomprog', case_desc(c, 'geomprog'), 'geomprog ' + ' '.join(toks) + f" {int(c['sort'])}", res,
                    nontrivial=(n >= 2), tags=('geomprog', 'enc=' + c['enc'], 'outcome=' + outcome))
            # the SAME metadata object again with the other sort flag (what a Reader opened with sort=False after one with sort=True sees)
            if k % 5 == 2:
                c2_ = dict(c, sort=not c['sort'])
                add('geom', case_desc(c2_, 'geom', {'after': 'same metadata object, other sort flag first'}),
                    'geom ' + ' '.join(toks) + f" {int(c2_['sort'])} {c['nc']}", impl_geom(consts, md, major, c2_['sort'], c['nc'], spelling=fm['call']),
                    nontrivial=(n >= 2), tags=('geom', 'geom-resort'))
            # the same metadata through a written .meta file and read_geometry (sort=True, nc=384 there)
            if k % 10 == 0:
                f = os.path.join(tmp, f'c{k}.ap.meta')
                _write_meta(md, f)
                def canon_rg(th):
                    c_ = 'none' if th is None else canon_geom(th, den_of(consts, major))
                    return ('ok ' + c_) if c_.startswith('den=') else c_
                from pathlib import Path
                fpath = Path(f) if k % 20 == 0 else f        # str vs pathlib.Path
                r2 = pure_seq(spikeglx.read_geometry, (fpath,), {}, canon_rg, 'read_geometry')
                os.remove(f)
                add('read_geometry', case_desc(c, 'read_geometry'), 'geom ' + ' '.join(toks) + ' 1 384', r2,
                    nontrivial=(n >= 2), tags=('read_geometry',))
            # split_trace_header of the resulting geometry
            if k % 4 == 1:
                s = int(rng.integers(0, 5))
                add('geomsplit', case_desc(c, 'geomsplit', {'split': s}),
                    'geomsplit ' + ' '.join(toks) + f" {int(c['sort'])} {s}",
                    impl_geomsplit(consts, md, major, c['sort'], s, shank_form=('int', 'float', 'npint', 'npuint8')[k // 4 % 4],
                                   spelling='pos' if k % 8 == 1 else 'kw'), nontrivial=(n >= 2), tags=('geomsplit',))
    finally:
        shutil.rmtree(tmp, ignore_errors=True)

    # --- 1b. exhaustive small box: every ordered selection of 1..kmax distinct sites of a 2 shanks x 2 cols x 2 rows corner
    import itertools
    kmax = ctx.n(2, 3)
    corner = [(s, c_, r_) for s in (0, 1) for c_ in (0, 1) for r_ in (0, 1)]
    nbox = 0
    for tag in ('3B2', 'NP2.1', 'NP2.4'):
        pool = corner if tag == 'NP2.4' else corner[:4]
        major = MAJOR_TOKEN[tag]
        for kk in range(1, kmax + 1):
            for sel in itertools.permutations(pool, kk):
                sites = [(s, c_, r_, 1) for (s, c_, r_) in sel]
                for enc in ('shank', 'geom'):
                    for srt in (False, True):
                        for sk in ((None, 0, 1) if tag == 'NP2.4' else (None,)):
                            c = {'k': -1, 'version': tag, 'sites': sites, 'enc': enc, 'perturb': None, 'sort': srt, 'shank_key': sk,
                                 'nc': 384, 'kind': 'box', 'order': 'box', 'dup': False}
                            md = build_meta(c)
                            add('geom', {'op': 'geom-box', 'version': tag, 'sites': [list(t) for t in sites], 'enc': enc, 'sort': srt, 'shank_key': sk},
                                'geom ' + ' '.join(meta_tokens(md)) + f' {int(srt)} 384', impl_geom(consts, md, major, srt, 384),
                                nontrivial=(kk >= 2), tags=('geom-box',))
                            nbox += 1

    # --- 2. _map_channels_from_meta on random strings (regular-expression scan + float conversion)
    rng = ctx.subrng(2)
    alphabet = list('0123456789') * 2 + list('::::()(),,')

    def rand_string():      # digit runs of at most 6 characters (float32-exact fields) between random separators
        out = []
        for _ in range(int(rng.integers(0, 16))):
            out.append(''.join(rng.choice(list('0123456789'), size=int(rng.integers(0, 7) if rng.random() < 0.2 else rng.integers(0, 3)))))
            out.append(str(rng.choice(list('::::::()(),,;N'))))
        return ''.join(out)

    for i in range(ctx.n(600, 6000)):
        s = rand_string() if rng.random() < 0.7 else \
            render([(int(rng.integers(0, 4)), int(rng.integers(0, 99)), int(rng.integers(0, 999)), 1) for _ in range(int(rng.integers(0, 4)))],
                   ''.join(rng.choice(alphabet, size=int(rng.integers(0, 8)))))
        which = int(rng.integers(0, 3))
        md = {'snsShankMap': s} if which == 0 else {'snsGeomMap': s} if which == 1 else {'snsShankMap': s, 'snsGeomMap': '(0:1:2:3)'}
        def canon_cm(cm):
            if cm is None or all(v is None for v in cm.values()):
                return 'none'
            enc = 'geom' if 'x' in cm else 'shank'
            cols = [cm['shank'], cm['x'] if enc == 'geom' else cm['col'], cm['y'] if enc == 'geom' else cm['row'], cm['flag']]
            return f'ok enc={enc} ' + ' '.join(f'c{j}=' + (_ints(c) or 'non-integral') for j, c in enumerate(cols))
        r = pure_seq(spikeglx._map_channels_from_meta, (md,), {}, canon_cm, '_map_channels_from_meta')
        toks = [_tok(md.get('snsShankMap')), _tok(md.get('snsGeomMap'))]
        add('mapch', {'op': 'mapch', 'shankMap': md.get('snsShankMap'), 'geomMap': md.get('snsGeomMap')},
            'mapch ' + ' '.join(toks), r, nontrivial=(':' in s), tags=('mapch', 'mapch=' + r.split()[0]))

    # --- 3. rc2xy / xy2rc: values x forms (scalar / array dtype / layout, version form, call spelling), one model line per element
    rng = ctx.subrng(3)
    for i in range(ctx.n(500, 5000)):
        v = ['1', '2', '2.4', 'NPultra'][int(rng.integers(0, 4))]
        form = draw_rcxy_form(rng, v)
        m = 1 if form['layout'] == 'scalar' else int(rng.choice([1, 2, 4]))
        rcs = [(int(rng.integers(-5, 700)), int(rng.integers(-5, 12))) for _ in range(m)]
        if form['dtype'] == 'uint16':
            rcs = [(abs(r_), abs(c_)) for r_, c_ in rcs]
        res = rcxy_call('rc2xy', v, form, [t[0] for t in rcs], [t[1] for t in rcs]).split(';')
        res = res if len(res) == m else [res[0]] * m
        ftags = ('form:layout=' + form['layout'], 'form:dtype=' + form['dtype'], 'form:version=' + form['version'], 'form:call=' + form['call'])
        for (r_, c_), e in zip(rcs, res):
            add('rc2xy', {'op': 'rc2xy', 'version': v, 'row': r_, 'col': c_, 'form': form}, f'rc2xy {v} {r_} {c_}', e, tags=('rc2xy',) + ftags)
        g_ = neuropixel.CHANNEL_GRID[{'1': 1, '2': 2, '2.4': 2, 'NPultra': 'NPultra'}[v]]
        xys = []
        for (r_, c_) in rcs:
            if rng.random() < 0.6:
                x, y = c_ * g_['DX'] + g_['X0'], r_ * g_['DY'] + g_['Y0']
                if rng.random() < 0.3:
                    x += int(rng.integers(-3, 4)); y += int(rng.integers(-3, 4))
            else:
                x, y = int(rng.integers(-40, 400)), int(rng.integers(-40, 10000))
            if form['dtype'] == 'uint16':      # unsigned arithmetic wraps below the grid origin: keep such forms on or above it
                x, y = max(x, g_['X0']), max(y, g_['Y0'])
            xys.append((int(x), int(y)))
        res = rcxy_call('xy2rc', v, form, [t[0] for t in xys], [t[1] for t in xys]).split(';')
        res = res if len(res) == m else [res[0]] * m
        for (x, y), e in zip(xys, res):
            add('xy2rc', {'op': 'xy2rc', 'version': v, 'x': x, 'y': y, 'form': form}, f'xy2rc {v} {x} {y}', e,
                tags=('xy2rc', 'xy2rc=' + ('off' if e == 'offgrid' else 'on')) + ftags)

    # --- 4. canonical layouts, trace headers, their splits, ADC tables, version tags: exhaustive over the arguments AND over the
    #        forms of the version (1 / 1.0 / np.float64 / np.int64 / 2.1 ...) and the call spelling (keywords / positional / defaults)
    frng = ctx.subrng(5)
    for v in ('1', '2', '2.4', 'NPultra'):
        den = den_of(consts, v)
        cg = lambda h, den=den: 'ok ' + canon_geom(h, den)
        for vf in VERSION_FORMS[v]:
            pv = version_value(v, vf)
            for ns in (1, 2, 3, 4):
                for op, fn in (('dense', neuropixel.dense_layout), ('trace', neuropixel.trace_header)):
                    for sp in ('kw', 'pos') + (('default',) if ns == 1 else ()):
                        call = (lambda fn=fn, pv=pv, ns=ns: fn(version=pv, nshank=ns)) if sp == 'kw' else \
                            (lambda fn=fn, pv=pv, ns=ns: fn(pv, ns)) if sp == 'pos' else (lambda fn=fn, pv=pv: fn(pv))
                        r = pure_seq(call, (), {}, cg, fn.__name__)
                        add(op, {'op': op, 'version': v, 'nshank': ns, 'form': {'version': vf, 'call': sp}}, f'{op} {v} {ns}', r,
                            tags=(op, 'form:version=' + vf, 'form:call=' + sp))
                try:
                    h_ = neuropixel.trace_header(version=pv, nshank=ns)     # ONE header object split into all shanks, as a user would
                except (KeyError, ValueError, IndexError):
                    h_ = None
                for s in range(0, 5):
                    sf = ('int', 'float', 'npint', 'npuint8')[int(frng.integers(0, 4))]
                    sp = 'pos' if frng.random() < 0.5 else 'kw'
                    try:
                        if h_ is None:
                            h_ = neuropixel.trace_header(version=pv, nshank=ns)
                        r = pure_seq(lambda h, shank, sf=sf, sp=sp: split_call(h, shank, sf, sp), (h_,), {'shank': s}, cg, 'split_trace_header')
                    except (KeyError, ValueError, IndexError) as e:
                        r = _err(e)
                    add('tracesplit', {'op': 'tracesplit', 'version': v, 'nshank': ns, 'shank': s, 'form': {'version': vf, 'shank': sf, 'call': sp}},
                        f'tracesplit {v} {ns} {s}', r, tags=('tracesplit', 'form:shank=' + sf))
        # default arguments: trace_header() / dense_layout() / adc_shifts() are the NP1 single-shank, full-probe forms
        if v == '1':
            for op, fn in (('dense', neuropixel.dense_layout), ('trace', neuropixel.trace_header)):
                add(op, {'op': op, 'version': v, 'nshank': 1, 'form': {'call': 'no-arguments'}}, f'{op} 1 1', pure_seq(fn, (), {}, cg, fn.__name__),
                    tags=(op, 'form:call=no-arguments'))
        for nc in sorted(set([0, 1, 2, 3, 11, 12, 13, 23, 24, 25, 31, 32, 33, 191, 192, 383, 384, 385, 500] +
                             [int(x) for x in ctx.subrng(4).integers(0, 420, ctx.n(10, 120))])):
            def canon_adc(res, den=den):
                ss, adc = res
                num = np.rint(np.asarray(ss) * den)
                ok = np.array_equal(num / den, np.asarray(ss))
                return f"ok den={den} ss={_ints(num) if ok else 'inexact'} adc={_ints(adc)}"
            vf = VERSION_FORMS[v][int(frng.integers(0, len(VERSION_FORMS[v])))]
            pv = version_value(v, vf)
            ncf = ('int', 'npint', 'npint32', 'npuint16')[int(frng.integers(0, 4))]
            ncv = {'int': int, 'npint': np.int64, 'npint32': np.int32, 'npuint16': np.uint16}[ncf](nc)
            sp = ('kw', 'pos', 'default')[int(frng.integers(0, 3))] if nc == neuropixel.NC else ('kw', 'pos')[int(frng.integers(0, 2))]
            call = (lambda pv=pv, ncv=ncv: neuropixel.adc_shifts(version=pv, nc=ncv)) if sp == 'kw' else \
                (lambda pv=pv, ncv=ncv: neuropixel.adc_shifts(pv, ncv)) if sp == 'pos' else (lambda pv=pv: neuropixel.adc_shifts(pv))
            add('adc', {'op': 'adc', 'version': v, 'nc': nc, 'form': {'version': vf, 'nc': ncf, 'call': sp}}, f'adc {v} {nc}',
                pure_seq(call, (), {}, canon_adc, 'adc_shifts'), nontrivial=nc > 1,
                tags=('adc', 'form:nc=' + ncf, 'form:version=' + vf, 'form:call=' + sp))
    for te in (0, 1):
        for pt in (None, 0, 21, 24, 1030, 2013, 1100, 1300, 7):
            for ps in (0, 1, 2):
                md = {}
                if te:
                    md['typeEnabled'] = '1'
                if pt is not None:
                    md['imDatPrb_type'] = float(pt)
                if ps >= 1:
                    md['imDatPrb_port'] = 1.0
                if ps == 2:
                    md['imDatPrb_slot'] = 1.0
                tag = spikeglx._get_neuropixel_version_from_meta(md)
                mj = spikeglx._get_neuropixel_major_version_from_meta(md)
                add('version', {'op': 'version', 'typeEnabled': te, 'prbType': pt, 'portslot': ps},
                    f"version {te} {'-' if pt is None else pt} {1 if ps == 2 else 0}", f'{tag} {mj}', tags=('version',))

    ctx.note('call sequences (same objects: call, call, interleaved library calls, call, fresh copy): ' +
             ', '.join(f'{k}={v}' for k, v in sorted(PURITY.items())))
    for k_, v_ in PURITY.items():
        if k_.startswith('arg-modified'):
            ctx.dist[k_] += v_
    model = ctx.lean(lines)
    for (op, desc, nontrivial, tags), a, b in zip(meta, impl, model):
        if op == 'read_geometry':          # read_geometry does not return the index list
            b = b.split(' inds=')[0]
        ctx.compare(op, desc, a, b, nontrivial=nontrivial, tags=tags)
    ctx.note(f'exhaustive box: {nbox} cases = every ordered selection of 1..{kmax} distinct sites of a 2x2x2 corner x 3 probe types x 2 encodings x sorted/unsorted x shank key; '
             f'{n_cases(ctx)} generated site tables; all arguments of dense_layout/trace_header/split_trace_header '
             f'(4 versions x nshank 1..4 x shank 0..4), version tags (2 x 9 x 3) enumerated completely')


# ---------------------------------------------------------------------------------------------
# direct oracle of the property on the real code (independent of the Lean model)
# ---------------------------------------------------------------------------------------------
HW = {'NP1': (12, 13), 'NPultra': (12, 13), 'NP2.1': (16, 16), 'NP2.4': (16, 16)}   # channels per ADC, ADC cycles per sample


def expected_site(fam, c, r):
    """physical (x, y, row, col) of the shank-map site (c, r): x/y from the probe drawings, tip offset 20 um"""
    if fam == 'NP1':
        x = 70 - (27 + 32 * c - 16 * (r % 2))      # flipped staggered layout: 11, 27, 43, 59
        return x, 20 * r + 20, r, (x - 11) // 16
    if fam == 'NPultra':
        return 6 * c, 6 * r, r, c
    return 27 + 32 * c, 15 * r + 20, r, c


def expected_adc(fam, ch):
    a, ncy = HW[fam]
    return 2 * (ch // (2 * a)) + ch % 2, ((ch % (2 * a)) // 2) / ncy


def _geo(md, sort, spelling='kw'):
    return geometry_call(md, sort, return_index=False, spelling=spelling)


def _eq(a, b):
    return np.array_equal(np.asarray(a, dtype=float), np.asarray(b, dtype=float))


def _canon_any(r):
    """any returned value -> 'key=v,v,...' tokens (exact repr of the floats)"""
    if r is None:
        return 'None'
    if isinstance(r, dict):
        return ' '.join(f'{k}=' + ','.join(repr(float(v)) for v in np.asarray(r[k]).ravel()) for k in r) or 'empty-dict'
    if isinstance(r, (tuple, list)):
        return ' '.join(f'ret{i}:' + _canon_any(v) for i, v in enumerate(r))
    return 'value=' + ','.join(repr(float(v)) for v in np.asarray(r).ravel())


def _seq(call, args, kwargs, name):
    """None, or the concrete call sequence on the same objects whose later result differs from the first"""
    r = pure_seq(call, args, kwargs, _canon_any, name)
    return r if r.startswith('stateful:') else None


def oracle_table(inp):
    """C08 on one site table.  inp: {'version', 'sites': [(shank, col, row, flag)...]}; None when it holds."""
    spikeglx, neuropixel = _mods()
    tag, sites = inp['version'], [tuple(int(v) for v in t) for t in inp['sites']]
    fam = FAMILY[tag]
    n = len(sites)
    if tag is None or n == 0 or n > neuropixel.NC:
        return None
    major = spikeglx._get_neuropixel_major_version_from_meta(version_fields(tag))
    encs = ('shank',) if fam == 'NPultra' else ('shank', 'geom')
    form = inp.get('form') or dict(DEFAULT_FORM)        # representation of the call: container, number types, spelling
    sp = form['call']
    ref = {}
    for enc in encs:
        c = {'version': tag, 'sites': sites, 'enc': enc, 'shank_key': None, 'form': form}
        md = build_meta(c)
        # results must not depend on earlier calls: same metadata object, repeated / interleaved / other sort flag
        for srt in (True, False, True):
            r = _seq(lambda m, **kw: geometry_call(m, spelling=sp, **kw), (md,), {'sort': srt, 'return_index': True},
                     f'geometry_from_meta[sort={srt}, spelling={sp}]')
            if r:
                return f'{enc} map, md = c08.build_meta(input, enc={enc!r}): ' + r
        try:
            U = _geo(md, False, sp)
            S = _geo(md, True, sp)
        except Exception as e:
            return f'{enc} map: geometry_from_meta raised {type(e).__name__}: {e}'
        # each recorded site listed once, in file order when unsorted
        for k in KEYS:
            if k not in U or len(U[k]) != n or k not in S or len(S[k]) != n:
                return f'{enc} map: key {k} missing or not of length {n}'
        if not _eq(U['ind'], np.arange(n)):
            return f'{enc} map: unsorted ind is not 0..n-1: {np.asarray(U["ind"])[:6]}'
        exp = np.array([expected_site(fam, c_, r_) for (_, c_, r_, _) in sites], dtype=float)
        for j, k in enumerate(('x', 'y', 'row', 'col')):
            if not _eq(U[k], exp[:, j]):
                i = int(np.where(np.asarray(U[k], dtype=float) != exp[:, j])[0][0])
                return f'{enc} map: site {i} {sites[i]}: {k}={float(U[k][i])}, expected {exp[i, j]}'
        if not _eq(U['shank'], [t[0] for t in sites]) or not _eq(U['flag'], [t[3] for t in sites]):
            return f'{enc} map: shank/flag column differs from the tuples'
        # ADC attributes depend only on the channel number (saved subset is the prefix 0..n-1) and the probe generation
        ea = np.array([expected_adc(fam, ch) for ch in range(n)])
        if not _eq(U['adc'], ea[:, 0]) or not _eq(U['sample_shift'], ea[:, 1]):
            bad = np.where((np.asarray(U['adc'], dtype=float) != ea[:, 0]) | (np.asarray(U['sample_shift'], dtype=float) != ea[:, 1]))[0]
            i = int(bad[0])
            return (f'{enc} map: channel {i}: adc={float(U["adc"][i])}, sample_shift={float(U["sample_shift"][i])}; '
                    f'expected {ea[i, 0]}, {ea[i, 1]}')
        # sorting: a permutation, ordered by shank, row, descending column, every attribute moved together
        for srt, G_ in ((False, U), (True, S)):
            try:
                _, order = geometry_call(md, srt, spelling=sp)
            except Exception as e:
                return f'{enc} map: geometry_from_meta(return_index=True) raised {type(e).__name__}: {e}'
            if not _eq(order, G_['ind']):
                return f'{enc} map: the returned index list {np.asarray(order)[:8]} is not the original-index attribute {np.asarray(G_["ind"])[:8]} (sort={srt})'
        p = np.asarray(S['ind'])
        if sorted(int(v) for v in p) != list(range(n)):
            return f'{enc} map: sorted ind is not a permutation of 0..n-1: {p[:8]}'
        key = [(float(S['shank'][i]), float(S['row'][i]), -float(S['col'][i])) for i in range(n)]
        for i in range(n - 1):
            if key[i] > key[i + 1]:
                return (f'{enc} map: sorted positions {i},{i + 1} out of order: (shank,row,col)='
                        f'{(key[i][0], key[i][1], -key[i][2])} before {(key[i + 1][0], key[i + 1][1], -key[i + 1][2])}')
        for k in KEYS:
            if not _eq(S[k], np.asarray(U[k])[p]):
                i = int(np.where(np.asarray(S[k], dtype=float) != np.asarray(U[k], dtype=float)[p])[0][0])
                return (f'{enc} map: attribute {k} not moved with the permutation: sorted position {i} has ind={int(p[i])} '
                        f'but {k}={float(S[k][i])}, unsorted {k}[{int(p[i])}]={float(np.asarray(U[k])[p[i]])}')
        # row/col <-> x/y inverses on the probe grid
        rc = neuropixel.xy2rc(np.asarray(U['x']), np.asarray(U['y']), version=major)
        xy = neuropixel.rc2xy(np.asarray(U['row']), np.asarray(U['col']), version=major)
        if not (_eq(rc['row'], U['row']) and _eq(rc['col'], U['col']) and _eq(xy['x'], U['x']) and _eq(xy['y'], U['y'])):
            return f'{enc} map: xy2rc / rc2xy are not inverse on the sites of this table'
        # a split shank's geometry is the restriction of its parent's
        for srt, P in ((False, _snap(U)), (True, _snap(S))):
            P0 = _snap(P)       # one header object split into several shanks, each result vs the split of the original values
            done = []
            for s in [9] + sorted({t[0] for t in sites}):
                try:
                    a_, b_ = _canon_any(neuropixel.split_trace_header(P, shank=s)), _canon_any(neuropixel.split_trace_header(_snap(P0), shank=s))
                except Exception as e:
                    return f'{enc} map: split_trace_header raised {type(e).__name__}: {e}'
                done.append(s)
                if a_ != b_:
                    return (f'{enc} map, P = geometry_from_meta(md, sort={srt}); ' + '; '.join(f'split_trace_header(P, {q})' for q in done) +
                            f': the last result differs from split_trace_header(original P, {s}): ' + _first_diff(b_, a_))
            P = _snap(P0)
            for s in sorted({t[0] for t in sites}):
                r = _seq(lambda h, shank: neuropixel.split_trace_header(h, shank=shank), (P,), {'shank': s}, f'split_trace_header[shank={s}]')
                if r:
                    return f'{enc} map, P = geometry_from_meta(md, sort={srt}): ' + r
                mds = build_meta(dict(c, shank_key=s))
                try:
                    G = _geo(mds, srt, sp)
                    R = neuropixel.split_trace_header(P, shank=s)
                except Exception as e:
                    return f'{enc} map: shank {s}: raised {type(e).__name__}: {e}'
                J = np.where(np.asarray(U['shank']) == s)[0]
                for k in KEYS:
                    if k == 'ind':
                        gi = np.asarray(G['ind']).astype(int)
                        if sorted(gi.tolist()) != list(range(len(J))) or not _eq(J[gi], R['ind']):
                            return f'{enc} map: shank {s} sort={srt}: ind of the split geometry does not number the parent sites of the shank in order'
                    elif not _eq(G[k], R[k]):
                        return (f'{enc} map: shank {s} sort={srt}: {k} of the split geometry {np.asarray(G[k], dtype=float)[:6]} is not the '
                                f'restriction of the parent {np.asarray(R[k], dtype=float)[:6]}')
        ref[enc] = (U, S)
    if len(ref) == 2:
        for j, name in ((0, 'unsorted'), (1, 'sorted')):
            for k in KEYS:
                if not _eq(ref['shank'][j][k], ref['geom'][j][k]):
                    i = int(np.where(np.asarray(ref['shank'][j][k], dtype=float) != np.asarray(ref['geom'][j][k], dtype=float))[0][0])
                    return (f'the two encodings disagree ({name}) on {k}[{i}]: shank map gives {float(ref["shank"][j][k][i])}, '
                            f'geometry map gives {float(ref["geom"][j][k][i])}')
    return None


def oracle_global(inp):
    """C08 on the canonical layouts / ADC tables of one probe generation. inp: {'canonical': version token, 'nshank': k}"""
    spikeglx, neuropixel = _mods()
    v = inp['canonical']
    pv = version_value(v, inp.get('version_form', 'default'))       # 1 / 1.0 / np.float64(1) / np.int64(1) / 2.1 ...
    positional = inp.get('call') == 'pos'
    ns = int(inp.get('nshank', 1))
    fam = {'1': 'NP1', '2': 'NP2.1', '2.4': 'NP2.4', 'NPultra': 'NPultra'}[v]
    NC = neuropixel.NC
    if positional:      # positional arguments in the documented order: (version, nshank), (version, nc), (row, col, version), (h, shank)
        th_p, dl_p, ad_p = neuropixel.trace_header(pv, ns), neuropixel.dense_layout(pv, ns), neuropixel.adc_shifts(pv, np.int64(50))
        th_k, dl_k, ad_k = neuropixel.trace_header(version=pv, nshank=ns), neuropixel.dense_layout(version=pv, nshank=ns), neuropixel.adc_shifts(version=pv, nc=50)
        for nm, a_, b_ in (('trace_header', th_p, th_k), ('dense_layout', dl_p, dl_k), ('adc_shifts', ad_p, ad_k)):
            if _canon_any(a_) != _canon_any(b_):
                return f'{nm}({pv!r}, {ns if nm != "adc_shifts" else 50}) positional differs from the keyword call: ' + _first_diff(_canon_any(b_), _canon_any(a_))
        if _canon_any(neuropixel.split_trace_header(th_k, 1)) != _canon_any(neuropixel.split_trace_header(h=th_k, shank=1)):
            return 'split_trace_header(h, 1) positional differs from split_trace_header(h=h, shank=1)'
    for nm, fn, kw in (('trace_header', neuropixel.trace_header, {'version': pv, 'nshank': ns}),
                       ('dense_layout', neuropixel.dense_layout, {'version': pv, 'nshank': ns}),
                       ('adc_shifts', neuropixel.adc_shifts, {'version': pv}), ('adc_shifts', neuropixel.adc_shifts, {'version': pv, 'nc': 50})):
        r = _seq(lambda fn=fn, **k: fn(**k), (), kw, f'{nm}[{kw}]')
        if r:
            return r
    a_ = np.array([0, 1, 2, 3, 40], dtype=np.float32)
    for nm, fn in (('rc2xy', neuropixel.rc2xy), ('xy2rc', neuropixel.xy2rc)):
        r = _seq(lambda p, q, fn=fn: fn(p, q, version=pv), (a_.copy(), a_.copy() * 3), {}, f'{nm}[arrays [0,1,2,3,40], 3x that; version={v}]')
        if r:
            return r
    try:
        h = neuropixel.trace_header(version=pv, nshank=ns)
    except Exception as e:
        return f'trace_header({v}, {ns}) raised {type(e).__name__}: {e}'
    for k in ('x', 'y', 'row', 'col', 'shank', 'ind', 'adc', 'sample_shift'):
        if k not in h or len(h[k]) != NC:
            return f'trace_header({v}, {ns}): key {k} missing or not of length {NC}'
    if not _eq(h['ind'], np.arange(NC)):
        return f'trace_header({v}, {ns}): ind is not 0..NC-1'
    sites = {(int(s), int(r), int(c)) for s, r, c in zip(h['shank'], h['row'], h['col'])}
    if len(sites) != NC:
        return f'trace_header({v}, {ns}): {NC - len(sites)} sites listed more than once'
    ncol = 8 if fam == 'NPultra' else 2
    for s in sorted({t[0] for t in sites}):
        rows = sorted({t[1] for t in sites if t[0] == s})
        if rows != list(range(rows[0], rows[0] + len(rows))) or rows[0] != 0:
            return f'trace_header({v}, {ns}): rows on shank {s} are not dense from 0: {rows[:6]}…'
        if any(sum(1 for t in sites if t[0] == s and t[1] == r) != ncol for r in rows):
            return f'trace_header({v}, {ns}): a row on shank {s} does not hold {ncol} sites'
    if ns == 4 and fam in ('NP2.1', 'NP2.4') and sorted({t[0] for t in sites}) != [0, 1, 2, 3]:
        return f'trace_header({v}, 4): shanks {sorted({t[0] for t in sites})}'
    rc = neuropixel.xy2rc(h['x'], h['y'], version=pv)
    xy = neuropixel.rc2xy(h['row'], h['col'], version=pv)
    if not (_eq(rc['row'], h['row']) and _eq(rc['col'], h['col']) and _eq(xy['x'], h['x']) and _eq(xy['y'], h['y'])):
        return f'trace_header({v}, {ns}): xy2rc / rc2xy are not inverse on the canonical layout'
    # ADC: channel number and generation only; each ADC serves its channels at distinct evenly spaced delays
    a, ncy = HW[fam]
    ea = np.array([expected_adc(fam, ch) for ch in range(NC)])
    if not _eq(h['adc'], ea[:, 0]) or not _eq(h['sample_shift'], ea[:, 1]):
        i = int(np.where((np.asarray(h['adc']) != ea[:, 0]) | (np.asarray(h['sample_shift']) != ea[:, 1]))[0][0])
        return (f'trace_header({v}, {ns}): channel {i}: adc={float(h["adc"][i])}, sample_shift={float(h["sample_shift"][i])}; '
                f'expected {ea[i, 0]}, {ea[i, 1]} ({a} channels per ADC, {ncy} cycles)')
    for g_ in np.unique(h['adc']):
        d = np.sort(np.asarray(h['sample_shift'])[np.asarray(h['adc']) == g_])
        if len(d) != a or len(np.unique(d)) != a or not np.allclose(np.diff(d), 1 / ncy, atol=1e-12) or d[0] != 0 or d[-1] >= 1:
            return f'ADC {int(g_)} of version {v}: delays {d} are not {a} distinct values 0, 1/{ncy}, …'
    # the canonical layout is the geometry of its own site table (NP1: un-flip the column)
    tag = {'1': '3B2', '2': 'NP2.1', '2.4': 'NP2.4', 'NPultra': 'NPultra'}[v]
    tbl = []
    for s, r, c in zip(h['shank'], h['row'], h['col']):
        s, r, c = int(s), int(r), int(c)
        tbl.append((s, (2 + r % 2 - c) // 2 if fam == 'NP1' else c, r, 1))
    if ns == 1 or fam in ('NP1', 'NPultra'):
        # single-shank canonical layouts are bank 0 in channel order: channel i sits at shank-map (col i % ncol, row i // ncol)
        nat = [(0, i % ncol, i // ncol, 1) for i in range(NC)]
        if tbl != nat:
            i = next(j for j in range(NC) if tbl[j] != nat[j])
            return (f'trace_header({v}, {ns}): channel {i} is listed at shank-map (col, row) = {tbl[i][1:3]}, x={float(h["x"][i])}; '
                    f'the probe has it at {nat[i][1:3]}, x={expected_site(fam, nat[i][1], nat[i][2])[0]}')
    md = build_meta({'version': tag, 'sites': tbl, 'enc': 'shank', 'shank_key': None})
    try:
        G = _geo(md, False)
    except Exception as e:
        return f'geometry of the canonical table ({v}, {ns}) raised {type(e).__name__}: {e}'
    for k in ('x', 'y', 'row', 'col', 'shank', 'ind', 'adc', 'sample_shift'):
        if not _eq(G[k], h[k]):
            i = int(np.where(np.asarray(G[k], dtype=float) != np.asarray(h[k], dtype=float))[0][0])
            return f'trace_header({v}, {ns}) and the geometry read from its own shank map differ on {k}[{i}]: {float(h[k][i])} vs {float(G[k][i])}'
    # split_trace_header = restriction
    for s in range(0, 4):
        r = _seq(lambda hh, shank: neuropixel.split_trace_header(hh, shank=shank), (h,), {'shank': s}, f'split_trace_header[trace_header({v}, {ns}), shank={s}]')
        if r:
            return r
        R = neuropixel.split_trace_header(h, shank=s)
        m = np.asarray(h['shank']) == s
        for k in h.keys():
            if not _eq(R[k], np.asarray(h[k])[m]):
                return f'split_trace_header(trace_header({v}, {ns}), {s}): {k} is not the restriction to the shank'
    return None


HWGRID = {'1': (16, 11, 20, 20), '2': (32, 27, 15, 20), '2.4': (32, 27, 15, 20), 'NPultra': (6, 0, 6, 0)}   # pitch / origin in um


def oracle_rcxy(inp):
    """rc2xy / xy2rc on values in a given form.  inp: {'rcxy': version token, 'form': {...}, 'rows': [...], 'cols': [...]}"""
    v, form, rows, cols = inp['rcxy'], inp['form'], list(inp['rows']), list(inp['cols'])
    dx, x0, dy, y0 = HWGRID[v]
    want = ';'.join(f'ok x={c_ * dx + x0} y={r_ * dy + y0}' for r_, c_ in zip(rows, cols))
    got = rcxy_call('rc2xy', v, form, rows, cols)
    if got != want:
        return f'rc2xy(row={rows}, col={cols}, version={version_value(v, form["version"])!r}) in form {form}: {got[:200]}; the grid gives {want[:200]}'
    want = ';'.join(f'ok row={r_} col={c_}' for r_, c_ in zip(rows, cols))
    xs, ys = [c_ * dx + x0 for c_ in cols], [r_ * dy + y0 for r_ in rows]
    got = rcxy_call('xy2rc', v, form, xs, ys)
    if got != want:
        return f'xy2rc(x={xs}, y={ys}, version={version_value(v, form["version"])!r}) in form {form}: {got[:200]}; the inverse of rc2xy gives {want[:200]}'
    return None


def oracle(inp):
    return oracle_global(inp) if 'canonical' in inp else oracle_rcxy(inp) if 'rcxy' in inp else oracle_table(inp)


def _small_battery():
    """systematic small inputs, smallest first"""
    out = [{'canonical': v, 'nshank': ns} for v, ns in (('1', 1), ('2', 1), ('2.4', 1), ('2.4', 4), ('2', 4), ('NPultra', 1))]
    for tag in ('3B2', 'NP2.1', 'NP2.4', '3A', 'NPultra'):
        nsh = GRIDS[FAMILY[tag]][0]
        ncol = GRIDS[FAMILY[tag]][1]
        single = [(0, 0, 0, 1), (0, 1, 0, 1), (0, 0, 1, 1), (0, 1, 1, 1), (0, 1, 37, 1), (nsh - 1, ncol - 1, 200, 0)]
        for t in single:
            out.append({'version': tag, 'sites': [t]})
        pairs = [[(0, 0, 0, 1), (0, 1, 0, 1)], [(0, 1, 0, 1), (0, 0, 0, 1)], [(0, 0, 1, 1), (0, 0, 0, 1)],
                 [(nsh - 1, 0, 0, 1), (0, 0, 5, 1)], [(0, 0, 3, 1), (0, 1, 3, 0), (0, 0, 2, 1)],
                 [(nsh - 1, 1, 7, 1), (0, 1, 5, 1), (nsh - 1, 0, 7, 0), (0, 0, 5, 1), (nsh - 1, 1, 3, 1)]]
        for p in pairs:
            out.append({'version': tag, 'sites': p})
        out.append({'version': tag, 'sites': [(0, i % ncol, i // ncol, 1) for i in range(26)]})
        out.append({'version': tag, 'sites': [(0, i % ncol, i // ncol, 1) for i in range(min(384, ncol * GRIDS[FAMILY[tag]][2]))]})
    return out


def _form_battery():
    """the small inputs again in every other representation (after the plain ones, so a form-independent failure is reported plainly)"""
    out = []
    for v in ('1', '2', '2.4', 'NPultra'):
        for vf in VERSION_FORMS[v]:
            for call in ('kw', 'pos'):
                out.append({'canonical': v, 'nshank': 1, 'version_form': vf, 'call': call})
            for lay, dt in (('scalar', 'pyint'), ('scalar', 'pyfloat'), ('scalar', 'npint64'), ('1d', 'int16'), ('1d', 'int64'), ('1d', 'float32'),
                            ('1d', 'uint16'), ('2d', 'int32'), ('strided', 'float64'), ('readonly', 'int64'), ('fortran', 'float32')):
                for call in ('pos', 'kw', 'mixed'):
                    m = 1 if lay == 'scalar' else 4
                    out.append({'rcxy': v, 'form': {'layout': lay, 'dtype': dt, 'version': vf, 'call': call},
                                'rows': [0, 1, 7, 300][:m], 'cols': [1, 0, 1, 0][:m]})
    tables = [('3B2', [(0, 0, 0, 1)]), ('3B2', [(0, 0, 4, 1), (0, 0, 2, 1)]), ('3B2', [(0, 1, 1, 1), (0, 1, 3, 1)]),
              ('NP2.4', [(1, 0, 3, 1), (0, 1, 2, 1), (1, 1, 3, 1)]), ('NP2.1', [(0, 1, 0, 1), (0, 0, 0, 1)]), ('3A', [(0, 0, 0, 1), (0, 1, 0, 1)])]
    for md_ in ('dict', 'bunch'):
        for num in NUM_FORMS:
            for shank in SHANK_FORMS:
                for call in ('kw', 'pos'):
                    f = {'md': md_, 'num': num, 'shank': shank, 'call': call}
                    if f != DEFAULT_FORM:
                        for tag, sites in tables:
                            out.append({'version': tag, 'sites': sites, 'form': f})
    return out


def _size(inp):
    return (0, 0) if 'canonical' in inp else (0, len(inp['rows'])) if 'rcxy' in inp else (1, len(inp['sites']))


def _shrink(inp, msg):
    """greedy removal of sites while the oracle keeps failing"""
    if 'canonical' in inp or 'rcxy' in inp:
        return inp, msg
    sites = list(inp['sites'])
    extra = {'form': inp['form']} if inp.get('form') else {}
    improved = True
    while improved and len(sites) > 1:
        improved = False
        for chunk in (len(sites) // 2, len(sites) // 4, 1):
            if chunk < 1:
                continue
            i = 0
            while i < len(sites) and len(sites) > 1:
                trial = sites[:i] + sites[i + chunk:]
                if not trial:
                    i += chunk
                    continue
                try:
                    r = oracle(dict({'version': inp['version'], 'sites': trial}, **extra))
                except Exception as e:
                    r = f'raised {type(e).__name__}: {e}'
                if r:
                    sites, msg, improved = trial, r, True
                else:
                    i += chunk
    return dict({'version': inp['version'], 'sites': [list(t) for t in sites]}, **extra), msg


def search(ctx, reasons):
    cands = _small_battery()
    seen = set()
    for m in ctx.mismatches[:60]:
        c = m['case']
        if c.get('op') in ('geom', 'read_geometry', 'geomsplit') and c['k'] not in seen:
            seen.add(c['k'])
            g = gen_case(ctx.subrng(1, c['k']), c['k'])
            cands.append({'version': g['version'], 'sites': g['sites'], 'form': g['form']})
        elif c.get('op') in ('dense', 'trace', 'tracesplit', 'adc'):
            f = c.get('form') or {}
            cands.append({'canonical': c['version'], 'nshank': c.get('nshank', 1) if c.get('nshank') in (1, 4) else 1,
                          'version_form': f.get('version', 'default'), 'call': 'pos' if f.get('call') == 'pos' else 'kw'})
        elif c.get('op') == 'rc2xy' and c.get('form'):
            cands.append({'rcxy': c['version'], 'form': c['form'], 'rows': [c['row']], 'cols': [c['col']]})
    cands += _form_battery()
    for k in range(ctx.n(150, 600)):
        g = gen_case(ctx.subrng(1, k), k)
        cands.append({'version': g['version'], 'sites': g['sites'], 'form': g['form']})
    best = None
    for inp in cands:
        try:
            r = oracle(inp)
        except Exception as e:
            r = f'oracle raised {type(e).__name__}: {e}'
        if r and (best is None or _size(inp) < _size(best[0])):
            best = (inp, r)
            if _size(inp) <= (1, 2):
                break
    if best is None:
        return None
    inp, r = _shrink(best[0], best[1])
    return {'input': inp, 'observed': r,
            'expected': ('C08: each site listed once; sort = permutation ordered by shank,row,-col moving all attributes; rc<->xy inverse; '
                         'both encodings equal; split = restriction of parent; ADC by channel number, distinct evenly spaced delays; canonical layouts consistent; '
                         'the same on every repeated / interleaved call with the same argument objects'),
            'how': "python (PYTHONPATH=/repo/src:/verif/harness): from props import c08; print(c08.oracle(input))  -- "
                   "builds the metadata with c08.build_meta (container / number types / spelling from input['form']) and calls "
                   "spikeglx.geometry_from_meta / neuropixel.trace_header / rc2xy / xy2rc in that form"}


def replay(ctx, rep):
    r = oracle(rep['input'])
    print('oracle:', r)
    return r is not None


# ---------------------------------------------------------------------------------------------
def _f15_demo():
    """NP1 recording that saved channels 192:383 (+ sync): ADC group must be that of the ORIGINAL channel number."""
    spikeglx, neuropixel = _mods()
    sites = [(0, ch % 2, ch // 2, 1) for ch in range(192, 384)]
    md = build_meta({'version': '3B2', 'sites': sites, 'enc': 'shank', 'shank_key': None})
    md['snsSaveChanSubset'] = '192:383,768'
    g = spikeglx.geometry_from_meta(md, sort=False)
    exp = np.array([expected_adc('NP1', ch)[0] for ch in range(192, 384)])
    return not np.array_equal(np.asarray(g['adc'], dtype=float), exp)


def _narrow_int_demo():
    """rc2xy on an 8-bit row array: row 200 is a valid row and fits uint8, y = 4020 does not and wraps to 180."""
    _, neuropixel = _mods()
    out = neuropixel.rc2xy(np.array([200], dtype=np.uint8), np.array([1], dtype=np.uint8), version=1)
    return int(out['y'][0]) != 200 * 20 + 20


def known_findings(ctx):
    return {'adc_by_position_nonprefix_subset': _f15_demo, 'rc2xy_narrow_int_overflow': _narrow_int_demo}
