"""C18 — Spectral helpers equal their textbook definitions for every length (ibldsp.fourier, utils.fcn_cosine)."""
import itertools
import struct

import numpy as np

ID = 'C18'
DRIVER = 'C18'
LEAN_TARGETS = ['IblVerif.Properties.C18']
THEOREMS = [
    'IblVerif.C18.nsOptim_least',
    'IblVerif.C18.nsOptim_defined',
    'IblVerif.C18.nsOptim_table_gap_counterexample',
    'IblVerif.C18.conv_full',
    'IblVerif.C18.conv_full_trailing_zero',
    'IblVerif.C18.conv_same_centred',
    'IblVerif.C18.conv_crop_indices',
    'IblVerif.C18.reduce_expand_id',
    'IblVerif.C18.expand_reduce_id',
    'IblVerif.C18.real_spectrum_conj_symmetric',
    'IblVerif.C18.fscale_bins',
    'IblVerif.C18.fscale_alias',
    'IblVerif.C18.cosine_monotone_0_1',
    'IblVerif.C18.lp_plus_hp_id',
    'IblVerif.C18.bp_eq_hp_lp',
    'IblVerif.C18.dft_eq_fft',
    'IblVerif.C18.fft_eq_zmod_dft',
    'IblVerif.C18.dft2_grid_separable',
]
RULE = ('input forms drawn independently of the values for every helper call: arrays as-is / Fortran order / strided view along any axis / read-only / '
        'negative stride; call spelled naturally / all keywords with gpu=False / all positional in the pinned signature order; ns, nk, nl, axis as Python int / '
        'np.int64 / narrow numpy int / unsigned; si as float / np.float64 / float32 when exact / int when integral; corners as list / tuple / ndarray; '
        'convolve: dtypes of signal and kernel drawn independently (25 pairs, narrow-int extremes -32768 / 32767 ...); '
        'contents: float64, float32, int16, int32, int64 (and complex128/complex64 where the function takes spectra) for every helper; '
        '(a) ns_optim_fft: every n in an initial segment, every table entry 2^a3^b (a<25, b<15) -1/+0/+1, powers of 2 and 3 '
        'around the table limits, seeded log-uniform n up to past the last entry (IndexError); '
        '(b) convolve: all pairs (nsx, nsw) of a box (thorough: 1..300 x 1..300, exhaustive; quick: every pair of that box whose '
        'padded size is a power of three plus seeded pairs), both modes, operator observed on the full impulse basis (x = identity '
        'rows, integer ramp kernel) -> crop offset/length exact, values vs the direct convolution 1e-9; seeded pairs with arbitrary '
        'float contents on 1-3-D arrays (matrix x vector and matrix x matrix broadcast) vs the Float twin of the model and '
        'integer contents vs the exact integer answer of the theorem; (c) freduce/fexpand: every length/ns of a box on every axis of '
        '1-3-D arrays with index-coded entries (exact, incl. IndexError); (d) fscale: every ns of a box x sampling intervals x '
        'one_sided, relative 1e-14; (e) fcn_cosine / lp / hp / bp: seeded bounds, values on and around the bounds, every axis; '
        '(f) dft (real/complex, every axis) and dft2 (regular and jittered grids) vs the Float twin; '
        '(g) call sequences: every helper is called twice on the same argument objects and the second result is the one compared; '
        'voltage.fk / agc / kfilt (the library\'s own users, which rescale what fscale returns in place) are run on small arrays and fscale is '
        're-compared afterwards. '
        'A case is non-trivial when lengths are >= 2 (so that parity, cropping or mirroring matter); distinct by op + sizes + axis')
ASSUMPTIONS = [
    "'same' is read as SciPy's convention (size of the first argument, centred on the full output, offset (nsw-1)//2); "
    "it coincides with np.convolve(..., 'same') whenever nsx >= nsw",
    "'full' returns nsx+nsw samples: the nsx+nsw-1 samples of the direct convolution and one trailing zero (the unit test of the "
    'repository accepts this); the oracle accepts the trailing zero, the model reproduces it',
    'ns_optim_fft: minimality is proved and demanded for n <= 14155776 = 2^19 3^3 (the largest table entry below 3^15); above, the '
    'table (a < 25, b < 15) misses 3^15 = 14348907 and later 2^25...: reported as known finding nsoptim-table-gap',
    'float comparisons: 1e-9 x scale for FFT paths (scale = sum |x| max |w| resp. n max |ts|), 1e-12 for the cosine taper, relative 1e-14 for fscale '
    '(so that algebraically equivalent rewrites such as k / (ns * si) do not alarm); index-level observables (lengths, crop offsets, bin order, '
    'conjugation pattern, table values) are compared exactly',
    'input dtypes: results for float32 / complex64 input are compared with 1e-5 x scale against the float64 model and the float64 call '
    '(NumPy >= 2 transforms single-precision data in single precision); integer input must agree with the float64 copy to 1e-9 x scale',
    'statefulness: only the consequence is demanded (a helper called again, or after voltage.fk/agc/kfilt/lp/hp/bp/convolve ran, still returns the '
    'model value of the original arguments); whether arguments are left untouched or results alias internal buffers is recorded as information only',
    'forms not exercised because the API rejects them with a clear exception on the unchanged tree: float-valued ns / nk / axis (TypeError from slice / shape), '
    'fscale(ns) with an UNSIGNED numpy integer two-sided (OverflowError from `-2 + ns % 2` under NumPy 2 promotion rules; one_sided=True works); '
    'result dtypes are not demanded (values only)',
    'lengths >= 1 (empty axes raise in NumPy; modelled as errors and compared, but outside the property)',
    'cosine bounds b0 < b1 and sampling interval si > 0',
]
TRUSTED = [
    'np.fft.rfft/irfft/fft/ifft (pocketfft) compute the textbook DFT sums (the NumpyFFT parameter of the model; compared each run with the O(n^2) Float sums to 1e-9)',
    'N-d arrays: the code acts fibre by fibre along the axis (np.take / np.concatenate / broadcasting); checked on every axis of 1-3-D arrays, the theorems are about one fibre',
    'table constants 25 and 15 of ns_optim_fft are transcribed in Model/SpecIdx.lean (POW2, POW3) and asserted against the real code through the table boundary cases',
]
LEVEL_TEXT = ('Lean 4 theorems for every length: ns_optim_fft is the least 2^a3^b >= n (proved from the table construction, n <= 14155776); '
              'rfft-product-irfft-crop pipeline of convolve = direct convolution in full and same mode for padded sizes of both parities; '
              'fexpand/freduce mutual inverses on conjugate-symmetric spectra (even and odd n) and spectra of real signals are conjugate-symmetric; '
              'fscale = DFT bin frequencies; lp + hp = id, bp = hp after lp, cosine taper monotone from 0 to 1; explicit dft/dft2 sums = Mathlib ZMod.dft; '
              'model tied to ibldsp.fourier by an exact index-level differential run and a 1e-9 Float twin')
LEVEL_NOTE = ('trusted: Lean kernel + Mathlib (ZMod.dft inversion), NumPy FFT = textbook DFT sums (numerically compared), the Python correspondence harness; '
              'floating-point rounding of the FFT paths is outside the theorems (exact real/complex arithmetic), covered by the 1e-9 comparison only')
TECHNIQUE = ('Lean 4 proofs: sorted-table search by list induction; DFT convolution theorem and Hermitian half-spectrum bookkeeping over Mathlib ZMod.dft; '
             'generic model instantiated at Float (executed) and at R/C (proved); exact + 1e-9 correspondence run')

TOL = 1e-9
BOX = 300
GAP_LO = 14155776          # largest table entry below 3^15


# ---------------------------------------------------------------------------------------------
def bits(a):
    a = np.asarray(a, dtype=np.float64).ravel()
    return ','.join(map(str, a.view(np.uint64).tolist())) or '-'


def cbits(a):
    a = np.asarray(a, dtype=np.complex128).ravel()
    return bits(a.view(np.float64))


def unbits(tok):
    if tok == '-':
        return np.zeros(0)
    return np.array([int(t) for t in tok.split(',')], dtype=np.uint64).view(np.float64)


def uncbits(tok):
    return unbits(tok).view(np.complex128)


def errname(e):
    return 'err ' + type(e).__name__


def fibres(a, axis):
    """Iterate over the 1-D fibres of `a` along `axis` (as copies), in C order of the other indices."""
    b = np.moveaxis(a, axis, -1)
    return np.array(b.reshape(int(np.prod(b.shape[:-1])), b.shape[-1]), copy=True)


REAL_DTYPES = ('float64', 'float32', 'int16', 'int32', 'int64')


def tol_for(dtype):
    """Relative tolerance per input dtype: NumPy >= 2 transforms single-precision data in single precision."""
    return 1e-5 if np.dtype(dtype) in (np.dtype('float32'), np.dtype('complex64')) else TOL


def rand_real(rng, shape, dtype, amp=None):
    """Arbitrary contents of the given real dtype (integers in about +-2000, like raw int16 voltage counts)."""
    dt = np.dtype(dtype)
    if dt.kind == 'i':
        return rng.integers(-2000, 2001, size=shape).astype(dt)
    amp = float(np.exp(rng.uniform(-3, 7))) if amp is None else amp
    return (rng.standard_normal(shape) * amp).astype(dt)

# ---------------------------------------------------------------------------------------------
# Call sequences: the model is a function of the ORIGINAL argument values, so what a user observes when calling a helper again
# on the same argument objects (or after the library's own functions ran) must still be the model's answer.
# Only this consequence is compared; whether arguments were touched or results alias internal buffers is recorded as a tag.
# ---------------------------------------------------------------------------------------------
_INFO = {'calls': 0, 'args_modified': 0, 'second_result_differs': 0}


def _snap(a):
    if isinstance(a, np.ndarray):
        return ('nd', a.dtype.str, a.shape, a.tobytes())
    if isinstance(a, (list, tuple)):
        return ('seq', tuple(_snap(v) for v in a))
    if isinstance(a, dict):
        return ('dict', tuple((k, _snap(v)) for k, v in sorted(a.items())))
    return ('obj', repr(a))


# ---- input forms: every legitimate representation of the same value / the same call must give the same answer ------------
LAYOUTS = ('as-is', 'fortran-order', 'strided-view', 'read-only', 'negative-stride-view')
SPELLINGS = ('natural', 'all-keywords(+gpu=False)', 'all-positional')
SCALARS = ('python', 'numpy-64bit', 'numpy-narrow', 'numpy-unsigned')
NFORMS = len(LAYOUTS) * len(SPELLINGS) * len(SCALARS)
FORM_SAMPLE = (1, 2, 3, 4, 5, 10, 15, 30, 45, 22, 38, 59)        # each layout / spelling / scalar kind at least once
# positional order as callers wrote it against the signatures of the pinned tree (a reordered signature rebinds them)
SIGS = {
    'convolve': (('x', 'w', 'mode', 'gpu'), {'mode': 'full', 'gpu': False}),
    'ns_optim_fft': (('ns',), {}),
    'fscale': (('ns', 'si', 'one_sided'), {'si': 1, 'one_sided': False}),
    'freduce': (('x', 'axis'), {'axis': None}),
    'fexpand': (('x', 'ns', 'axis'), {'ns': 1, 'axis': None}),
    'lp': (('ts', 'si', 'b', 'axis'), {'axis': None}),
    'hp': (('ts', 'si', 'b', 'axis'), {'axis': None}),
    'bp': (('ts', 'si', 'b', 'axis'), {'axis': None}),
    '_freq_vector': (('f', 'b', 'typ'), {'typ': 'lp'}),
    'dft': (('x', 'xscale', 'axis', 'kscale'), {'xscale': None, 'axis': -1, 'kscale': None}),
    'dft2': (('x', 'r', 'c', 'nk', 'nl'), {}),
}
INT_KEYS = ('ns', 'nk', 'nl', 'axis')
_FORM = [0]


def form_text(k):
    k %= NFORMS
    return f'arrays {LAYOUTS[k % 5]}, call {SPELLINGS[(k // 5) % 3]}, scalar parameters {SCALARS[(k // 15) % 4]}'


def lay_array(a, how, k):
    if not isinstance(a, np.ndarray) or a.ndim == 0 or a.size == 0 or how == 'as-is':
        return a
    ax = k % a.ndim
    if how == 'fortran-order':
        return np.asfortranarray(a)
    if how == 'strided-view':         # every other element of a buffer whose gaps hold garbage
        sh = list(a.shape)
        sh[ax] *= 2
        big = np.full(sh, np.nan if a.dtype.kind in 'fc' else 123, dtype=a.dtype)
        sl = tuple(slice(0, None, 2) if i == ax else slice(None) for i in range(a.ndim))
        big[sl] = a
        return big[sl]
    if how == 'read-only':
        b = a.copy()
        b.setflags(write=False)
        return b
    return np.flip(np.flip(a, axis=ax).copy(), axis=ax)      # negative stride


def form_value(fname, key, v, lay, sc, k):
    if isinstance(v, np.ndarray):
        return lay_array(v, lay, k)
    if key in INT_KEYS and isinstance(v, (int, np.integer)) and not isinstance(v, bool):
        v = int(v)
        if sc == 'numpy-64bit':
            return np.int64(v)
        if sc == 'numpy-narrow':
            return np.int16(v) if -32768 <= v <= 32767 else np.int32(v) if -2 ** 31 <= v < 2 ** 31 else np.int64(v)
        if sc == 'numpy-unsigned' and v >= 0 and not (fname == 'fscale' and key == 'ns'):
            return np.uint8(v) if v < 256 else np.uint64(v)      # fscale(ns=<unsigned>) raises OverflowError (see ASSUMPTIONS)
        return v
    if key == 'si' and isinstance(v, (int, float, np.floating)):
        v = float(v)
        if sc == 'numpy-64bit':
            return np.float64(v)
        if sc == 'numpy-narrow':
            return np.float32(v) if float(np.float32(v)) == v else v
        if sc == 'numpy-unsigned':
            return int(v) if v == int(v) else v
        return v
    if key in ('b', 'bounds') and isinstance(v, (list, tuple)):
        if sc == 'numpy-64bit':
            return np.array(v, dtype=float)
        if sc == 'numpy-narrow':
            return tuple(v)
        if sc == 'numpy-unsigned':
            return [int(t) if float(t) == int(t) else t for t in v]
        return list(v)
    return v


def fcn_cosine_on(bounds, x):
    """`utils.fcn_cosine(bounds)(x)` (named so that forms can be applied to it)."""
    from ibldsp import utils
    return utils.fcn_cosine(bounds)(x)


def formed(fn, k, args, kwargs):
    """Call `fn` with the same mathematical arguments in representation / spelling number k."""
    k %= NFORMS
    lay, spell, sc = LAYOUTS[k % 5], SPELLINGS[(k // 5) % 3], SCALARS[(k // 15) % 4]
    name = getattr(fn, '__name__', '')
    if name == 'fcn_cosine_on':
        from ibldsp import utils
        b = form_value(name, 'bounds', args[0], lay, sc, k)
        x = lay_array(args[1], lay, k)
        f = (utils.fcn_cosine(b) if spell == SPELLINGS[0] else utils.fcn_cosine(bounds=b, gpu=False) if spell == SPELLINGS[1]
             else utils.fcn_cosine(b, False))
        return f(x)
    if name not in SIGS:
        return fn(*[lay_array(a, lay, k) for a in args], **{q: lay_array(v, lay, k) for q, v in kwargs.items()})
    names, defaults = SIGS[name]
    bound = dict(zip(names, args))
    bound.update(kwargs)
    bound = {q: form_value(name, q, v, lay, sc, k) for q, v in bound.items()}
    if spell == SPELLINGS[1]:
        if 'gpu' in names:
            bound.setdefault('gpu', False)
        return fn(**bound)
    if spell == SPELLINGS[2]:
        return fn(*[bound[q] if q in bound else defaults[q] for q in names])
    return fn(*[bound[q] for q in names[:len(args)]], **{q: bound[q] for q in kwargs})


def C(fn, *args, **kwargs):
    """Oracle-side call in the input form selected by the replay / search (`_FORM`)."""
    return formed(fn, _FORM[0], args, kwargs)


def pure(desc, text, fn, *args, **kwargs):
    """Correspondence-side call: a representation / spelling drawn independently of the values, called twice on the same argument
    objects; the SECOND result is handed to the comparison with the model of the original values.  Counters are informational."""
    _INFO['calls'] += 1
    k = (_INFO['calls'] * 7 + 3) % NFORMS
    if isinstance(desc, dict):
        desc['form'] = form_text(k)
    for t in form_text(k).split(', '):
        _FORMS[t] = _FORMS.get(t, 0) + 1
    before = _snap((args, kwargs))
    r1 = formed(fn, k, args, kwargs)
    if _snap((args, kwargs)) != before:
        _INFO['args_modified'] += 1
    r2 = formed(fn, k, args, kwargs)
    if _snap(r1) != _snap(r2):
        _INFO['second_result_differs'] += 1
    return r2


_FORMS = {}


def alias_probe():
    """Informational: which helpers return an array that aliases internal state (first result modified in place changes the next
    identical call).  Uses argument values nothing else in the run uses, so a cache entry poisoned here is never read again."""
    from ibldsp import fourier, utils
    out = []
    probes = [('fscale', lambda: fourier.fscale(997, 0.12345)), ('fscale one_sided', lambda: fourier.fscale(997, 0.12345, one_sided=True)),
              ('fcn_cosine', lambda: utils.fcn_cosine([0.123, 0.456])(np.linspace(0, 1, 7)))]
    for name, f in probes:
        try:
            a = f()
            keep = np.array(a, copy=True)
            if isinstance(a, np.ndarray) and a.flags.writeable and a.size:
                a[...] = np.nan
            if not np.array_equal(f(), keep, equal_nan=True):
                out.append(name)
        except Exception as e:
            out.append(f'{name}: {type(e).__name__}')
    return out


def shapes_for(rng, n, ndim, axis):
    sh = [int(rng.integers(1, 4)) for _ in range(ndim)]
    sh[axis] = n
    return tuple(sh)


# ---------------------------------------------------------------------------------------------
# (a) ns_optim_fft
# ---------------------------------------------------------------------------------------------
def _impl_nsoptim(n):
    from ibldsp import fourier
    try:
        if n % 16 == 3:
            return f"ok {int(pure({'op': 'nsoptim', 'n': n}, f'fourier.ns_optim_fft({n})', fourier.ns_optim_fft, n))}"
        return f'ok {int(fourier.ns_optim_fft(n))}'
    except Exception as e:
        return errname(e)


def _nsoptim_inputs(ctx):
    rng = ctx.rng
    out = list(range(0, ctx.n(3000, 70000)))
    for a in range(0, 27):
        for b in range(0, 17):
            v = 2 ** a * 3 ** b
            out += [v - 1, v, v + 1]
    for _ in range(ctx.n(1500, 15000)):
        out.append(int(np.exp(rng.uniform(0, np.log(1.2e14)))))
    out += [GAP_LO, GAP_LO + 1, 3 ** 15 - 1, 3 ** 15, 3 ** 15 + 1, 2 ** 25, 2 ** 24 * 3 ** 14, 2 ** 24 * 3 ** 14 + 1]
    return [n for n in out if 0 <= n < 2 ** 62]


def _is_pow(n, p):
    while n > 1 and n % p == 0:
        n //= p
    return n == 1


def corr_nsoptim(ctx):
    ns = _nsoptim_inputs(ctx)
    model = ctx.lean([f'nsoptim {n}' for n in ns])
    for n, m in zip(ns, model):
        r = _impl_nsoptim(n)
        tag = 'n<=300' if n <= 300 else 'n<=70000' if n <= 70000 else 'n<=3^15' if n <= 3 ** 15 else 'n>3^15'
        res = int(r.split()[1]) if r.startswith('ok') else 0
        ctx.compare('nsoptim', {'op': 'nsoptim', 'n': n}, r, m, nontrivial=n >= 2,
                    tags=('nsoptim', 'nsoptim:' + tag,
                          'nsoptim:' + ('IndexError' if not res else 'pow3' if _is_pow(res, 3) else 'pow2' if _is_pow(res, 2) else 'mixed')))


# ---------------------------------------------------------------------------------------------
# (b) convolve
# ---------------------------------------------------------------------------------------------
def direct_full(x, w):
    """Textbook linear convolution of two 1-D sequences (np.convolve is the direct O(n m) sum)."""
    return np.convolve(np.asarray(x, dtype=float), np.asarray(w, dtype=float), mode='full')


def _observe_operator(nsx, nsw, mode):
    """Apply the real code to the full impulse basis; return the canonical description of the operator."""
    from ibldsp import fourier
    w = np.arange(1, nsw + 1, dtype=float)
    try:
        if (nsx * 7 + nsw) % 8 == 0 and nsx * nsw <= 20000:
            out = pure({'op': 'convolve', 'nsx': nsx, 'nsw': nsw, 'mode': mode}, f"fourier.convolve(np.eye({nsx}), np.arange(1, {nsw + 1}.), mode='{mode}')",
                       fourier.convolve, np.eye(nsx), w, mode=mode)
        else:
            out = fourier.convolve(np.eye(nsx), w, mode=mode)
    except Exception as e:
        return errname(e)
    if out is None:
        return 'none'
    L = out.shape[-1]
    if out.shape != (nsx, L):
        return f'shape {out.shape}'
    if L == 0:
        return 'ok first=0 len=0 contiguous=true'
    first = int(np.rint(out[0, 0])) - 1
    # Toeplitz matrix of the direct convolution, shifted by the observed offset
    a = np.arange(nsx)[:, None]
    i = np.arange(L)[None, :]
    k = i + first - a
    E = np.where((k >= 0) & (k < nsw), w[np.clip(k, 0, nsw - 1)], 0.0)
    err = float(np.max(np.abs(out - E)))
    if not (0 <= first < nsw) or err > TOL * nsw:
        return f'values-disagree first={first} len={L} maxerr={err:.3g}'
    return f'ok first={first} len={L} contiguous=true'


def _pow3_pairs(box):
    from ibldsp import fourier
    tot = {s: int(fourier.ns_optim_fft(s)) for s in range(2, 2 * box + 1)}
    return [(a, s - a) for s, r in tot.items() if _is_pow(r, 3) for a in range(max(1, s - box), min(box, s - 1) + 1)]


def _conv_pairs(ctx):
    rng = ctx.rng
    if ctx.quick:
        pairs = _pow3_pairs(BOX)
        pairs += [(a, b) for a in range(1, 13) for b in range(1, 13)]
        pairs += [(int(rng.integers(1, BOX + 1)), int(rng.integers(1, BOX + 1))) for _ in range(400)]
        # larger sampled lengths
        pairs += [(int(np.exp(rng.uniform(np.log(300), np.log(3000)))), int(rng.integers(1, 200))) for _ in range(25)]
    else:
        pairs = [(a, b) for a in range(1, BOX + 1) for b in range(1, BOX + 1)]
        pairs += [(int(np.exp(rng.uniform(np.log(300), np.log(6000)))), int(rng.integers(1, 400))) for _ in range(150)]
    return list(dict.fromkeys(pairs))


def corr_conv_operator(ctx):
    from ibldsp import fourier
    pairs = _conv_pairs(ctx)
    lines, meta = [], []
    for (a, b) in pairs:
        for mode in ('full', 'same'):
            lines.append(f'convidx {mode} {a} {b}')
            meta.append((a, b, mode))
    for (a, b) in pairs[:40]:
        lines.append(f'convidx valid {a} {b}')
        meta.append((a, b, 'valid'))
    model = ctx.lean(lines)
    pad = {}
    for (a, b, mode), m in zip(meta, model):
        if a + b not in pad:
            pad[a + b] = int(fourier.ns_optim_fft(a + b))
        p = pad[a + b]
        r = _observe_operator(a, b, mode)
        ctx.compare('convolve-operator', {'op': 'convolve', 'nsx': a, 'nsw': b, 'mode': mode}, r, m,
                    nontrivial=(a >= 2 and b >= 2),
                    tags=('conv:' + mode, 'conv:pad_odd' if p % 2 else 'conv:pad_even', 'conv:nsw_odd' if b % 2 else 'conv:nsw_even',
                          'conv:nsw>nsx' if b > a else 'conv:nsw<=nsx', 'conv:pad_pow3' if _is_pow(p, 3) else 'conv:pad_other'))
    if not ctx.quick:
        ctx.note(f'convolve operator: exhaustive box nsx, nsw in 1..{BOX}, both modes, full impulse basis')


CONV_DTYPES = ('float64', 'float32', 'int16', 'int32', 'int64')


def _rand_content(rng, shape, dtype, small=False):
    """Contents of one convolve argument: floats of arbitrary scale, integers incl. the extreme values of narrow types."""
    dt = np.dtype(dtype)
    if dt.kind == 'f':
        return (rng.standard_normal(shape) * np.exp(rng.uniform(-3, 3))).astype(dt)
    hi = 9 if small else min(int(np.iinfo(dt).max), 2 ** 31 - 1)
    a = rng.integers(-hi - (0 if small else 1), hi + 1, size=shape, dtype=np.int64)
    if not small and rng.random() < 0.5:
        a = rng.integers(-2000, 2001, size=shape, dtype=np.int64)
    if not small and a.size:
        a.flat[int(rng.integers(0, a.size))] = -hi - 1      # e.g. -32768
        a.flat[int(rng.integers(0, a.size))] = hi           # e.g. 32767
    return a.astype(dt)


def corr_conv_values(ctx):
    """Arbitrary contents on 1-3-D arrays against the Float twin, integer contents against the exact theorem answer."""
    from ibldsp import fourier
    rng = ctx.rng
    p3 = _pow3_pairs(60)
    jobs = []
    for t in range(ctx.n(90, 500)):
        if t % 3 == 0:
            a, b = p3[int(rng.integers(0, len(p3)))]
        else:
            a, b = int(rng.integers(1, 49)), int(rng.integers(1, 33))
        if t % 41 == 40:
            a, b = int(rng.integers(150, 301)), int(rng.integers(100, 301))
        ndim = int(rng.integers(1, 4))
        lead = tuple(int(rng.integers(1, 4)) for _ in range(ndim - 1))
        dx_, dw_ = CONV_DTYPES[t % 5], CONV_DTYPES[(t // 5) % 5]          # the two dtypes are drawn independently: all 25 pairs
        x = _rand_content(rng, lead + (a,), dx_, small=(t % 4 == 0))
        wshape = (b,) if (ndim == 1 or rng.random() < 0.6) else lead + (b,)
        w = _rand_content(rng, wshape, dw_, small=(t % 4 == 0))
        mode = ('full', 'same')[(t // 3) % 2]
        kind = 'int' if (x.dtype.kind == 'i' and w.dtype.kind == 'i') else ('float32' if 'float32' in (dx_, dw_) else 'float')
        jobs.append((x, w, mode, kind))
    lines, meta = [], []
    for x, w, mode, kind in jobs:
        X = x.reshape(-1, x.shape[-1]).copy()
        W = np.broadcast_to(w, x.shape[:-1] + (w.shape[-1],)).reshape(-1, w.shape[-1]).copy()
        try:
            out = pure({'op': 'convolve-values', 'x_shape': list(x.shape), 'w_shape': list(w.shape), 'mode': mode, 'contents': kind, 'row': 0},
                       f"fourier.convolve(x{list(x.shape)}:{x.dtype}, w{list(w.shape)}:{w.dtype}, mode='{mode}')", fourier.convolve, x, w, mode=mode)
            O = out.reshape(-1, out.shape[-1])
            err = None
        except Exception as e:
            O, err = None, errname(e)
        for i in range(X.shape[0]):
            if kind in ('float', 'float32'):
                lines.append(f'conv {mode} {bits(X[i].astype(np.float64))} {bits(W[i].astype(np.float64))}')
            else:
                lines.append('convspec ' + mode + ' ' + ','.join(str(int(v)) for v in X[i]) + ' ' + ','.join(str(int(v)) for v in W[i]))
            meta.append((x.shape, w.shape, mode, kind, i, X[i].astype(float), W[i].astype(float), None if O is None else O[i], err,
                         f'{x.dtype}x{w.dtype}'))
    model = ctx.lean(lines)
    from ibldsp.fourier import ns_optim_fft
    for (xs, ws, mode, kind, i, xi, wi, oi, err, dts), m in zip(meta, model):
        desc = {'op': 'convolve-values', 'x_shape': list(xs), 'w_shape': list(ws), 'mode': mode, 'contents': kind, 'row': i, 'dtypes': dts}
        p = int(ns_optim_fft(xs[-1] + ws[-1]))
        tags = ('convval:' + kind, 'convval:dtypes ' + dts, f'convval:{len(xs)}d', 'convval:w_matrix' if len(ws) > 1 else 'convval:w_vector',
                'convval:pad_odd' if p % 2 else 'convval:pad_even')
        if err is not None:
            ctx.compare('convolve-values', desc, err, m, tags=tags)
            continue
        if not m.startswith('ok'):
            ctx.compare('convolve-values', desc, 'ok', m, tags=tags)
            continue
        tok = m.split()[1] if len(m.split()) > 1 else '-'
        mv = unbits(tok) if kind in ('float', 'float32') else (np.array([int(t) for t in tok.split(',')], dtype=float) if tok != '-' else np.zeros(0))
        scale = max(float(np.sum(np.abs(xi))) * float(np.max(np.abs(wi))), 1e-300)
        good = mv.shape == oi.shape and bool(np.all(np.abs(mv - oi) <= tol_for('float32' if kind == 'float32' else 'float64') * scale))
        ctx.compare('convolve-values', desc, 'ok' if good else f'out[:6]={np.asarray(oi)[:6].tolist()} len={len(oi)}',
                    'ok' if good else f'out[:6]={mv[:6].tolist()} len={len(mv)}', nontrivial=len(xi) >= 2 and len(wi) >= 2, tags=tags)


# ---------------------------------------------------------------------------------------------
# (c) freduce / fexpand
# ---------------------------------------------------------------------------------------------
CODED_DTYPES = ('complex128', 'complex64', 'float64', 'float32', 'int16', 'int32', 'int64')


def _coded(shape, axis, dtype='complex128'):
    """Array whose entry is (index along axis) + 1000·(fibre number) (+ 1j for complex dtypes, so that conjugation shows)."""
    other = [s for i, s in enumerate(shape) if i != axis]
    fib = np.arange(int(np.prod(other)) if other else 1).reshape(other if other else ())
    a = np.expand_dims(fib, axis) * 1000.0 + np.arange(shape[axis]).reshape([-1 if i == axis else 1 for i in range(len(shape))])
    return (a + 1j).astype(dtype) if np.dtype(dtype).kind == 'c' else a.astype(dtype)


def _strip_conj(sym):
    return sym.replace('*', '')


def _decode_coded(out, axis, dtype='complex128'):
    """Back to the symbolic form `i` / `i*`; all fibres must agree and keep their fibre number and dtype."""
    cplx = np.dtype(dtype).kind == 'c'
    out = np.asarray(out, dtype=np.complex128 if cplx else np.float64)
    F = fibres(out, axis)
    syms = []
    for j, f in enumerate(F):
        idx = np.real(f) - 1000.0 * j
        if (cplx and not np.all(np.abs(np.imag(f)) == 1)) or not np.all(idx == np.rint(idx)) or np.any(idx < 0) or np.any(idx >= 1000):
            return 'undecodable'
        syms.append(','.join(f'{int(k)}' + ('*' if cplx and im < 0 else '') for k, im in zip(idx, np.imag(f))) or '-')
    if len(set(syms)) != 1:
        return 'fibres-differ'
    return 'ok ' + syms[0]


def corr_reduce_expand(ctx):
    from ibldsp import fourier
    rng = ctx.rng
    N = ctx.n(48, 130)
    lines, impl, meta = [], [], []
    for n in range(0, N + 1):
        for ndim in (1, 2, 3):
            for axis in range(ndim):
                if n > 24 and (n + ndim + axis) % 3 and ctx.quick:
                    continue
                sh = shapes_for(rng, n, ndim, axis)
                dt = CODED_DTYPES[(n + 2 * ndim + axis) % len(CODED_DTYPES)]
                x = _coded(sh, axis, dt)
                try:
                    d_ = {'op': 'freduce', 'n': n, 'ndim': ndim, 'axis': axis, 'dtype': dt}
                    t_ = f'fourier.freduce(x{list(sh)}:{dt}, axis={axis})'
                    r = _decode_coded(pure(d_, t_, fourier.freduce, x, axis=(axis - ndim if n % 4 == 1 else axis)) if (axis != ndim - 1 or n % 2)
                                      else pure(d_, t_, fourier.freduce, x), axis, dt)
                except Exception as e:
                    r = errname(e)
                lines.append(f'freduce {n}'); impl.append(r)
                meta.append(('freduce', {'op': 'freduce', 'n': n, 'ndim': ndim, 'axis': axis, 'dtype': dt}, n >= 2,
                             ('freduce', f'freduce:{ndim}d', 'freduce:odd' if n % 2 else 'freduce:even', 'freduce:' + dt), dt))
    for ns in range(0, N + 1):
        ms = sorted(set([ns // 2 + 1, ns // 2, ns // 2 + 2, (ns + 1) // 2, 0, 1, int(rng.integers(0, N // 2 + 3))]))
        for m in ms:
            ndim = int(rng.integers(1, 4))
            axis = int(rng.integers(0, ndim))
            sh = shapes_for(rng, m, ndim, axis)
            if m == 0:
                sh = tuple(0 if i == axis else s for i, s in enumerate(sh))
            dt = CODED_DTYPES[(ns + m) % len(CODED_DTYPES)] if m != ns // 2 + 1 else CODED_DTYPES[ns % 2]
            x = _coded(sh, axis, dt)
            try:
                d_ = {'op': 'fexpand', 'ns': ns, 'm': m, 'ndim': ndim, 'axis': axis, 'dtype': dt}
                t_ = f'fourier.fexpand(x{list(sh)}:{dt}, {ns}, axis={axis})'
                r = _decode_coded(pure(d_, t_, fourier.fexpand, x, ns, axis=(axis - ndim if ns % 4 == 1 else axis)) if (axis != ndim - 1 or m % 2)
                                  else pure(d_, t_, fourier.fexpand, x, ns), axis, dt)
            except Exception as e:
                r = errname(e)
            lines.append(f'fexpand {ns} {m}'); impl.append(r)
            meta.append(('fexpand', {'op': 'fexpand', 'ns': ns, 'm': m, 'ndim': ndim, 'axis': axis, 'dtype': dt}, ns >= 3,
                         ('fexpand', f'fexpand:{ndim}d', 'fexpand:ns_odd' if ns % 2 else 'fexpand:ns_even',
                          'fexpand:m=ns//2+1' if m == ns // 2 + 1 else 'fexpand:m_other', 'fexpand:' + dt), dt))
    model = ctx.lean(lines)
    for (op, desc, nt, tags, dt), a, b in zip(meta, impl, model):
        # for real dtypes conjugation is the identity, so the conjugation marks of the model are not observable
        ctx.compare(op, desc, a, b if np.dtype(dt).kind == 'c' else _strip_conj(b), nontrivial=nt, tags=tags)


# ---------------------------------------------------------------------------------------------
# (d) fscale
# ---------------------------------------------------------------------------------------------
def corr_fscale(ctx):
    from ibldsp import fourier
    rng = ctx.rng
    N = ctx.n(130, 400)
    sis = [1.0, 0.001, 1 / 30000, 1 / 2500, 0.5]
    lines, impl, meta = [], [], []
    cases = [(n, sis[(n + j) % len(sis)], one) for n in range(1, N + 1) for j, one in enumerate((False, True))]
    cases += [(int(np.exp(rng.uniform(np.log(N), np.log(70000)))), float(np.exp(rng.uniform(-12, 2))), bool(rng.integers(0, 2)))
              for _ in range(ctx.n(40, 300))]
    cases += [(n, 1, False) for n in (1, 2, 3, 4, 5)]      # integer si as in the defaults
    for n, si, one in cases:
        d_ = {'op': 'fscale', 'ns': n, 'si': si, 'one_sided': one}
        r = (pure(d_, f'fourier.fscale({n}, {si!r}, one_sided=True)', fourier.fscale, n, si, one_sided=True) if one
             else pure(d_, f'fourier.fscale({n}, {si!r})', fourier.fscale, n, si))
        lines.append(f'fscale {n} {bits([si])} {int(one)}'); impl.append(np.asarray(r, dtype=float))
        meta.append(({'op': 'fscale', 'ns': n, 'si': si, 'one_sided': one}, n >= 3,
                     ('fscale', 'fscale:odd' if n % 2 else 'fscale:even', 'fscale:one_sided' if one else 'fscale:two_sided')))
    model = ctx.lean(lines)
    for (desc, nt, tags), a, b in zip(meta, impl, model):
        mv = unbits(b.split()[1]) if b.startswith('ok') and len(b.split()) > 1 else np.zeros(0)
        good = mv.shape == a.shape and bool(np.all(np.abs(mv - a) <= 1e-14 * np.abs(mv)))
        ctx.compare('fscale', desc, 'ok' if good else f'{a[:6].tolist()} len={len(a)}', 'ok' if good else f'{mv[:6].tolist()} len={len(mv)}',
                    nontrivial=nt, tags=tags)


# ---------------------------------------------------------------------------------------------
# (e) cosine taper and frequency-domain filters
# ---------------------------------------------------------------------------------------------
def _bounds(rng, fs=1.0):
    b0 = float(rng.uniform(0, 0.4) * fs)
    b1 = b0 + float(rng.uniform(0.01, 0.3) * fs)
    return b0, b1


def corr_cosine(ctx):
    from ibldsp import utils, fourier
    rng = ctx.rng
    lines, impl, meta = [], [], []
    for t in range(ctx.n(150, 1500)):
        b0, b1 = _bounds(rng, fs=float(np.exp(rng.uniform(-2, 10))))
        if t % 10 == 0:
            b0, b1 = float(int(b0 * 10)), float(int(b0 * 10) + 1 + int(rng.integers(0, 5)))
        xs = np.concatenate([[b0, b1, (b0 + b1) / 2, b0 - 1, b1 + 1, np.nextafter(b0, -np.inf), np.nextafter(b1, np.inf), 0.0],
                             rng.uniform(b0 - (b1 - b0), b1 + (b1 - b0), 12)])
        y = pure({'op': 'fcn_cosine', 'b0': b0, 'b1': b1}, f'utils.fcn_cosine([{b0!r}, {b1!r}])(x[{len(xs)}])',
                 fcn_cosine_on, [b0, b1], xs)
        if t % 2:
            fv = pure({'op': 'fcn_cosine', 'b0': b0, 'b1': b1}, f'fourier._freq_vector(x[{len(xs)}], [{b0!r}, {b1!r}], typ="lp")',
                      fourier._freq_vector, xs, [b0, b1], typ='lp')
            y = 1 - fv        # observed through _freq_vector(…, "lp") = 1 - taper
        lines.append(f'fcncos {bits([b0])} {bits([b1])} {bits(xs)}'); impl.append(y); meta.append((b0, b1))
    model = ctx.lean(lines)
    for (b0, b1), y, m in zip(meta, impl, model):
        mv = unbits(m.split()[1])
        good = mv.shape == y.shape and bool(np.all(np.abs(mv - y) <= 1e-12))
        ctx.compare('fcn_cosine', {'op': 'fcn_cosine', 'b0': b0, 'b1': b1}, 'ok' if good else y.tolist(), 'ok' if good else mv.tolist(),
                    tags=('fcn_cosine',))


def corr_filters(ctx):
    from ibldsp import fourier
    rng = ctx.rng
    jobs = []
    for t in range(ctx.n(70, 400)):
        n = int(rng.integers(1, ctx.n(40, 90))) if t % 9 else int(rng.integers(1, 6))
        ndim = int(rng.integers(1, 4))
        axis = int(rng.integers(0, ndim))
        sh = shapes_for(rng, n, ndim, axis)
        ts = rand_real(rng, sh, REAL_DTYPES[(t // 3) % len(REAL_DTYPES)])
        si = [1.0, 0.002, 1 / 30000][t % 3]
        typ = ('lp', 'hp', 'bp')[t % 3]
        b0, b1 = _bounds(rng, 1 / si)
        b2, b3 = _bounds(rng, 1 / si)
        b = [b0, b1] if typ != 'bp' else [b0, b1, b2, b3]
        use_default_axis = (axis == ndim - 1 and t % 2 == 0)
        jobs.append((ts, si, typ, b, axis, use_default_axis, bool(t % 5 == 3)))
    lines, meta = [], []
    for ts, si, typ, b, axis, dflt, neg in jobs:
        f = getattr(fourier, typ)
        ax_arg = axis - ts.ndim if neg else axis
        F = fibres(ts, axis)
        d_ = {'op': typ, 'shape': list(ts.shape), 'axis': ax_arg, 'si': si, 'b': b, 'fibre': 0, 'dtype': str(ts.dtype)}
        t_ = f'fourier.{typ}(ts{list(ts.shape)}:{ts.dtype}, {si!r}, {b!r}, axis={ax_arg})'
        try:
            out = pure(d_, t_, f, ts, si, b) if dflt else pure(d_, t_, f, ts, si, b, axis=ax_arg)
            err = None
        except Exception as e:
            out, err = None, errname(e)
        O = None if out is None else fibres(out, axis)
        for i in range(F.shape[0]):
            lines.append(f'{typ} {bits([si])} ' + ' '.join(bits([v]) for v in b) + ' ' + bits(F[i].astype(np.float64)))
            meta.append((ts.shape, si, typ, b, ax_arg, i, F[i].astype(np.float64), None if O is None else O[i], err, str(ts.dtype)))
    model = ctx.lean(lines)
    for (sh, si, typ, b, axis, i, ti, oi, err, dt), m in zip(meta, model):
        desc = {'op': typ, 'shape': list(sh), 'axis': axis, 'si': si, 'b': b, 'fibre': i, 'dtype': dt}
        tags = ('filter:' + typ, f'filter:{len(sh)}d', 'filter:' + dt, 'filter:n_odd' if len(ti) % 2 else 'filter:n_even',
                'filter:axis_last' if axis % len(sh) == len(sh) - 1 else 'filter:axis_first' if axis % len(sh) == 0 else 'filter:axis_middle',
                'filter:axis_negative' if axis < 0 else 'filter:axis_nonneg')
        if err is not None or not m.startswith('ok'):
            ctx.compare('filter', desc, err or 'ok', m.split(' ')[0] + (' ' + m.split(' ')[1] if m.startswith('err') else ''), tags=tags)
            continue
        mv = unbits(m.split()[1])
        scale = max(float(np.max(np.abs(ti))), 1e-300) * max(len(ti), 1)
        good = mv.shape == oi.shape and bool(np.all(np.abs(mv - oi) <= tol_for(dt) * scale))
        ctx.compare('filter', desc, 'ok' if good else oi[:6].tolist(), 'ok' if good else mv[:6].tolist(),
                    nontrivial=len(ti) >= 3, tags=tags)


# ---------------------------------------------------------------------------------------------
# (f) dft / dft2
# ---------------------------------------------------------------------------------------------
def corr_dft(ctx):
    from ibldsp import fourier
    rng = ctx.rng
    lines, meta = [], []
    for t in range(ctx.n(60, 400)):
        n = int(rng.integers(1, ctx.n(34, 70))) if t % 8 else int(rng.integers(1, 5))
        ndim = int(rng.integers(1, 4))
        axis = int(rng.integers(0, ndim))
        sh = shapes_for(rng, n, ndim, axis)
        cplx = bool(t % 2)
        if cplx:
            x = (rng.standard_normal(sh) + 1j * rng.standard_normal(sh)).astype(('complex128', 'complex64')[(t // 2) % 2])
        else:
            x = rand_real(rng, sh, REAL_DTYPES[(t // 2) % len(REAL_DTYPES)])
        F = fibres(x, axis)
        d_ = {'op': 'dft', 'shape': list(sh), 'axis': axis, 'complex': cplx, 'fibre': 0, 'dtype': str(x.dtype)}
        t_ = f'fourier.dft(x{list(sh)}:{x.dtype}, axis={axis})'
        try:
            out = (pure(d_, t_, fourier.dft, x, axis=(axis - ndim if t % 5 == 2 else axis)) if (axis != ndim - 1 or t % 3)
                   else pure(d_, t_, fourier.dft, x))
            err = None
        except Exception as e:
            out, err = None, errname(e)
        O = None if out is None else fibres(out, axis)
        for i in range(F.shape[0]):
            lines.append(f'dft {int(cplx)} {cbits(F[i].astype(np.complex128))}')
            meta.append(('dft', {'op': 'dft', 'shape': list(sh), 'axis': axis, 'complex': cplx, 'fibre': i, 'dtype': str(x.dtype)},
                         F[i].astype(np.complex128), None if O is None else O[i], err,
                         ('dft', 'dft:complex' if cplx else 'dft:real', f'dft:{ndim}d', 'dft:n_odd' if n % 2 else 'dft:n_even',
                          'dft:' + str(x.dtype)), str(x.dtype)))
    for t in range(ctx.n(25, 150)):
        n0, n1, nt = int(rng.integers(1, 7)), int(rng.integers(1, 7)), int(rng.integers(1, 4))
        nk, nl = (n0, n1) if t % 2 == 0 else (int(rng.integers(1, 6)), int(rng.integers(1, 6)))
        r, c = [v.flatten() for v in np.meshgrid(np.arange(n0) / n0, np.arange(n1) / n1, indexing='ij')]
        if t % 3 == 2:   # irregular sampling
            r = r + rng.uniform(-0.1, 0.1, r.shape)
            c = c + rng.uniform(-0.1, 0.1, c.shape)
        if t % 4 == 1:
            x = rng.standard_normal((n0 * n1, nt)) + 1j * rng.standard_normal((n0 * n1, nt))
        else:
            x = rand_real(rng, (n0 * n1, nt), REAL_DTYPES[(t // 4) % len(REAL_DTYPES)])
        x0 = x.copy()
        try:
            out = pure({'op': 'dft2', 'grid': [n0, n1], 'nk': nk, 'nl': nl, 'irregular': t % 3 == 2, 'column': 0, 'dtype': str(x.dtype)},
                       f'fourier.dft2(x{list(x.shape)}:{x.dtype}, r, c, {nk}, {nl})', fourier.dft2, x, r, c, nk, nl)
            err = None
        except Exception as e:
            out, err = None, errname(e)
        for i in range(nt):
            lines.append(f'dft2 {nk} {nl} {bits(r)} {bits(c)} {cbits(x0[:, i].astype(np.complex128))}')
            meta.append(('dft2', {'op': 'dft2', 'grid': [n0, n1], 'nk': nk, 'nl': nl, 'irregular': t % 3 == 2, 'column': i,
                                  'dtype': str(x.dtype)}, x0[:, i].astype(np.complex128),
                         None if out is None else out[:, :, i].ravel(), err,
                         ('dft2', 'dft2:irregular' if t % 3 == 2 else 'dft2:regular', 'dft2:' + str(x.dtype)), str(x.dtype)))
    model = ctx.lean(lines)
    for (op, desc, xi, oi, err, tags, dt), m in zip(meta, model):
        if err is not None:
            ctx.compare(op, desc, err, m[:40], tags=tags)
            continue
        mv = uncbits(m.split()[1]) if len(m.split()) > 1 else np.zeros(0, complex)
        scale = max(float(np.sum(np.abs(xi))), 1e-300)
        good = mv.shape == oi.shape and bool(np.all(np.abs(mv - oi) <= tol_for(dt) * scale))
        ctx.compare(op, desc, 'ok' if good else f'{np.asarray(oi)[:4].tolist()} len={len(oi)}', 'ok' if good else f'{mv[:4].tolist()} len={len(mv)}',
                    nontrivial=len(xi) >= 2, tags=tags)

# ---------------------------------------------------------------------------------------------
# (g) state: the library's own callers of the helpers (voltage.fk / kfilt / agc) interleaved with the helpers
# ---------------------------------------------------------------------------------------------
STATE_CONFIGS = [(4, 8, 0, 0, False), (5, 9, 2, 0.02, False), (3, 5, 1, 0, False), (14, 24, 2, 0.02, True), (16, 33, 0, 0, True),
                 (7, 16, 3, 0.02, False), (2, 2, 0, 0, False), (9, 27, 1, 0, False)]


def _run_library_users(nx, nt, pad, lagc, with_kfilt, seed=0):
    """voltage.fk (and kfilt, agc) on a small array: they use fscale / fcn_cosine / _freq_vector / convolve and work in place on what
    they get back.  Returns (call text, sampling interval, spatial interval, problem or None)."""
    import warnings
    from ibldsp import voltage
    rng = np.random.default_rng([seed, nx, nt, pad])
    x = rng.standard_normal((nx, nt))
    si, dx = 0.002, float(1 + (nx % 3))
    kf = {'bounds': [0.05, 0.1], 'btype': 'highpass'} if with_kfilt else None
    text = f'voltage.fk(x[{nx}, {nt}], si={si}, dx={dx}, vbounds=[200, 400], ntr_pad={pad}, lagc={lagc}, kfilt={kf})'
    with warnings.catch_warnings():
        warnings.simplefilter('ignore')
        # copies: voltage.agc documents that it works in place on its input (C05's business, not a C18 helper)
        voltage.fk(x.copy(), si=si, dx=dx, vbounds=[200, 400], ntr_pad=pad, lagc=lagc, kfilt=kf)
        voltage.agc(x.copy(), wl=0.02, si=si)
        if nx + 2 * pad > 12:
            voltage.kfilt(x.copy(), ntr_pad=pad, ntr_tap=pad, lagc=None, butter_kwargs={'N': 3, 'Wn': 0.1, 'btype': 'highpass'})
            text += '; voltage.kfilt(x, …)'
    return text, si, dx, None


def corr_state(ctx):
    from ibldsp import fourier
    lines, impl, meta = [], [], []
    for (nx, nt, pad, lagc, kf) in STATE_CONFIGS[:ctx.n(6, 8)]:
        text, si, dx, prob = _run_library_users(nx, nt, pad, lagc, kf, ctx.seed)
        for n, s_ in ((nx + 2 * pad, dx), (nt, si)):
            for one in (False, True):
                r = fourier.fscale(n, s_, one_sided=True) if one else fourier.fscale(n, s_)    # the call forms the library itself uses
                lines.append(f'fscale {n} {bits([s_])} {int(one)}'); impl.append(np.asarray(r, dtype=float))
                meta.append({'op': 'state', 'nx': nx, 'nt': nt, 'ntr_pad': pad, 'lagc': lagc, 'kfilt': kf, 'then': f'fscale({n}, {s_}, one_sided={one})'})
    model = ctx.lean(lines)
    for desc, a, b in zip(meta, impl, model):
        mv = unbits(b.split()[1]) if b.startswith('ok') and len(b.split()) > 1 else np.zeros(0)
        good = mv.shape == a.shape and bool(np.all(np.abs(mv - a) <= 1e-14 * np.abs(mv)))
        ctx.compare('state', desc, 'ok' if good else f'{a[:6].tolist()} len={len(a)}', 'ok' if good else f'{mv[:6].tolist()} len={len(mv)}',
                    tags=('state:fscale_after_fk',))


def correspondence(ctx):
    for k in _INFO:
        _INFO[k] = 0
    _FORMS.clear()
    corr_state(ctx)
    corr_nsoptim(ctx)
    corr_conv_operator(ctx)
    corr_conv_values(ctx)
    corr_reduce_expand(ctx)
    corr_fscale(ctx)
    corr_cosine(ctx)
    corr_filters(ctx)
    corr_dft(ctx)
    corr_state(ctx)
    ctx.dist['sequence:helper called twice on the same argument objects (second result compared)'] += _INFO['calls']
    for t, c in _FORMS.items():
        ctx.dist['form:' + t] += c
    ctx.dist['info:call modified an argument in place'] += _INFO['args_modified']
    ctx.dist['info:second result differs from first'] += _INFO['second_result_differs']
    ctx.note(f'informational (not demanded): helpers whose returned array aliases internal state: {alias_probe() or "none"}')
    ctx.exhaustive = False


# ---------------------------------------------------------------------------------------------
# Oracle: the property text on the real code, independent of the model
# ---------------------------------------------------------------------------------------------
EXPECT = ('C18: convolve = direct convolution (full / same), fexpand/freduce mutual inverses on spectra of real signals, fscale = DFT bin '
          'frequencies, ns_optim_fft = least 2^a 3^b >= n, lp + hp = identity, bp = hp o lp, dft/dft2 = FFT, cosine taper monotone 0 -> 1')


def least_smooth(n, amax=None, bmax=None):
    """Least 2^a 3^b >= n by exhaustive search over the exponents (optionally a < amax, b < bmax)."""
    best = None
    b = 0
    while (bmax is None or b < bmax) and (b == 0 or 3 ** (b - 1) < max(n, 1)):
        v = 3 ** b
        a = 0
        while v < n:
            v *= 2
            a += 1
        if (amax is None or a < amax) and (best is None or v < best):
            best = v
        b += 1
    return best


def oracle_nsoptim(n):
    from ibldsp import fourier
    want = least_smooth(n)
    try:
        got = int(C(fourier.ns_optim_fft, n))
    except Exception as e:
        got = errname(e)
    if got == want:
        return None
    if n > GAP_LO and got == (least_smooth(n, 25, 15) or 'err IndexError'):
        return None     # known finding nsoptim-table-gap: the table a < 25, b < 15 is what the code documents; see known_findings
    return f'ns_optim_fft({n}) = {got}, the least 2^a 3^b >= {n} is {want}'


def oracle_conv(nsx, nsw, seed=0):
    from ibldsp import fourier
    rng = np.random.default_rng([seed, nsx, nsw])
    pairs = [('ramp', None, None), ('rand', None, None)] + [('dtypes', a, b) for a in CONV_DTYPES for b in CONV_DTYPES if (a, b) != ('float64', 'float64')]
    for kind, dx_, dw_ in pairs:
        if kind == 'dtypes':
            x, w = _rand_content(rng, nsx, dx_), _rand_content(rng, nsw, dw_)
            if w.dtype.kind == 'f' and x.dtype.kind == 'i':
                w = (np.hanning(nsw + 2)[1:-1] if nsw > 1 else np.array([0.37])).astype(dw_)        # a taper on integer data, as voltage.agc does
            kind = f'{dx_} x {dw_}'
        else:
            x = np.arange(1, nsx + 1, dtype=float) if kind == 'ramp' else rng.standard_normal(nsx)
            w = np.arange(1, nsw + 1, dtype=float)[::-1].copy() if kind == 'ramp' else rng.standard_normal(nsw)
        d = direct_full(x, w)
        TOL = 1e-5 if 'float32' in (str(x.dtype), str(w.dtype)) else 1e-9
        scale = max(float(np.sum(np.abs(x.astype(float))) * np.max(np.abs(w.astype(float)))), 1e-300)
        for mode in ('full', 'same'):
            for xx in (x, np.tile(x, (2, 1))):
                try:
                    out = C(fourier.convolve, xx, w, mode=mode)
                except Exception as e:
                    return f"convolve(x[{nsx}], w[{nsw}], mode='{mode}') raised {type(e).__name__}: {e}"
                o = np.asarray(out, dtype=float)
                o = o.reshape(int(np.prod(o.shape[:-1])), o.shape[-1])[-1] if o.ndim > 1 else o
                if mode == 'full':
                    ok = len(o) >= len(d) and np.all(np.abs(o[:len(d)] - d) <= TOL * scale) and np.all(np.abs(o[len(d):]) <= TOL * scale) \
                        and len(o) <= len(d) + 1
                    ref = d
                else:
                    ref = d[(nsw - 1) // 2:(nsw - 1) // 2 + nsx]
                    ok = len(o) == nsx and np.all(np.abs(o - ref) <= TOL * scale)
                if not ok:
                    return (f"convolve(x, w, mode='{mode}') [x:{x.dtype}, w:{w.dtype}] with x = {xx.tolist() if nsx * nsw <= 40 else kind + f'[{nsx}]'}, "
                            f"w = {w.tolist() if nsx * nsw <= 40 else kind + f'[{nsw}]'} returns {np.round(o[:8], 6).tolist()}… (len {len(o)}), "
                            f'direct convolution gives {np.round(ref[:8], 6).tolist()}… (len {len(ref)})')
    return None


def oracle_reduce_expand(n, seed=0):
    from ibldsp import fourier
    rng = np.random.default_rng([seed, n, 1])
    for ndim in (1, 2, 3):
        for axis in range(ndim):
            sh = shapes_for(rng, n, ndim, axis)
            s = rand_real(rng, sh, REAL_DTYPES[(n + ndim + axis) % len(REAL_DTYPES)], amp=10.0)
            F = np.fft.fft(s, axis=axis)
            try:
                H = C(fourier.freduce, F, axis=axis)
                E = C(fourier.fexpand, H, n, axis=axis)
                H2 = C(fourier.freduce, E, axis=axis)
            except Exception as e:
                return f'freduce/fexpand on the spectrum of a real signal of shape {sh}, axis {axis} raised {type(e).__name__}: {e}'
            if H.shape[axis] != n // 2 + 1:
                return f'freduce keeps {H.shape[axis]} bins of {n} along axis {axis} (shape {sh}); the non-negative frequencies are {n // 2 + 1}'
            if E.shape != F.shape or np.max(np.abs(E - F)) > tol_for(F.dtype) * max(np.max(np.abs(F)), 1) * n:
                return (f'fexpand(freduce(F), {n}) != F for F = fft of a real signal, shape {sh}, axis {axis}: '
                        f'got shape {E.shape}, max error {np.max(np.abs(E - F)) if E.shape == F.shape else "n/a"}')
            if H2.shape != H.shape or np.any(H2 != H):
                return f'freduce(fexpand(H, {n})) != H for H = half spectrum, shape {sh}, axis {axis}'
            R = np.fft.rfft(s, axis=axis)
            if np.max(np.abs(H - R)) > tol_for(F.dtype) * max(np.max(np.abs(F)), 1) * n:
                return f'freduce(fft(x)) != rfft(x), shape {sh}, axis {axis}'
    return None


def oracle_fscale(n, si=0.002):
    from ibldsp import fourier
    f = np.asarray(C(fourier.fscale, n, si))
    f1 = np.asarray(C(fourier.fscale, n, si, one_sided=True))
    p = np.arange(n)
    want = np.where(p <= n // 2, p, p - n) / (n * si)
    if f.shape != want.shape or not np.allclose(f, want, rtol=1e-12, atol=0):
        return f'fscale({n}, {si}) = {f[:6].tolist()}…(len {len(f)}), DFT bin frequencies are {want[:6].tolist()}…(len {n})'
    if f1.shape != (n // 2 + 1,) or not np.allclose(f1, want[:n // 2 + 1], rtol=1e-12, atol=0):
        return f'fscale({n}, {si}, one_sided=True) = {f1[:6].tolist()}…(len {len(f1)}), expected the {n // 2 + 1} non-negative bin frequencies'
    return None


def oracle_filters(n, seed=0):
    from ibldsp import fourier
    rng = np.random.default_rng([seed, n, 2])
    for ndim in (1, 2, 3):
        for axis in range(ndim):
            sh = shapes_for(rng, n, ndim, axis)
            si = float(rng.choice([1.0, 0.002]))
            b0, b1 = _bounds(rng, 1 / si)
            b2, b3 = _bounds(rng, 1 / si)
            for dt in REAL_DTYPES:
                ts = rand_real(rng, sh, dt, amp=1000.0)
                ts64 = ts.astype(np.float64)
                what = f'shape {sh}, dtype {dt}, axis {axis}, si {si}'
                try:
                    lo = C(fourier.lp, ts, si, [b0, b1], axis=axis)
                    hi = C(fourier.hp, ts, si, [b0, b1], axis=axis - ndim)
                    band = C(fourier.bp, ts, si, [b0, b1, b2, b3], axis=axis)
                    comp = C(fourier.hp, C(fourier.lp, ts, si, [b2, b3], axis=axis), si, [b0, b1], axis=axis)
                    lo64 = C(fourier.lp, ts64, si, [b0, b1], axis=axis)
                    fib = np.apply_along_axis(lambda v: C(fourier.lp, v, si, [b0, b1]), axis, ts)
                except Exception as e:
                    return f'lp/hp/bp on {what}, corners {[b0, b1, b2, b3]} raised {type(e).__name__}: {e}'
                tol = tol_for(dt) * max(float(np.max(np.abs(ts64))), 1) * n

                def dev(a, b):
                    return float(np.max(np.abs(a - b))) if a.shape == b.shape else 'shape ' + str(a.shape)
                if lo.shape != ts.shape or np.max(np.abs(lo + hi - ts64)) > tol:
                    return f'lp + hp != identity: {what}, corners {[b0, b1]}, max |lp + hp - ts| = {dev(lo + hi, ts64) if lo.shape == hi.shape else "shape " + str(lo.shape)}'
                if lo64.shape != lo.shape or np.max(np.abs(lo - lo64)) > tol:
                    return f'lp(ts) != lp(ts.astype(float64)): {what}, corners {[b0, b1]}, max difference {dev(lo, lo64)}'
                if fib.shape != lo.shape or np.max(np.abs(fib - lo)) > tol:
                    return f'lp along axis {axis} differs from lp of each 1-D fibre: {what}, max difference {dev(fib, lo)}'
                if band.shape != ts.shape or np.max(np.abs(band - comp)) > tol:
                    return f'bp != hp o lp: {what}, corners {[b0, b1, b2, b3]}, max difference {dev(band, comp)}'
    return None


def oracle_cosine(seed=0):
    from ibldsp import utils
    rng = np.random.default_rng([seed, 3])
    for _ in range(40):
        b0, b1 = _bounds(rng, float(np.exp(rng.uniform(-2, 8))))
        xs = np.sort(np.concatenate([[b0, b1, b0 - 1, b1 + 1], rng.uniform(b0 - (b1 - b0), b1 + (b1 - b0), 60)]))
        y = np.asarray(C(fcn_cosine_on, [b0, b1], xs.copy()))
        if np.any(np.diff(y) < -1e-12) or np.any(np.abs(y[xs <= b0]) > 1e-12) or np.any(np.abs(y[xs >= b1] - 1) > 1e-12) \
                or np.any(y < -1e-12) or np.any(y > 1 + 1e-12):
            i = int(np.argmax(np.diff(y) < -1e-12)) if np.any(np.diff(y) < -1e-12) else 0
            return (f'fcn_cosine([{b0}, {b1}]) is not a monotone 0 -> 1 ramp: values {np.round(y[i:i + 4], 6).tolist()} at x = {xs[i:i + 4].tolist()}, '
                    f'f(b0) = {float(y[np.searchsorted(xs, b0)])}, f(b1) = {float(y[np.searchsorted(xs, b1)])}')
        mid = float(C(fcn_cosine_on, [b0, b1], np.array([(b0 + b1) / 2]))[0])
        if abs(mid - 0.5) > 1e-9:
            return f'fcn_cosine([{b0}, {b1}]) at the midpoint is {mid}, the cosine taper gives 0.5'
    return None


def oracle_dft(n, seed=0):
    from ibldsp import fourier
    rng = np.random.default_rng([seed, n, 4])
    for ndim in (1, 2, 3):
        for axis in range(ndim):
            sh = shapes_for(rng, n, ndim, axis)
            for dt in REAL_DTYPES + ('complex128', 'complex64'):
                cplx = np.dtype(dt).kind == 'c'
                x = (rng.standard_normal(sh) + 1j * rng.standard_normal(sh)).astype(dt) if cplx else rand_real(rng, sh, dt, amp=100.0)
                x64 = x.astype(np.complex128 if cplx else np.float64)
                want = np.fft.fft(x64, axis=axis) if cplx else np.fft.rfft(x64, axis=axis)
                try:
                    got = C(fourier.dft, x, axis=axis)
                except Exception as e:
                    return f'dft on shape {sh}, axis {axis} raised {type(e).__name__}: {e}'
                if got.shape != want.shape or np.max(np.abs(got - want)) > tol_for(dt) * max(np.sum(np.abs(x64)), 1):
                    return (f'dft(x, axis={axis}) != {"fft" if cplx else "rfft"}(x, axis={axis}) for x of shape {sh}, dtype {dt}: got shape {got.shape}, '
                            f'expected {want.shape}' + (f', max error {np.max(np.abs(got - want))}' if got.shape == want.shape else ''))
    return None


def oracle_dft2(n0, n1, seed=0):
    from ibldsp import fourier
    rng = np.random.default_rng([seed, n0, n1, 5])
    nt = 2
    x = rng.standard_normal((n0 * n1, nt))
    r, c = [v.flatten() for v in np.meshgrid(np.arange(n0) / n0, np.arange(n1) / n1, indexing='ij')]
    want = np.fft.fft(np.fft.fft(x.reshape(n0, n1, nt), axis=0), axis=1)
    try:
        got = C(fourier.dft2, x, r, c, n0, n1)
    except Exception as e:
        return f'dft2 on a regular {n0} x {n1} grid raised {type(e).__name__}: {e}'
    if got.shape != want.shape or np.max(np.abs(got - want)) > TOL * max(np.sum(np.abs(x)), 1):
        return f'dft2 on the regular {n0} x {n1} grid differs from fft2: shape {got.shape} vs {want.shape}'
    return None


def oracle_sequence(nx, nt, pad, lagc, with_kfilt, seed=0):
    """The helpers after the library's own users of them ran (voltage.fk rescales the wavenumber scale it gets from fscale in place,
    agc / kfilt / lp / hp / bp / convolve call the same helpers): the property must still hold for the helpers' next results."""
    from ibldsp import fourier
    text, si, dx, _ = _run_library_users(nx, nt, pad, lagc, with_kfilt, seed)
    rng = np.random.default_rng([seed, nx, nt, 7])
    ts = rng.standard_normal((nx, nt))
    C(fourier.lp, ts, si, [50, 100]); C(fourier.hp, ts, si, [50, 100], axis=0); C(fourier.bp, ts, si, [20, 40, 100, 200])
    C(fourier.convolve, ts, np.hanning(5), mode='same')
    text += '; fourier.lp / hp / bp / convolve on an array of the same shape'
    checks = [(f'fourier.fscale({nx + 2 * pad}, {dx})', lambda: oracle_fscale(nx + 2 * pad, dx)),
              (f'fourier.fscale({nt}, {si})', lambda: oracle_fscale(nt, si)),
              ('fcn_cosine', lambda: oracle_cosine(seed)),
              ('filters', lambda: oracle_filters(min(nt, 12), seed)),
              ('convolve', lambda: oracle_conv(min(nt, 9), 4, seed)),
              ('freduce/fexpand', lambda: oracle_reduce_expand(nt, seed)),
              ('dft', lambda: oracle_dft(min(nt, 9), seed))]
    for what, f in checks:
        r = f()
        if r:
            return f'call sequence: {text}; then {what}: {r}'
    return None


def run_oracle(inp):
    """inp['form'] (default 0 = plain call) selects the representation / spelling of the arguments, see form_text()."""
    _FORM[0] = int(inp.get('form', 0))
    try:
        r = _run_oracle(inp)
    finally:
        _FORM[0] = 0
    if r and inp.get('form', 0):
        r += f' [input form {inp["form"]}: {form_text(inp["form"])}]'
    return r


def _run_oracle(inp):
    k = inp['kind']
    if k == 'sequence':
        return oracle_sequence(inp['nx'], inp['nt'], inp['ntr_pad'], inp['lagc'], inp['kfilt'], inp.get('seed', 0))
    if k == 'nsoptim':
        return oracle_nsoptim(inp['n'])
    if k == 'convolve':
        return oracle_conv(inp['nsx'], inp['nsw'], inp.get('seed', 0))
    if k == 'reduce_expand':
        return oracle_reduce_expand(inp['n'], inp.get('seed', 0))
    if k == 'fscale':
        return oracle_fscale(inp['n'], inp.get('si', 0.002))
    if k == 'filters':
        return oracle_filters(inp['n'], inp.get('seed', 0))
    if k == 'cosine':
        return oracle_cosine(inp.get('seed', 0))
    if k == 'dft':
        return oracle_dft(inp['n'], inp.get('seed', 0))
    if k == 'dft2':
        return oracle_dft2(inp['n0'], inp['n1'], inp.get('seed', 0))
    raise ValueError(k)


HOW = ('python (PYTHONPATH=$IBL_REPO/src:harness): import props.c18 as p; p.run_oracle(<input>) — returns the description of the '
       'failure, None when the property holds on that input; input["form"] = k selects the representation / call spelling p.form_text(k)')


def _candidates(ctx):
    """Inputs to try, smallest first within each kind; the cases the correspondence disagreed on come first."""
    first = []
    for m in ctx.mismatches[:300]:
        c = m['case']
        op = c.get('op')
        if op == 'nsoptim':
            first.append({'kind': 'nsoptim', 'n': c['n']})
        elif op in ('convolve', 'convolve-values'):
            if op == 'convolve':
                first.append({'kind': 'convolve', 'nsx': c['nsx'], 'nsw': c['nsw']})
            else:
                first.append({'kind': 'convolve', 'nsx': c['x_shape'][-1], 'nsw': c['w_shape'][-1]})
        elif op in ('freduce', 'fexpand'):
            first.append({'kind': 'reduce_expand', 'n': max(c.get('n', c.get('ns', 1)), 1)})
        elif op == 'fscale':
            first.append({'kind': 'fscale', 'n': c['ns']})
        elif op in ('lp', 'hp', 'bp'):
            first.append({'kind': 'filters', 'n': c['shape'][c['axis']]})
        elif op == 'fcn_cosine':
            first.append({'kind': 'cosine'})
        elif op == 'dft':
            first.append({'kind': 'dft', 'n': c['shape'][c['axis']]})
        elif op == 'dft2':
            first.append({'kind': 'dft2', 'n0': c['grid'][0], 'n1': c['grid'][1]})
        elif op == 'state':
            first.append({'kind': 'sequence', 'nx': c['nx'], 'nt': c['nt'], 'ntr_pad': c['ntr_pad'], 'lagc': c['lagc'], 'kfilt': c['kfilt']})
    groups = [
        [{'kind': 'nsoptim', 'n': n} for n in itertools.chain(range(1, 2000), (v + d for a in range(26) for b in range(16)
                                                                            for v in [2 ** a * 3 ** b] for d in (-1, 0, 1)))],
        [{'kind': 'convolve', 'nsx': a, 'nsw': b} for s in range(2, 60) for a in range(1, s) for b in [s - a]],
        [{'kind': 'reduce_expand', 'n': n} for n in range(1, 40)],
        [{'kind': 'fscale', 'n': n} for n in range(1, 40)],
        [{'kind': 'cosine', 'seed': s} for s in range(3)],
        [{'kind': 'filters', 'n': n} for n in range(1, 40)],
        [{'kind': 'dft', 'n': n} for n in range(1, 24)],
        [{'kind': 'dft2', 'n0': a, 'n1': b} for a in range(1, 6) for b in range(1, 6)],
        [{'kind': 'sequence', 'nx': c[0], 'nt': c[1], 'ntr_pad': c[2], 'lagc': c[3], 'kfilt': c[4]}
         for c in sorted(STATE_CONFIGS, key=lambda c: c[0] * c[1])],
    ]
    return first, groups


def search(ctx, reasons):
    first, groups = _candidates(ctx)
    seen = set()

    def attempt(inp):
        key = repr(sorted(inp.items()))
        if key in seen:
            return None
        seen.add(key)
        try:
            return run_oracle(inp)
        except Exception as e:      # a fault of the oracle itself is not a failing input of the property
            ctx.note(f'oracle fault on {inp}: {type(e).__name__}: {e}')
            return None

    def attempt_forms(inp, many):
        for k in ((0,) + FORM_SAMPLE if many else (0,)):
            q = dict(inp, form=k) if k else inp
            r = attempt(q)
            if r:
                return q, r
        return None

    found = None
    for inp in first[:40]:
        found = attempt_forms(inp, True)
        if found:
            break
    # smallest failing input of the same kind (groups are ordered by size), else the first failing of any kind
    for g in groups:
        if found and g[0]['kind'] != found[0]['kind']:
            continue
        seen.clear()
        hit = None
        for inp in g:                        # plain calls over the whole group, smallest first
            hit = attempt_forms(inp, False)
            if hit:
                break
        if not hit:
            for inp in g[:6]:                # the other representations / spellings on the smallest inputs
                hit = attempt_forms(inp, True)
                if hit:
                    break
        if hit:
            found = hit
        if found:
            break
    if found:
        inp, r = found
        return {'input': inp, 'observed': r, 'expected': EXPECT, 'how': HOW}
    return None


def replay(ctx, rep):
    r = run_oracle(rep['input'])
    print('oracle:', r)
    return r is not None


def known_findings(ctx):
    def table_gap():
        from ibldsp import fourier
        n = 3 ** 15
        return int(fourier.ns_optim_fft(n)) != n and least_smooth(n) == n
    return {'nsoptim-table-gap': table_gap}
