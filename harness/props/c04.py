"""C04 — Conversion never loses the original and is idempotent over run histories (neuropixel.NP2Converter)."""
import contextlib
import gc
import hashlib
import io
import json
import logging
import os
import re
import shutil
import tempfile
import time
from pathlib import Path

import numpy as np

ID = 'C04'
DRIVER = 'C04'
LEAN_TARGETS = ['IblVerif.Properties.C04']
THEOREMS = [
    'IblVerif.C04.original_recoverable',
    'IblVerif.C04.delete_requires_check',
    'IblVerif.C04.np21_compressed_in_place',
    'IblVerif.C04.interrupted_run_keeps_original',
    'IblVerif.C04.rerun_noop',
    'IblVerif.C04.run_creates_output',
    'IblVerif.C04.repeated_run_noop',
    'IblVerif.C04.forced_rerun_completes',
    'IblVerif.C04.first_run_completes',
    'IblVerif.C04.interrupted_then_forced_completes',
    'IblVerif.C04.not_np2_or_split_untouched',
    'IblVerif.C04.rerun_partial_folders_counterexample',
    'IblVerif.C04.rerun_after_delete_noop',
    'IblVerif.C04.np21_trailing_compress_counterexample',
    # runs as effect sequences (Model/ConverterSteps.lean): interruption between ANY two effects
    'IblVerif.C04.uninterrupted_run_is_effect_list',
    'IblVerif.C04.status_table',
    'IblVerif.C04.interrupted_run_is_prefix',
    'IblVerif.C04.prefix_recoverable',
    'IblVerif.C04.original_recoverable_any_prefix',
    'IblVerif.C04.original_removed_only_after_check',
    'IblVerif.C04.rerun_after_any_prefix_completes',
    'IblVerif.C04.partial_selection_keeps_original',
]
RULE = ('histories of 1..4 (thorough: ..5) calls, each either NP2Converter(file, post_check, delete_original, compress).process(overwrite) on a new '
        'object or (about half of the calls after the first) process(overwrite) once more on the SAME object, on a tiny '
        'recording (600..3700 samples x 385 channels, window 1200 or 1800, i.e. 1..5 processing and 1..4 verification windows, plus one staple of 30600 samples '
        '-- longer than one second -- with window 30000; real fixture metadata: NP2.4 with '
        'the shank map folded to 1..4 shanks, NP2.1, NP1; original as .bin or .cbin; for NP2.4 sometimes with init_params(nshank=[...]) naming one shank, a '
        'non-prefix subset or all shanks -- staples: [0], [2], [1, 3] of four shanks under all 8 option triples, forced again on the same object); every call draws the three options and overwrite '
        'uniformly, an interruption (none 45 %, else the j-th _split2shanks / write_meta_data / Reader.read inside check_NP24 / '
        'Reader.compress_file call or delete_NP24, index biased to 0, last, one past the last) and, for NP2.4, sometimes an unfaithful '
        'split (one AP sample of one shank altered before it is written, in a row of the first, a middle or the last verification window) '
        'or a call on shank 0\'s already split ap file; calls are generated '
        'while the real code runs (the next call may depend on the real disk, never on the model).  After each call the real directory '
        'tree is abstracted (status/exception, original present as .bin/.cbin with its bytes verified by SHA-1, per shank folder and '
        'stream: .bin absent / first k windows / whole good / whole altered, .cbin decoded and compared, .ch, .cbin_tmp, .meta compared '
        'with the reference text, any unexpected file; check_completed / already_exists of the live object) and compared token by token with Converter.run.  Non-trivial = at least one call '
        'of the history wrote to the disk or raised; distinct by (configuration, call sequence).  Thorough adds every single call '
        '(8 option triples x overwrite x every interruption point) from the fresh and from the completed state of one configuration per kind.  '
        'When the translator tie breaks the quick tier is escalated to: every staple, every same-object sequence, effect-sequence cases and generated '
        'histories at three times the quick depth (the exhaustive single-call sweep stays in the thorough tier).  '
        'Effect sequences (ops trace / prefix): the last call of a short history (0..2 prior calls: none, complete uncompressed / compressed, '
        'interrupted at a split / metadata / verification / compression point; NP2.4 and NP2.1, original .bin or .cbin, unfinalised headers, '
        'sometimes an unfaithful split, sometimes the same object once more) is run once uninterrupted with every hook it passes recorded in '
        'order (s _split2shanks, m write_meta_data, v Reader.read inside check_NP24, b entry of compress_file, c inside it with the .cbin_tmp '
        'present, C after it returned and before the .bin is unlinked, d delete_NP24) and compared with the hook projection of the model\'s '
        'effect list and with statusObj; then again with the environment raising at the k-th hook WHATEVER its kind (k boundary-biased: 0, '
        'last, one past the last, the first hook of every kind, the b / C boundaries that no named interruption point has; thorough: every k '
        'for the first scenarios), the abstracted disk and object flags compared with the state after the effects before that hook.')
ASSUMPTIONS = [
    'interruptions are Python exceptions raised at the call boundaries listed in RULE (not power loss between two syscalls); an interrupted '
    'compress_file leaves a .cbin_tmp and has not yet written the .ch (mtscomp writes the data file first)',
    'one converter object is live at a time (a new one replaces it) and every object uses the same window size; the file handed to a new '
    'object is the original .bin, else the original .cbin, else the (missing) .bin path; a read through '
    'the closed np.memmap of a deleted .bin (a segmentation fault; only reachable if the guard of process() is removed) is turned into an exception by the harness; the already-split call is made only when shank 0\'s ap file and its .meta are complete',
    'mtscomp compression is lossless and deterministic (checked: every .cbin met is decoded and compared with the expected bytes)',
    'the unfaithful split alters one AP (non-sync) sample (any row): check_NP24 compares the sync column of the first shank only; the model is told which processing window keeps the row and which verification window reads it (derived in the harness from the row)',
    'LF content is taken from an uninterrupted reference run of the same code (its correctness is C12); AP content, sizes of partially '
    'written files and the shank columns are derived independently from the original and the shank map',
    'init_params(nshank=[...]) with a proper subset of the shanks ("you would only want to override this for testing purposes"): the property\'s '
    'demand is unchanged (the original may only disappear after a verification that establishes it can be rebuilt from the outputs); on the '
    'unchanged code post_check then always fails (check_NP24 compares the whole original with a buffer that lacks the other shanks; AssertionError '
    'in the first window, original kept) and without post_check the run returns 1 with the selected folders complete: the model follows this '
    '(Cfg.partialSel, n = number of selected shanks, state tokens for the selected folders in the order given; files in any other folder would '
    'show as unexpected), the oracle accepts the AssertionError there and never accepts a removed original that cannot be rebuilt from ALL shanks; '
    'first / forced-run completion is demanded for the selected folders only when post_check is off',
    'effect sequences: the environment can be made to raise only at the hooks (call boundaries of the converter\'s own methods and of '
    'spikeglx.write_meta_data / Reader.read / Reader.compress_file); the boundaries of the model\'s effect list that have no hook (before '
    '_prepare_files_*, between the last verification read and check_completed = True, between the unlink of a stale .cbin and the entry of '
    'compress_file, inside _prepare_files_NP24 between two shank folders) are covered by the theorems only; the replacement of an NP2.1 original '
    '(.cbin published, then .bin unlinked) is ONE effect of the model (the intermediate disk with both files is not a state of the model), so no '
    'C hook is counted for it; recordings with a trailing partial frame are not used for the effect-sequence cases (mtscomp raises before the '
    '.cbin_tmp that hook c presupposes)',
    'a run without overwrite when only some of the expected shank folders exist creates the missing ones (empty files) and returns 0; no '
    'history over the listed interruption points reaches such a state (all folders are created before the first window); rerun_noop is '
    'stated for "all expected folders exist"',
]
TRUSTED = [
    'the abstraction of the real directory tree to the model state (this module, `abstract`) and the fault injectors (`faults`)',
    'mtscomp (used directly to decode every .cbin for comparison) and hashlib',
    'translator tie: harness/pyfn2lean.py and its per-item assumptions (each boolean attribute test of the source is read through an '
    'assumed truth value; Tie/C04.lean selects the specialisation that belongs to a flag combination)',
]
LEVEL_TEXT = ('Lean 4 theorems over the converter history state machine Converter.run, for every history, every option triple, every '
              'interruption point and index, every shank count >= 1 and window configuration: the original stays recoverable (invariant by '
              'induction over histories), it is deleted only by an NP2.4 run whose bit-exact verification passed, an interrupted run keeps it, '
              'a run without overwrite on existing output is the identity and returns 0, every run leaves output behind, an uninterrupted '
              'first or forced run from ANY earlier state ends complete, NP1 / already-split inputs are untouched.  Each run is also a LIST OF '
              'ATOMIC EFFECTS with a sequential semantics (Converter.effectsObj / applyEffs), proved equal to the state machine (uninterrupted '
              'run = whole list, status = the total decision table statusObj; every named interruption = a prefix); over ALL prefixes: the '
              'original stays recoverable, it is removed only by the last effect of a list that contains this run\'s check_completed = True, and '
              'a forced re-run after any strict prefix ends complete; with a partial shank selection (init_params(nshank=subset)) no history ever removes the original.  Ties: (1) exact differential run over generated histories with fault '
              'injection on the real code, incl. hook traces and interruptions at any hook; (2) translator tie: the step order the effect '
              'list expands (process dispatch, _process_NP24 / _process_NP21 under every flag combination, delete_NP24 guard, the window '
              'generator) is re-translated from the source text on every run and proved equal to the model\'s steps24 / steps21 / dispatch / '
              'deleteGuard')
LEVEL_NOTE = ('proved about the model; tie (1) is the token-exact correspondence run (status, SHA-1 of the original, set / sizes / validity of '
              'every file, object flags, hook order), tie (2) the translator tie IblVerif.Tie.C04 (8 theorems, regenerated per run): call '
              'order and guards of process / _process_NP24 / _process_NP21 / delete_NP24 for all flag combinations and window '
              'configurations.  Only compared numerically (not translated: loops over self.shank_info / arrays are outside the translator\'s '
              'subset): the bodies of check_NP24 (window loop, per-shank reads, check_completed = True), compress_NP24 / compress_NP21 '
              '(per-stream order unlink stale -> compress_file -> unlink .bin), _prepare_files_NP24 / _NP21 (existence tests) and the '
              'status 1 at the end of the pipelines; their effect order inside the model (Converter.expand24 / expand21) is tied by the hook '
              'traces and prefix states of the correspondence run.  Trusted: Lean kernel, the abstraction function and fault injectors of '
              'harness/props/c04.py, mtscomp/zlib losslessness, exception-level (not syscall-level) interruption at the hooks listed in RULE')
TECHNIQUE = ('Lean 4 state-machine model + invariant proofs by induction over histories; sequential effect-list semantics proved equal to it '
             'and prefix-closed safety theorems; translator tie of the call-order / guard skeleton (model regenerated from the source on every '
             'run); exact differential correspondence with fault injection (named points and any-hook interruption)')

REPO = Path(os.environ.get('IBL_REPO', '/repo'))
FX = REPO / 'src' / 'tests' / 'fixtures' / 'np2split'
STEM = '_spikeglx_ephysData_g0_t0.imec0'
NCH = 385
RATIO = 12


# input forms of one call (the same mathematical call, spelled differently): path as Path / str; constructor options by
# keyword / positionally in the signature order (ap_file, post_check, delete_original, compress); init_params by keyword /
# positionally (nsamples, nwindow, …); the window size as Python int / np.int64 / np.int32 / Python float / np.float64 /
# a float expression like the test-suite's 0.3 * FS; process(overwrite) by keyword / positionally
DEFAULT_FORM = 'Pkkik'
WINDOW_FORMS = {'i': int, 'I': np.int64, 'j': np.int32, 'f': float, 'F': np.float64, 'x': lambda w: (w / 30000) * 30000}
FORM_CHOICES = ['Ps', 'kp', 'kp', 'iIjfFx', 'kp']


def gen_form(rng):
    return ''.join(c[int(rng.integers(0, len(c)))] for c in FORM_CHOICES)


class Injected(Exception):
    """the environment's exception"""


class DeadReader(Exception):
    """stands for the interpreter dying on a read through a closed np.memmap"""


# ---------------------------------------------------------------------------------------------
# recordings
# ---------------------------------------------------------------------------------------------
def _shank_of_channels(meta_text):
    """Own parse of snsShankMap: shank index of every saved AP channel (independent of spikeglx)."""
    m = re.search(r'^~?snsShankMap=(.*)$', meta_text, re.M).group(1)
    return np.array([int(a) for a, _, _, _ in re.findall(r'\((\d+):(\d+):(\d+):(\d+)\)', m)])


class Rec:
    """One tiny recording + everything expected of its conversion."""
    _cache = {}

    def __init__(self, kind, n, ns, w, ov, hdr=None, trail=0, seed=0, sel=None):
        """ns: complete frames on disk; hdr: frames the .meta announces (fileSizeBytes / fileTimeSecs; default ns);
        trail: bytes of a partial frame after the last complete one (original .bin only); sel: the shank ids handed to
        init_params(nshank=[…]) (None: the argument is not given; NP2.4 only)"""
        hdr = ns if hdr is None else hdr
        self.kind, self.n, self.ns, self.w, self.ov, self.hdr, self.trail = kind, n, ns, w, ov, hdr, trail
        self.sel = None if (sel is None or kind != 'np24') else tuple(int(i) for i in sel)
        self.shanks = list(self.sel) if self.sel is not None else list(range(n))      # the shanks a run converts, in order
        self.nsel = len(self.shanks)
        self.partial = kind == 'np24' and self.nsel < n
        folder = {'np24': 'NP24_meta', 'np21': 'NP21_meta', 'np1': 'NP1_meta'}[kind]
        text = (FX / folder / f'{STEM}.ap.meta').read_text()
        if kind == 'np24':   # fold the four shanks of the fixture onto n shanks
            def fold(mm):
                return '(' + str(min(int(mm.group(1)), n - 1)) + ':' + mm.group(2) + ')'
            head, body = re.search(r'^(~?snsShankMap=\([^)]*\))(.*)$', text, re.M).groups()
            text = text.replace(head + body, head + re.sub(r'\((\d+):(\d+:\d+:\d+)\)', fold, body))
        fs = float(re.search(r'^imSampRate=(.*)$', text, re.M).group(1))
        text = re.sub(r'^fileSizeBytes=.*$', f'fileSizeBytes={hdr * NCH * 2}', text, flags=re.M)
        text = re.sub(r'^fileTimeSecs=.*$', f'fileTimeSecs={hdr / fs!r}', text, flags=re.M)
        self.meta_text = text
        rng = np.random.default_rng([seed, ns, n])
        dat = rng.integers(-300, 300, size=(ns, NCH)).astype(np.int16)
        dat[:, -1] = (rng.integers(0, 2, size=ns) * 64).astype(np.int16)
        self.data = dat
        self.bytes = dat.tobytes()                      # the samples: complete frames
        self.disk_bytes = self.bytes + bytes((i * 37 + 1) % 256 for i in range(trail))     # what the original .bin holds
        self.sha = hashlib.sha1(self.bytes).hexdigest()
        self.disk_sha = hashlib.sha1(self.disk_bytes).hexdigest()
        sh = _shank_of_channels(text)
        self.chns = [np.r_[np.where(sh == i)[0], NCH - 1] for i in range(n)] if kind == 'np24' else [np.arange(NCH)]
        self.ap_expected = [dat[:, c].tobytes() for c in self.chns]
        self._cbin = None
        self._ref = None

    @classmethod
    def get(cls, kind, n, ns, w, ov, hdr=None, trail=0, sel=None):
        key = (kind, n, ns, w, ov, ns if hdr is None else hdr, trail, None if sel is None else tuple(sel))
        if key not in cls._cache:
            cls._cache[key] = cls(kind, n, ns, w, ov, hdr, trail, sel=sel)
        return cls._cache[key]

    @classmethod
    def of(cls, cfg):
        return cls.get(cfg['kind'], cfg['n'], cfg['ns'], cfg['w'], cfg['ov'], cfg.get('hdr'), cfg.get('trail', 0), cfg.get('sel'))

    # sizes of partially written files (own derivation: window k keeps [first + ov/2, first + w - ov/2), first window from 0)
    def nwin(self):
        from ibldsp.utils import WindowGenerator
        return int(WindowGenerator(self.ns, self.w, self.ov).nwin)

    def kept_window(self, row):
        """index of the processing window whose kept range [first + ov/2 (0 for the first), first + w - ov/2 (ns for the
        last)) contains `row`; nwin when the row does not exist"""
        nw = self.nwin()
        for k in range(nw):
            first = k * (self.w - self.ov)
            lo = 0 if k == 0 else first + self.ov // 2
            hi = self.ns if k == nw - 1 else first + self.w - self.ov // 2
            if lo <= row < hi:
                return k
        return nw

    def rows_after(self, k, ratio):
        if k == 0:
            return 0
        return ((k - 1) * (self.w - self.ov) + self.w - self.ov // 2) // ratio

    def cbin_files(self):
        """the original compressed with mtscomp directly (not through the code under test)"""
        if self._cbin is None:
            import mtscomp
            d = Path(tempfile.mkdtemp(prefix='c04c_'))
            try:
                (d / 'x.bin').write_bytes(self.bytes)
                fs = float(re.search(r'^imSampRate=(.*)$', self.meta_text, re.M).group(1))
                with contextlib.redirect_stderr(io.StringIO()):
                    mtscomp.compress(d / 'x.bin', out=d / 'x.cbin', outmeta=d / 'x.ch', sample_rate=fs, n_channels=NCH,
                                     dtype=np.int16)
                self._cbin = ((d / 'x.cbin').read_bytes(), (d / 'x.ch').read_bytes())
            finally:
                shutil.rmtree(d, ignore_errors=True)
        return self._cbin

    def materialise(self, root, orig):
        orig, _, pre = orig.partition('@')
        for i in range(int(pre or 0)):      # '@k': the first k shank folders pre-exist, empty (finding partial-folders-rerun)
            (root / ('probe00' + chr(97 + i))).mkdir(parents=True)
        d = root / 'probe00'
        d.mkdir(parents=True)
        (d / f'{STEM}.ap.meta').write_text(self.meta_text)
        if orig == 'bin':
            (d / f'{STEM}.ap.bin').write_bytes(self.disk_bytes)
        else:
            cb, ch = self.cbin_files()
            (d / f'{STEM}.ap.cbin').write_bytes(cb)
            (d / f'{STEM}.ap.ch').write_bytes(ch)

    def reference(self):
        """LF bytes and metadata texts of an uninterrupted uncompressed run (reference for `validity`)."""
        if self._ref is None:
            root = Path(tempfile.mkdtemp(prefix='c04r_'))
            try:
                self.materialise(root, 'bin')
                call = dict(pc=0, cp=0, dl=0, ow=0, sh=0, int=None, cor=None, form=None)
                res = do_call(root, self, call)
                ref = {'result': res, 'lf': {}, 'meta': {}}
                for i, d in zip(self.shanks if self.kind == 'np24' else [0], self.out_dirs(root)):
                    for et in ('ap', 'lf'):
                        p = d / f'{STEM}.{et}.bin'
                        if et == 'lf' and p.exists():
                            ref['lf'][i] = p.read_bytes()
                        p = d / f'{STEM}.{et}.meta'
                        if p.exists() and not (self.kind != 'np24' and et == 'ap'):
                            ref['meta'][(i, et)] = p.read_text()
                self._ref = ref
            finally:
                shutil.rmtree(root, ignore_errors=True)
        return self._ref

    def out_dirs(self, root):
        if self.kind == 'np24':
            return [root / ('probe00' + chr(97 + i)) for i in self.shanks]
        return [root / 'probe00']


# ---------------------------------------------------------------------------------------------
# running one call on the real code with fault injection
# ---------------------------------------------------------------------------------------------
@contextlib.contextmanager
def faults(point, corrupt):
    """point: None | ('s', j) | ('m', j) | ('v', k) | ('c', j) | ('d',) | ('g', k); corrupt: None | (shank index, row).
    ('g', k): the environment raises at the k-th hook the run passes, whatever its kind.  Hooks, in the model's letters
    (Converter.Eff.hook): s = a _split2shanks call, m = a write_meta_data call, v = a Reader.read inside check_NP24, b = entry of
    a Reader.compress_file call, c = inside it once .cbin_tmp exists (the harness creates the file, as for ('c', j)), C = after it
    returned and before the caller unlinks the .bin (not for the NP2.1 original, whose replacement is one effect of the model),
    d = the delete_NP24 call.  The hooks a call passes are recorded in cnt['trace'] in any mode."""
    import mtscomp
    import neuropixel
    import spikeglx
    C = neuropixel.NP2Converter
    # external dependency, not the code under test: one compression thread instead of a pool of cpu_count() threads per file
    o_config = mtscomp.DEFAULT_CONFIG
    mtscomp.DEFAULT_CONFIG = [(k, 1 if k == 'n_threads' else v) for k, v in o_config]
    cnt = {'s': 0, 'm': 0, 'v': 0, 'c': 0, 'aprows': 0, 'in_check': False, 'trace': []}

    def hit(kind):
        """record the hook; True when the environment raises here (global hook index)"""
        k = len(cnt['trace'])
        cnt['trace'].append(kind)
        return point == ('g', k)
    o_split, o_check, o_delete = C._split2shanks, C.check_NP24, C.delete_NP24
    o_wmd, o_read, o_comp = spikeglx.write_meta_data, spikeglx.Reader.read, spikeglx.Reader.compress_file

    def split2shanks(self, chunk, etype='ap'):
        j = cnt['s']
        cnt['s'] += 1
        if hit('s') or point == ('s', j):
            raise Injected()
        if corrupt is not None and etype == 'ap' and self.np_version == 'NP2.4':
            r0 = cnt['aprows']          # the ap chunks handed over are the kept rows, in order: row index = sample index
            cnt['aprows'] += chunk.shape[0]
            key = f'shank{corrupt[0]}'
            if r0 <= corrupt[1] < cnt['aprows'] and key in self.shank_info:
                chunk = chunk.copy()
                chunk[corrupt[1] - r0, self.shank_info[key]['chns'][0]] ^= 1
        return o_split(self, chunk, etype=etype)

    def write_meta_data(md, md_file):
        j = cnt['m']
        cnt['m'] += 1
        if hit('m') or point == ('m', j):
            raise Injected()
        return o_wmd(md, md_file)

    def check_NP24(self):
        cnt['in_check'] = True
        try:
            return o_check(self)
        finally:
            cnt['in_check'] = False

    def read(self, *a, **kw):
        mm = getattr(getattr(self, '_raw', None), '_mmap', None)
        if mm is not None and mm.closed:
            # reading the np.memmap of a reader that was closed is a segmentation fault: the harness turns it into an exception
            # raised at the same point (the model's `crash`); the real crash is demonstrated in a subprocess by known_findings
            raise DeadReader()
        if cnt['in_check']:
            k = cnt['v']
            cnt['v'] += 1
            if hit('v') or point == ('v', k):
                raise Injected()
        return o_read(self, *a, **kw)

    def compress_file(self, *a, **kw):
        j = cnt['c']
        cnt['c'] += 1
        fb = Path(self.file_bin)
        is_orig = fb.parent.name == 'probe00' and '.ap.' in fb.name
        if hit('b'):
            raise Injected()
        if hit('c') or point == ('c', j):
            self.file_bin.with_suffix('.cbin_tmp').write_bytes(b'interrupted')
            raise Injected()
        r = o_comp(self, *a, **kw)
        if not is_orig and hit('C'):
            raise Injected()
        return r

    def delete_NP24(self):
        if hit('d') or point == ('d',):
            raise Injected()
        return o_delete(self)

    C._split2shanks, C.check_NP24, C.delete_NP24 = split2shanks, check_NP24, delete_NP24
    spikeglx.write_meta_data, spikeglx.Reader.read, spikeglx.Reader.compress_file = write_meta_data, read, compress_file
    try:
        yield cnt
    finally:
        C._split2shanks, C.check_NP24, C.delete_NP24 = o_split, o_check, o_delete
        spikeglx.write_meta_data, spikeglx.Reader.read, spikeglx.Reader.compress_file = o_wmd, o_read, o_comp
        mtscomp.DEFAULT_CONFIG = o_config


def target_file(root, call, rec=None):
    first = 0 if rec is None else rec.shanks[0]
    d = root / (('probe00' + chr(97 + first)) if call['sh'] else 'probe00')
    f = d / f'{STEM}.ap.bin'
    if not f.exists() and f.with_suffix('.cbin').exists():
        f = f.with_suffix('.cbin')
    return f


def do_call(root, rec, call, holder=None):
    """One step of a history on the real code under the call's faults: NP2Converter(...).process(overwrite), or -- call['ru'] --
    process(overwrite) again on the converter object kept in `holder` from the previous step.  Returns the canonical result
    token; `holder['conv']` is the live object afterwards (None when the constructor failed)."""
    import neuropixel
    own = holder is None
    holder = {} if holder is None else holder
    prev = logging.root.manager.disable
    logging.disable(logging.CRITICAL)
    try:
        with contextlib.redirect_stderr(io.StringIO()), faults(call['int'], call['cor']) as cnt:
            holder['trace'] = cnt['trace']
            if call.get('ru'):
                conv = holder.get('conv')
                if conv is None:
                    return 'raise:outOfScope'       # nothing to call again: not an input of the property
            else:
                old = holder.pop('conv', None)
                if old is not None:
                    _close_all(old)
                    del old
                    gc.collect()
                form = call.get('form') or DEFAULT_FORM
                f = target_file(root, call, rec)
                f = str(f) if form[0] == 's' else f
                try:
                    if form[1] == 'p':      # positional, in the order of the documented signature
                        conv = neuropixel.NP2Converter(f, bool(call['pc']), bool(call['dl']), bool(call['cp']))
                    else:
                        conv = neuropixel.NP2Converter(f, post_check=bool(call['pc']), delete_original=bool(call['dl']),
                                                       compress=bool(call['cp']))
                except FileNotFoundError:
                    return 'raise:noOriginal'
                w = WINDOW_FORMS[form[3]](rec.w)
                if rec.sel is not None:     # a shank selection ("for testing purposes"): the shanks to convert
                    if form[2] == 'p':      # init_params(nsamples, nwindow, extra, nshank)
                        conv.init_params(None, w, None, list(rec.sel))
                    else:
                        conv.init_params(nwindow=w, nshank=list(rec.sel))
                elif form[2] == 'p':
                    conv.init_params(None, w)
                else:
                    conv.init_params(nwindow=w)
                holder['conv'] = conv
            try:
                if (call.get('form') or DEFAULT_FORM)[4] == 'p':
                    st = conv.process(bool(call['ow']))
                else:
                    st = conv.process(overwrite=bool(call['ow']))
                res = f'ret{int(st)}'
            except Injected:
                res = 'raise:injected'
            except DeadReader:
                res = 'raise:crash'
            except ValueError as e:
                res = 'raise:valueError' if 'is incompatible with the specified parameters' in str(e) \
                    else f'raise:ValueError({str(e).replace(str(root), "<root>")[:80]})'
            except AssertionError as e:
                res = 'raise:assertion' if 'do no match' in str(e) else f'raise:AssertionError({str(e)[:60]})'
            except FileNotFoundError as e:
                # delete_NP24 unlinking a file this object has already unlinked is `fileNotFound` in the model; any other one keeps its text
                res = 'raise:fileNotFound' if (call.get('ru') and 'ap.' in str(e) and 'probe00/' in str(e).replace(str(root), '')) \
                    else f'raise:FileNotFoundError({str(e).replace(str(root), "<root>")[:80]})'
            except Exception as e:  # anything else is an observable of its own
                res = f'raise:{type(e).__name__}({str(e).replace(str(root), "<root>")[:80]})'
    finally:
        logging.disable(prev)
        conv = None
        if own and holder.get('conv') is not None:
            _close_all(holder.pop('conv'))
        gc.collect()
    return res


def obj_token(holder):
    """check_completed / already_exists of the live converter object (the model's `Obj`), '-' when there is none"""
    conv = holder.get('conv')
    if conv is None:
        return '-'
    return f"{int(bool(getattr(conv, 'check_completed', False)))}{int(bool(getattr(conv, 'already_exists', False)))}"


def _close_all(conv):
    try:
        conv.sr.close()
    except Exception:
        pass
    for info in getattr(conv, 'shank_info', {}).values() if isinstance(getattr(conv, 'shank_info', None), dict) else []:
        for k, v in list(info.items()):
            try:
                if k.endswith('open_file'):
                    v.close()
                elif k == 'sr':
                    v.close()
            except Exception:
                pass


# ---------------------------------------------------------------------------------------------
# abstraction of the real disk to the model's state (same token format as lean/Drivers/C04.lean)
# ---------------------------------------------------------------------------------------------
def _decode_cbin(cbin, ch):
    import mtscomp
    r = mtscomp.Reader()
    try:
        r.open(cbin, ch)
        return np.asarray(r[:]).tobytes()
    finally:
        try:
            r.close()
        except Exception:
            pass


def _fileset(d, et, expected, meta_ref, rec, nchan, ratio, seen):
    base = d / f'{STEM}.{et}'
    names = {s: Path(str(base) + s) for s in ('.bin', '.cbin', '.ch', '.cbin_tmp', '.meta')}
    for p in names.values():
        seen.add(p)
    # .bin
    p = names['.bin']
    if not p.exists():
        b = 'a'
    else:
        raw = p.read_bytes()
        if expected is not None and raw == expected:
            b = 'wg'
        elif expected is not None and len(raw) == len(expected):
            b = 'wb'
        else:
            b = f'junk{len(raw)}'
            for k in range(0, rec.nwin()):
                if len(raw) == rec.rows_after(k, ratio) * nchan * 2:
                    b = f'p{k}' if expected is None or expected.startswith(raw) else f'p{k}b'
                    break
    # .cbin
    p = names['.cbin']
    if not p.exists():
        c = 'n'
    elif not names['.ch'].exists():
        c = 'noch'
    else:
        try:
            raw = _decode_cbin(p, names['.ch'])
            c = 'g' if raw == expected else ('b' if expected is not None and len(raw) == len(expected) else f'len{len(raw)}')
        except Exception as e:
            c = f'unreadable({type(e).__name__})'
    m = names['.meta']
    md = '0' if not m.exists() else ('1' if meta_ref is not None and m.read_text() == meta_ref else 'X')
    return f"{b},{c},{int(names['.ch'].exists())}{int(names['.cbin_tmp'].exists())}{md}"


def abstract(root, rec):
    ref = rec.reference()
    seen = set()
    d0 = root / 'probe00'
    ob, oc = d0 / f'{STEM}.ap.bin', d0 / f'{STEM}.ap.cbin'
    och, otmp, ometa = d0 / f'{STEM}.ap.ch', d0 / f'{STEM}.ap.cbin_tmp', d0 / f'{STEM}.ap.meta'
    seen.update([ob, oc, och, otmp, ometa])
    if ob.exists() and oc.exists():
        o = 'both'
    elif ob.exists():
        o = 'bin' if hashlib.sha1(ob.read_bytes()).hexdigest() == rec.disk_sha else 'binALTERED'
    elif oc.exists():
        try:
            o = 'cbin' if och.exists() and hashlib.sha1(_decode_cbin(oc, och)).hexdigest() == rec.sha else 'cbinALTERED'
        except Exception:
            o = 'cbinUNREADABLE'
    else:
        o = 'absent'
    if not ometa.exists() or ometa.read_text() != rec.meta_text:
        o += '+metaALTERED'
    toks = []
    for i in (rec.shanks if rec.kind == 'np24' else range(rec.n)):      # the folders of the shanks the run converts, in order
        if rec.kind != 'np24':
            toks.append('-')
            continue
        d = root / ('probe00' + chr(97 + i))
        if not d.exists():
            toks.append('-')
            continue
        nchan = len(rec.chns[i])
        toks.append(_fileset(d, 'ap', rec.ap_expected[i], ref['meta'].get((i, 'ap')), rec, nchan, 1, seen) + '/' +
                    _fileset(d, 'lf', ref['lf'].get(i), ref['meta'].get((i, 'lf')), rec, nchan, RATIO, seen))
    if rec.kind == 'np21':
        lf = _fileset(d0, 'lf', ref['lf'].get(0), ref['meta'].get((0, 'lf')), rec, NCH, RATIO, seen)
    else:
        lf = _fileset(d0, 'lf', None, None, rec, NCH, RATIO, seen)
    extra = sorted(str(p.relative_to(root)) for p in root.rglob('*') if p.is_file() and p not in seen)
    s = f"o={o},{int(och.exists())}{int(otmp.exists())}|" + '|'.join(toks) + '|lf=' + lf
    if extra:
        s += '|extra=' + ';'.join(extra)
    return s


def snapshot(root):
    return {str(p.relative_to(root)): hashlib.sha1(p.read_bytes()).hexdigest() if p.is_file() else 'dir'
            for p in sorted(root.rglob('*'))}


# ---------------------------------------------------------------------------------------------
# the property, stated directly on the disk (independent of the model)
# ---------------------------------------------------------------------------------------------
def _read_kv(path):
    out = {}
    for line in Path(path).read_text().splitlines():
        if '=' in line:
            k, v = line.split('=', 1)
            out[k.lstrip('~')] = v
    return out


def _parse_subset(s):
    cols = []
    for part in s.split(','):
        if ':' in part:
            a, b = part.split(':')
            cols.extend(range(int(a), int(b) + 1))
        else:
            cols.append(int(part))
    return cols


def _read_stream(d, et):
    """(array, meta dict) of the ap/lf stream in folder d read from .bin, else .cbin; None when unreadable"""
    base = d / f'{STEM}.{et}'
    mp = Path(str(base) + '.meta')
    if not mp.exists():
        return None
    md = _read_kv(mp)
    try:
        nch = int(float(md['nSavedChans']))
        b, c, ch = Path(str(base) + '.bin'), Path(str(base) + '.cbin'), Path(str(base) + '.ch')
        if b.exists():
            raw = b.read_bytes()
        elif c.exists() and ch.exists():
            raw = _decode_cbin(c, ch)
        else:
            return None
        if len(raw) % (2 * nch):
            return None
        return np.frombuffer(raw, dtype=np.int16).reshape(-1, nch), md
    except Exception:
        return None


def recoverable(root, rec):
    """None when the original's bytes can be recovered from the disk alone, else why not."""
    d0 = root / 'probe00'
    ob, oc, och = d0 / f'{STEM}.ap.bin', d0 / f'{STEM}.ap.cbin', d0 / f'{STEM}.ap.ch'
    mp = d0 / f'{STEM}.ap.meta'
    if not mp.exists() or mp.read_text() != rec.meta_text:
        return 'the original metadata file was altered or removed'
    if ob.exists():
        if hashlib.sha1(ob.read_bytes()).hexdigest() == rec.disk_sha:
            return None
        return 'the original .bin is present with other bytes'
    if oc.exists() and och.exists():
        try:
            if hashlib.sha1(_decode_cbin(oc, och)).hexdigest() == rec.sha:
                return None
        except Exception:
            pass
        return 'the original .cbin does not decode to the original bytes'
    if rec.kind != 'np24':
        return 'the original data file is gone and there is no split output to rebuild it from'
    full = np.zeros((rec.ns, NCH), dtype=np.int16)
    filled = np.zeros(NCH, dtype=bool)
    for i in range(rec.n):
        r = _read_stream(root / ('probe00' + chr(97 + i)), 'ap')
        if r is None:
            return f'the original data file is gone and shank {i} has no readable ap file + metadata'
        arr, md = r
        try:
            cols = _parse_subset(md['snsSaveChanSubset_orig'])
        except Exception:
            return f'the original data file is gone and shank {i} metadata does not name its original channels'
        if arr.shape != (rec.ns, len(cols)):
            return f'the original data file is gone and shank {i} ap file has shape {arr.shape}, not {(rec.ns, len(cols))}'
        take = [j for j, c in enumerate(cols) if not filled[c]]
        full[:, [cols[j] for j in take]] = arr[:, take]
        filled[[cols[j] for j in take]] = True
    if not filled.all():
        return 'the original data file is gone and the shank files do not cover every channel'
    if full.tobytes() != rec.bytes:
        bad = np.argwhere(full != rec.data)[0]
        return (f'the original data file is gone and the shank files reassemble to different samples '
                f'(first difference at sample {int(bad[0])}, channel {int(bad[1])})')
    return None


def complete_valid(root, rec, compress, check_lf=True):
    """None when the per-shank output is complete and valid, else why not."""
    for i, d in zip(rec.shanks if rec.kind == 'np24' else [0], rec.out_dirs(root)):
        for et in ('ap', 'lf'):
            if rec.kind != 'np24' and et == 'ap':
                continue
            base = d / f'{STEM}.{et}'
            b, c, ch = Path(str(base) + '.bin'), Path(str(base) + '.cbin'), Path(str(base) + '.ch')
            if compress and (b.exists() or not c.exists() or not ch.exists()):
                return f'shank {i} {et}: compress=True but .bin present={b.exists()} .cbin present={c.exists()} .ch present={ch.exists()}'
            if not compress and not b.exists():
                return f'shank {i} {et}: no .bin file'
            r = _read_stream(d, et)
            if r is None:
                return f'shank {i} {et}: data file or metadata missing / unreadable'
            arr, md = r
            cols = rec.chns[i]
            if et == 'ap':
                if arr.shape != (rec.ns, len(cols)) or not np.array_equal(arr, rec.data[:, cols]):
                    return f'shank {i} ap: samples differ from the original columns of that shank'
            else:
                nlf = -(-rec.ns // RATIO)
                if arr.shape != (nlf, len(cols)):
                    return f'shank {i} lf: shape {arr.shape}, expected {(nlf, len(cols))}'
                if not np.array_equal(arr[:, -1], rec.data[::RATIO, -1]):
                    return f'shank {i} lf: sync column is not the original sync decimated by {RATIO}'
                ref_lf = rec.reference()['lf'].get(i)
                if check_lf and ref_lf is not None and arr.tobytes() != ref_lf:
                    return (f'shank {i} lf: samples differ from the lf file a first run on a new converter object writes '
                            f'for the same recording')
            want = {'original_meta': 'False', 'nSavedChans': str(len(cols))}
            if rec.kind == 'np24':
                want['NP2.4_shank'] = str(i)
            else:
                want['NP2.1_shank'] = '0'
            for k, v in want.items():
                if md.get(k) != v:
                    return f'shank {i} {et} metadata: {k}={md.get(k)!r}, expected {v!r}'
            if int(float(md.get('fileSizeBytes', -1))) != arr.size * 2:
                return f'shank {i} {et} metadata: fileSizeBytes={md.get("fileSizeBytes")} but the data holds {arr.size * 2} bytes'
    return None


def output_exists(root, rec):
    if rec.kind == 'np24':
        return all(d.exists() for d in rec.out_dirs(root))
    if rec.kind == 'np21':
        return (root / 'probe00' / f'{STEM}.lf.bin').exists() or (root / 'probe00' / f'{STEM}.lf.cbin').exists()
    return False


def no_output(root, rec):
    if rec.kind == 'np24':
        return not any(d.exists() for d in rec.out_dirs(root))
    return not output_exists(root, rec)


def orig_present(root):
    d0 = root / 'probe00'
    return (d0 / f'{STEM}.ap.bin').exists() or ((d0 / f'{STEM}.ap.cbin').exists() and (d0 / f'{STEM}.ap.ch').exists())


def effective_fault(rec, call):
    return call['int'] is not None or (call['cor'] is not None and rec.kind == 'np24' and call['cor'][0] in rec.shanks
                                       and call['cor'][1] < rec.ns)


def oracle_step(root, rec, call, pre, res):
    """C04 stated on the disk after one call.  `pre` = facts recorded before the call.  None when it holds."""
    why = recoverable(root, rec)
    if why:
        return why
    if res == 'raise:outOfScope':
        return None     # process() "again" without a converter object: not an input of the property
    if call['sh'] and not call.get('ru') and not (rec.kind == 'np24' and pre['target_complete']):
        return None     # not an input of the property: there is no complete split shank file to point the converter at
    had, has = pre['orig_present'], orig_present(root)
    if had and not has:
        if not (rec.kind == 'np24' and call['pc'] and call['dl'] and res == 'ret1'):
            return (f'the original data file was removed by a run with post_check={bool(call["pc"])}, '
                    f'delete_original={bool(call["dl"])} that ended with {res}')
    if not had:
        if call['sh']:
            pass
        elif call.get('ru') and rec.kind == 'np24':
            # the object that verified and deleted the original is asked again (with or without overwrite): nothing to do
            if res != 'ret0' or snapshot(root) != pre['snap']:
                return (f'process(overwrite={bool(call["ow"])}) on the object that already deleted the original ended with {res}'
                        + (' and changed the disk' if snapshot(root) != pre['snap'] else '') + ', expected status 0 and no change')
            return None
        elif res != 'raise:noOriginal' or snapshot(root) != pre['snap']:
            return f'a call without an original ended with {res} / changed the disk'
        else:
            return None
    if call['sh'] or rec.kind == 'np1':
        want = 'ret0' if call['sh'] else 'ret-1'
        if res != want:
            return f'{"already split shank" if call["sh"] else "not an NP2 probe"}: process returned {res}, expected {want}'
        if snapshot(root) != pre['snap']:
            return f'{"already split shank" if call["sh"] else "not an NP2 probe"}: the run changed the disk'
        return None
    if not call['ow'] and pre['output_exists']:
        if res != 'ret0':
            return f'repeated run without overwrite ended with {res}, expected status 0'
        snap = snapshot(root)
        if snap != pre['snap']:
            diff = sorted(set(snap.items()) ^ set(pre['snap'].items()))
            return f'repeated run without overwrite changed the disk: {[k for k, _ in diff][:4]}'
        return None
    if rec.kind == 'np21' and rec.trail and call['cp'] and pre['orig_bin'] and res == 'raise:valueError':
        return None     # known finding np21-trailing-bytes-compress: mtscomp refuses an original that ends with a partial frame
    if rec.partial and call['pc'] and res == 'raise:assertion':
        # a proper subset of the shanks (init_params(nshank=[…]), "for testing purposes") with post_check: the verification compares
        # the whole original with a buffer that lacks the other shanks and cannot pass; the original being kept was checked above
        return None
    if not effective_fault(rec, call) and (call['ow'] or pre['no_output']):
        if res != 'ret1':
            return f'{"forced re-run" if call["ow"] else "first run"} without any fault ended with {res}, expected status 1'
        why = complete_valid(root, rec, bool(call['cp']))
        if why:
            return f'{"forced re-run" if call["ow"] else "first run"} did not end with a complete valid set: {why}'
    if res.startswith('raise:') and res not in ('raise:injected', 'raise:assertion', 'raise:noOriginal'):
        if not effective_fault(rec, call):
            return f'a run without any fault raised {res[6:]}'
    return None


def facts_before(root, rec):
    return {'orig_present': orig_present(root), 'orig_bin': (root / 'probe00' / f'{STEM}.ap.bin').exists(),
            'output_exists': output_exists(root, rec), 'no_output': no_output(root, rec),
            'snap': snapshot(root)}


# ---------------------------------------------------------------------------------------------
# histories
# ---------------------------------------------------------------------------------------------
def call_token(c):
    i = c['int']
    it = '-' if i is None else ('d' if i[0] == 'd' else f'{i[0]}{i[1]}')
    tok = f"{c['pc']}{c['cp']}{c['dl']}{c['ow']}{c['sh']}{c.get('ru', 0)}:{it}:{'-' if c['cor'] is None else '%d@%d' % c['cor']}"
    return tok + (':' + c['form'] if c.get('form') and c['form'] != DEFAULT_FORM else '')


def lean_call_token(rec, c):
    """the same call for the model: the altered sample is named by (shank, processing window that keeps its row,
    verification window that reads it) -- own derivation of the two window indices from the row"""
    tok = ':'.join(call_token(c).split(':')[:3])     # the form of a call is not an input of the model
    if c['cor'] is None:
        return tok
    sh, row = c['cor']
    pos = rec.shanks.index(sh) if sh in rec.shanks else rec.nsel       # the model counts the converted shanks
    return tok.rsplit(':', 1)[0] + f':{pos}.{rec.kept_window(row)}.{row // rec.w}'


def parse_call(tok):
    parts = tok.split(':')
    b, i, c = parts[:3]
    form = parts[3] if len(parts) > 3 else None
    it = None if i == '-' else (('d',) if i == 'd' else (i[0], int(i[1:])))
    return dict(pc=int(b[0]), cp=int(b[1]), dl=int(b[2]), ow=int(b[3]), sh=int(b[4]), ru=int(b[5]) if len(b) > 5 else 0, int=it, cor=None if c == '-' else tuple(int(x) for x in c.split('@')), form=form)


def cfg_tokens(cfg):
    ns = str(cfg['ns'])
    if cfg.get('hdr') is not None and cfg['hdr'] != cfg['ns']:
        ns += f"h{cfg['hdr']}"
    if cfg.get('trail'):
        ns += 't'
    n = str(cfg['n'])
    if cfg.get('sel') is not None and cfg['kind'] == 'np24':     # the shanks converted; p: a proper subset of the probe's shanks
        n = str(len(cfg['sel'])) + ('p' if len(cfg['sel']) < cfg['n'] else '')
    return f"{cfg['kind']} {n} {ns} {cfg['w']} {cfg['ov']} {cfg['orig']}"


def target_complete(state_tok):
    """shank 0's ap file (+ .meta) is complete, read off the abstract state"""
    sh0 = state_tok.split('|')[1]
    if sh0 == '-':
        return False
    b, c, bits = sh0.split('/')[0].split(',')
    return bits[2] == '1' and (b in ('wg', 'wb') or (b == 'a' and c in ('g', 'b') and bits[0] == '1'))


def pick_index(rng, tot):
    r = rng.integers(0, 5)
    if r == 0:
        return 0
    if r == 1:
        return max(tot - 1, 0)
    if r == 2:
        return tot          # one past the last call: does not fire
    return int(rng.integers(0, tot + 1))


def gen_call(rng, rec, state_tok, holder=None):
    n, nw = rec.nsel, rec.nwin()
    nver = -(-rec.ns // rec.w)
    c = dict(pc=int(rng.integers(0, 2)), cp=int(rng.integers(0, 2)), dl=int(rng.integers(0, 2)), ow=int(rng.integers(0, 2)),
             sh=0, int=None, cor=None)
    if rng.random() < 0.25:     # the defaults of the constructor
        c.update(pc=1, cp=1, dl=0)
    if rng.random() < 0.55:
        if rec.kind == 'np24':
            kinds = ['s', 's', 'm', 'v', 'c', 'c', 'd']
            tot = {'s': 2 * nw, 'm': 2 * n, 'v': nver * (1 + n), 'c': 2 * n}
        else:
            kinds = ['s', 's', 'm', 'c', 'c', 'v', 'd']
            tot = {'s': nw, 'm': 1, 'v': 1, 'c': 2}
        k = kinds[int(rng.integers(0, len(kinds)))]
        c['int'] = ('d',) if k == 'd' else (k, pick_index(rng, tot[k]))
        if k in ('v',) and rng.random() < 0.7:
            c['pc'] = 1
        if k in ('c',) and rng.random() < 0.7:
            c['cp'] = 1
        if k == 'd' and rng.random() < 0.7:
            c['dl'] = 1
        if rng.random() < 0.6:      # let the run get as far as the interruption point
            c['ow'] = 1
    if rec.kind == 'np24':
        if rng.random() < 0.18:
            nv = -(-rec.ns // rec.w)
            pos = ['first', 'middle', 'last'][int(rng.integers(0, 3))]
            kv = 0 if pos == 'first' else (nv - 1 if pos == 'last' else int(rng.integers(0, nv)))
            lo, hi = kv * rec.w, min((kv + 1) * rec.w, rec.ns)
            row = [lo, hi - 1, int(rng.integers(lo, hi))][int(rng.integers(0, 3))]
            j = int(rng.integers(0, n + 1))
            c['cor'] = (rec.shanks[j] if j < n else rec.n, row)      # shank id rec.n: no such shank, ineffective
            if rng.random() < 0.6:
                c['pc'] = 1
        if target_complete(state_tok) and rng.random() < 0.12:
            c['sh'] = 1
    c['ru'] = 0
    c['form'] = gen_form(rng) if rng.random() < 0.6 else None
    if holder is not None and holder.get('conv') is not None and rng.random() < 0.5:
        # the same converter object once more (its own options)
        c['ru'] = 1
        c.update(holder['opts'])
    return c


def run_history(rec, orig, calls=None, rng=None, length=0, oracle=True, traces=None):
    """Execute a history on the real code.  Either `calls` (list of call dicts) or (`rng`, `length`): generated on line.
    Returns (calls, [result@state#object tokens], [oracle verdicts]).  A reused call carries the options of its object."""
    root = Path(tempfile.mkdtemp(prefix='c04_'))
    out_calls, toks, verdicts = [], [], []
    holder = {}
    try:
        rec.materialise(root, orig)
        state = abstract(root, rec)
        k = 0
        while True:
            if calls is not None:
                if k >= len(calls):
                    break
                call = dict(calls[k])
            else:
                if k >= length:
                    break
                call = gen_call(rng, rec, state, holder)
            k += 1
            if call.get('ru') and holder.get('conv') is not None:
                call.update(holder['opts'])
            pre = facts_before(root, rec) if oracle else None
            if pre is not None:
                pre['target_complete'] = target_complete(state)
            res = do_call(root, rec, call, holder)
            if traces is not None:
                traces.append(''.join(holder.get('trace') or []))
            if not call.get('ru'):
                holder['opts'] = dict(pc=call['pc'], cp=call['cp'], dl=call['dl'], sh=call['sh'])
            state = abstract(root, rec)
            out_calls.append(call)
            toks.append(res + '@' + state + '#' + obj_token(holder))
            verdicts.append(oracle_step(root, rec, call, pre, res) if oracle else None)
    finally:
        if holder.get('conv') is not None:
            _close_all(holder.pop('conv'))
        gc.collect()
        shutil.rmtree(root, ignore_errors=True)
    return out_calls, toks, verdicts


# (ns, window): 1, 2, 2, 2, 3, 3, 4, 2, 1 verification windows (check_NP24 uses overlap 0) and 1..5 processing windows
CONFIGS_NS = [(700, 1200), (1500, 1200), (1824, 1200), (2000, 1200), (2500, 1200), (3000, 1200), (3700, 1200), (2400, 1800),
              (600, 1800)]


def gen_cfg(rng, ov):
    r = rng.random()
    kind = 'np24' if r < 0.62 else ('np21' if r < 0.92 else 'np1')
    n = int(rng.integers(1, 5)) if kind == 'np24' else 1
    ns, w = CONFIGS_NS[int(rng.integers(0, len(CONFIGS_NS)))]
    if kind == 'np24' and rng.random() < 0.4:       # spans >= 3 verification windows
        ns, w = [(2500, 1200), (3000, 1200), (3700, 1200)][int(rng.integers(0, 3))]
    cfg = dict(kind=kind, n=n, ns=ns, w=w, ov=ov, orig='bin' if rng.random() < 0.7 else 'cbin')
    r = rng.random()
    if r < 0.18:        # header not finalised: the binary holds MORE frames than the .meta announces
        cfg['hdr'] = [ns - 300, ns * 4 // 5, max(ns // 2, 100), max(ns - 1, 1)][int(rng.integers(0, 4))]
    elif r < 0.28:      # the binary holds FEWER frames than announced (interrupted copy)
        cfg['hdr'] = ns + [1, 300, ns][int(rng.integers(0, 3))]
    if cfg['orig'] == 'bin' and rng.random() < 0.12:     # trailing partial frame
        cfg['trail'] = [1, 77, 769][int(rng.integers(0, 3))]
    if kind == 'np24' and n >= 2 and rng.random() < 0.14:     # init_params(nshank=[…]): one shank, a non-prefix pair, or all of them
        r = rng.random()
        if r < 0.45:
            cfg['sel'] = [int(rng.integers(0, n))]
        elif r < 0.8:
            cfg['sel'] = sorted(int(i) for i in rng.choice(n, size=int(rng.integers(1, n)), replace=False))
        else:
            cfg['sel'] = list(range(n))
    return cfg


def _tags(cfg, calls, toks):
    tags = [cfg['kind'], f'len={len(calls)}', 'orig=' + cfg['orig'].partition('@')[0]]
    toks = [x.split('#')[0] for x in toks]
    if '@' in cfg['orig']:
        tags.append('partial-folders(known finding)')
    hdr = cfg.get('hdr')
    tags.append('header=' + ('consistent' if hdr is None or hdr == cfg['ns'] else 'announces-fewer-frames' if hdr < cfg['ns']
                             else 'announces-more-frames'))
    if cfg.get('trail'):
        tags.append('trailing-partial-frame')
    if cfg.get('sel') is not None:
        tags.append('nshank=' + ('all' if len(cfg['sel']) == cfg['n'] else 'proper-subset'))
    prev_state = None
    prev_res = None
    for c, t in zip(calls, toks):
        res, st = t.split('@', 1)
        tags.append('res=' + res.split('(')[0])
        tags.append('same-object' if c.get('ru') else 'fresh-object')
        fm = c.get('form') or DEFAULT_FORM
        if not c.get('ru'):
            tags += ['path=' + ('str' if fm[0] == 's' else 'Path'), 'ctor=' + ('positional' if fm[1] == 'p' else 'keyword'),
                     'window=' + {'i': 'int', 'I': 'np.int64', 'j': 'np.int32', 'f': 'float', 'F': 'np.float64', 'x': 'float-expr'}[fm[3]]]
        tags.append('process=' + ('positional' if fm[4] == 'p' else 'keyword'))
        if c.get('ru') and st.startswith('o=absent') and prev_state is not None and prev_state.startswith('o=absent'):
            tags.append('same-object-after-its-delete' + ('-forced' if c['ow'] else ''))
        if c.get('ru') and c['ow']:
            tags.append('same-object-forced' + ('-after-interrupt' if prev_res and prev_res.startswith('raise:') else ''))
        tags.append('int=' + ('none' if c['int'] is None else c['int'][0]))
        if c['int'] is not None:
            tags.append('int-fired' if res == 'raise:injected' else 'int-not-fired')
        if c['cor'] is not None:
            tags.append('unfaithful-split')
            nv = -(-cfg['ns'] // cfg['w'])
            kv = c['cor'][1] // cfg['w']
            tags.append('altered-window=' + ('only' if nv == 1 else 'first' if kv == 0 else 'last' if kv == nv - 1 else 'middle'))
            if cfg['kind'] == 'np24' and c['pc'] and c['cor'][0] < cfg['n'] and not cfg.get('sel') and res in ('raise:assertion', 'ret1'):
                tags.append(f'altered+post_check->{res}')
        if c['sh']:
            tags.append('already-split-call')
        if st.startswith('o=absent') and prev_state is not None and not prev_state.startswith('o=absent'):
            tags.append('original-deleted')
        if res == 'ret0' and st == prev_state:
            tags.append('noop-rerun')
        if c['ow'] and res == 'ret1':
            tags.append('forced-rerun-complete')
        prev_state = st
        prev_res = res
    return tags


def _check_constants(ctx, ov):
    """the numbers the model receives are the ones the code uses"""
    import neuropixel
    rec = Rec.get('np21', 1, 700, 1200, ov)
    root = Path(tempfile.mkdtemp(prefix='c04k_'))
    try:
        rec.materialise(root, 'bin')
        prev = logging.root.manager.disable
        logging.disable(logging.CRITICAL)
        try:
            conv = neuropixel.NP2Converter(root / 'probe00' / f'{STEM}.ap.bin')
            conv.init_params(nwindow=1200)
            vals = (int(conv.samples_overlap), int(conv.ratio), int(conv.samples_window), int(conv.nsamples),
                    bool(conv.post_check), bool(conv.compress), bool(conv.delete_original))
            conv.sr.close()
        finally:
            logging.disable(prev)
    finally:
        shutil.rmtree(root, ignore_errors=True)
    ctx.compare('constants', {'op': 'constants'}, str(vals), str((ov, RATIO, 1200, 700, True, True, False)), nontrivial=False,
                tags=('constants',))


def correspondence(ctx):
    ov = int(ctx.consts.get('CONV_OVERLAP', 576))
    _check_constants(ctx, ov)
    rng = ctx.rng
    hist = []     # (cfg, calls, toks, verdicts)
    t_start = time.time()
    # depth: quick / escalated quick (the translator tie broke: every staple, the same-object sequences, deeper effect-sequence
    # cases and three times the generated histories, but not the exhaustive single-call sweep) / thorough
    esc = ctx.tier == 'quick' and not ctx.quick
    full = not ctx.quick and not esc

    def depth(q, e, t):
        return q if ctx.quick else (e if esc else t)
    nh = depth(100, 300, 600)
    maxlen = ctx.n(4, 5)
    # a fixed set of staple histories first (the suite's own history and the ones the property names)
    staples = staple_histories(ov)
    if ctx.quick:       # the core staples every time, a seeded half of the others (escalated / thorough: all)
        keep = ctx.subrng(404).random(len(staples)) < 0.4
        staples = [s for s, k in zip(staples, keep) if k or _is_core(*s)]
    for cfg, cl in staples:
        rec = Rec.of(cfg)
        calls, toks, ver = run_history(rec, cfg['orig'], calls=[parse_call(c) for c in cl])
        hist.append((cfg, calls, toks, ver))
    if esc:
        for cfg, cl in _same_object_sequences(ov):
            rec = Rec.of(cfg)
            calls, toks, ver = run_history(rec, cfg['orig'], calls=[parse_call(c) for c in cl])
            hist.append((cfg, calls, toks, ver))
        ctx.note('escalated (translator tie broken): every staple history and every same-object sequence (8 option triples x rerun / '
                 'forced / interrupted + retried) was run, effect-sequence cases and generated histories at three times the quick depth')
    if full:
        for cfg, cl in exhaustive_single_calls(ov):
            rec = Rec.of(cfg)
            calls, toks, ver = run_history(rec, cfg['orig'], calls=[parse_call(c) for c in cl])
            hist.append((cfg, calls, toks, ver))
        ctx.note('thorough: every single call (8 option triples x overwrite x every interruption point and index, plus an '
                 'unfaithful split) was run from the fresh and from the completed compressed / uncompressed state of one '
                 'configuration per kind')
    # runs as effect sequences: hook trace of an uninterrupted call, and interruptions at ANY hook (global index)
    pfx = prefix_cases(ctx, ov, time.time() + depth(9, 45, 150), depth(7, 30, 90), depth(3, 5, 6), full)
    done = 0
    t_end = max(t_start + depth(62, 62, 420), time.time() + depth(22, 120, 200))
    while done < nh and time.time() < t_end:
        cfg = gen_cfg(rng, ov)
        rec = Rec.of(cfg)
        length = int(rng.integers(1, maxlen + 1)) if rng.random() < 0.3 else maxlen - int(rng.integers(0, 2))
        calls, toks, ver = run_history(rec, cfg['orig'], rng=rng, length=length)
        hist.append((cfg, calls, toks, ver))
        done += 1
    ctx.note(f'{len(hist)} histories, {sum(len(h[1]) for h in hist)} calls executed on the real code')
    lines = ['hist ' + cfg_tokens(cfg) + ' ' +
             ' '.join(lean_call_token(Rec.of(cfg), c) for c in calls)
             for cfg, calls, _, _ in hist]
    answers = ctx.lean(lines + [x['line'] for x in pfx])
    nviol = 0
    for x, ans in zip(pfx, answers[len(lines):]):
        ctx.compare(x['op'], x['desc'], x['impl'], ans[3:] if ans.startswith('ok ') else ans, nontrivial=x['nontrivial'], tags=x['tags'])
        if x['verdict']:
            nviol += 1
            ctx.mismatch('oracle', x['desc'], x['verdict'], 'C04 holds')
    for (cfg, calls, toks, ver), ans in zip(hist, answers):
        mt = ans.split()[1:] if ans.startswith('ok') else [ans] * len(toks)
        tags = _tags(cfg, calls, toks)
        nontrivial = any(t.split('@', 1)[0] not in ('ret0', 'ret-1', 'raise:noOriginal') for t in toks)
        for i, (t, m) in enumerate(zip(toks, mt)):
            desc = {'cfg': cfg, 'calls': [call_token(c) for c in calls[:i + 1]]}
            ctx.compare('history', desc, t, m, nontrivial=nontrivial, tags=tags if i == len(toks) - 1 else ())
            if ver[i]:
                nviol += 1
                ctx.mismatch('oracle', desc, ver[i], 'C04 holds')
    if nviol:
        ctx.note(f'{nviol} call(s) violated the property stated directly on the disk')
    # window counts used by the model = the loops of the code
    from ibldsp.utils import WindowGenerator
    cl, ci, cm = [], [], []
    for ns, w in CONFIGS_NS + [(1200, 1200), (1201, 1200), (3000, 1200)]:
        cl.append(f'counts {ns} {w} {ov}')
        ci.append(f'ok nproc={len(list(WindowGenerator(ns, w, ov).firstlast))} nverif={len(list(WindowGenerator(ns, w, 0).firstlast))}')
        cm.append({'op': 'counts', 'ns': ns, 'w': w, 'ov': ov})
    for d, a, b in zip(cm, ci, ctx.lean(cl)):
        ctx.compare('counts', d, a, b, nontrivial=True, tags=('counts',))


PRIORS = [[], [], ['000000:-:-'], ['010000:-:-'], ['110000:s1:-'], ['010000:c1:-'], ['110000:m1:-'], ['010000:-:-', '000100:s2:-'],
          ['100000:v1:-']]


def gen_prefix_scenario(rng, ov, i):
    """(cfg, prior call tokens, last call without interruption): the core scenarios first, then generated ones"""
    core = [(dict(kind='np24', n=2, ns=1500, w=1200, ov=ov, orig='bin'), [], '111000:-:-'),
            (dict(kind='np21', n=1, ns=1500, w=1200, ov=ov, orig='bin'), [], '010000:-:-'),
            (dict(kind='np24', n=2, ns=1500, w=1200, ov=ov, orig='bin'), ['010000:-:-'], '111100:-:-')]
    if i < len(core):
        cfg, prior, last = core[i]
        return cfg, prior, parse_call(last)
    while True:
        cfg = gen_cfg(rng, ov)
        if not cfg.get('trail') and cfg['kind'] != 'np1':
            break
    rec = Rec.of(cfg)
    prior = list(PRIORS[int(rng.integers(0, len(PRIORS)))])
    last = dict(pc=int(rng.integers(0, 2)), cp=int(rng.random() < 0.7), dl=int(rng.integers(0, 2)),
                ow=int(rng.random() < (0.75 if prior else 0.3)), sh=0, ru=0, int=None, cor=None, form=None)
    if cfg['kind'] == 'np24' and rng.random() < 0.2:
        last['cor'] = (rec.shanks[int(rng.integers(0, rec.nsel))], int(rng.integers(0, rec.ns)))
    if prior and rng.random() < 0.3:
        last['ru'] = 1      # the same object once more: run_history gives it the options of its object
    return cfg, prior, last


def pick_hooks(rng, trace, how_many):
    """boundary-biased global hook indices: first / last / one past the end, the first hook of every kind, the hooks inside and
    after compress_file (b, c, C: the boundaries the named interruption points do not have), random ones"""
    T = len(trace)
    if how_many is None:
        return list(range(T + 1))
    cand = [0, T - 1, T]
    cand += [trace.index(k) for k in 'smvbcCd' if k in trace]
    special = [i for i, k in enumerate(trace) if k in 'bC']
    out = []
    while len(out) < how_many and (cand or special):
        r = rng.random()
        if special and r < 0.45:
            k = special.pop(int(rng.integers(0, len(special))))
        elif cand and r < 0.8:
            k = cand.pop(int(rng.integers(0, len(cand))))
        else:
            k = int(rng.integers(0, T + 1))
        if 0 <= k <= T and k not in out:
            out.append(k)
    return out


def prefix_cases(ctx, ov, t_end, nsc, nk, full):
    """The last call of a short history as an effect sequence (Model/ConverterSteps.lean).  Returns the cases (model line,
    canonical token of the real code, oracle verdict) for (1) the hooks an uninterrupted call passes, in order, with its outcome
    and (2) the state left when the environment raises at the k-th hook, for boundary-biased k."""
    rng = ctx.subrng(4404)
    out = []
    for i in range(nsc):
        if time.time() > t_end:
            break
        cfg, prior, last = gen_prefix_scenario(rng, ov, i)
        rec = Rec.of(cfg)
        calls_in = [parse_call(c) for c in prior] + [dict(last)]
        traces = []
        calls, toks, ver = run_history(rec, cfg['orig'], calls=calls_in, traces=traces)
        trace = traces[-1]
        head = cfg_tokens(cfg) + ' ' + ' '.join(lean_call_token(rec, c) for c in calls[:-1])
        desc = {'cfg': cfg, 'calls': [call_token(c) for c in calls]}
        base_tags = ('effect-sequence', cfg['kind'], 'prior=' + ('none' if not prior else '+'.join(p.split(':')[1] for p in prior)),
                     'same-object' if calls[-1].get('ru') else 'fresh-object', 'res=' + toks[-1].split('@')[0].split('(')[0])
        out.append({'op': 'trace', 'line': 'trace ' + head + ' ' + lean_call_token(rec, calls[-1]), 'desc': desc,
                    'impl': (trace or '-') + ' ' + toks[-1], 'nontrivial': bool(trace), 'verdict': next((v for v in ver if v), None),
                    'tags': base_tags + ('hooks=%d' % len(trace),)})
        exhaustive = full and i < 6
        for k in pick_hooks(rng, trace, None if exhaustive else nk):
            if time.time() > t_end:
                break
            cin = calls_in[:-1] + [dict(calls[-1], int=('g', k))]
            cs, tk, vr = run_history(rec, cfg['orig'], calls=cin)
            hook = trace[k] if k < len(trace) else 'past-end'
            out.append({'op': 'prefix', 'line': 'prefix ' + head + ' ' + lean_call_token(rec, cs[-1]),
                        'desc': {'cfg': cfg, 'calls': [call_token(c) for c in cs]}, 'impl': tk[-1], 'nontrivial': k < len(trace),
                        'verdict': next((v for v in vr if v), None), 'tags': base_tags + ('hook=' + hook,)})
    ctx.note(f'{sum(1 for x in out if x["op"] == "trace")} calls compared as effect sequences (hook trace + outcome), '
             f'{sum(1 for x in out if x["op"] == "prefix")} interruptions at a global hook index')
    return out


def _is_core(cfg, cl):
    """one staple per clause of the property runs in every quick tier"""
    short_hdr = cfg.get('hdr') is not None and cfg['hdr'] < cfg['ns']
    return (cl[:3] == ['110000:-:-', '110001:-:-', '110101:-:-'] or cl == ['101000:-:-', '101101:-:-']
            or cl == ['11010:-:-', '11000:-:-'] or cl[:1] == ['11100:-:0@0'] or cl[:1] == ['11100:-:1@1199']
            or (short_hdr and cfg['hdr'] == 1200 and not cfg.get('trail') and cfg['orig'] == 'bin')
            or (cfg.get('trail') == 77 and cfg['kind'] == 'np21')
            or cl[0].endswith(':sppip') or cl == ['11100:s1:-', '11100:-:-', '11110:-:-'] or cfg['ns'] > 30000
            or (cfg.get('sel') in ([2], [1, 3]) and cl[0].startswith('101')) or (cfg.get('sel') == [0] and cl[0].startswith('111')))


def staple_histories(ov):
    out = []
    for kind, n in (('np24', 4), ('np24', 2), ('np21', 1)):
        base = dict(kind=kind, n=n, ns=2000, w=1200, ov=ov, orig='bin')
        out.append((base, ['11000:-:-', '11000:-:-', '11110:-:-', '11001:-:-' if kind == 'np24' else '11000:-:-']))  # the suite's history
        out.append((base, ['11010:-:-', '11000:-:-']))                  # overwrite on a fresh folder (F3)
        out.append((base, ['01100:-:-', '01110:-:-', '01110:-:0@0']))     # delete_original without verification
        out.append((base, ['11100:s1:-', '11100:-:-', '11110:-:-']))    # interrupted, retried, forced
        out.append((base, ['11100:c0:-', '11110:c1:-', '10010:-:-']))   # interrupted compression
        out.append((base, ['11100:-:0@1999', '11110:-:1@0', '01110:-:1@1300', '11110:-:-']))  # unfaithful split with / without verification
        out.append((dict(base, orig='cbin'), ['11100:m1:-', '11110:v2:-', '11110:d:-', '11110:-:-']))
    out.append((dict(kind='np1', n=1, ns=700, w=1200, ov=ov, orig='bin'), ['11100:-:-', '11110:s0:-']))
    # an altered sample in the first / middle / last of three verification windows, with and without verification, and the
    # order of the window's assert and an exception injected at a later / earlier read (3 reads per window for 2 shanks)
    b3 = dict(kind='np24', n=2, ns=2500, w=1200, ov=ov, orig='bin')
    for row in (0, 1199, 1200, 1300, 2399, 2400, 2499):
        out.append((b3, [f'11100:-:{row % 2}@{row}']))
    out.append((b3, ['01100:-:1@0', '11110:-:0@1300', '11110:-:-']))
    out.append((b3, ['11100:v2:1@0', '11110:v3:1@0', '11110:v5:0@1300', '11110:v6:0@1300', '11110:v8:1@2499']))
    out.append((b3, ['11100:s5:0@0', '11110:s3:1@700', '11110:s4:1@1300']))     # partial files that hold the altered sample
    b4 = dict(kind='np24', n=3, ns=3700, w=1200, ov=ov, orig='cbin')
    out.append((b4, ['11100:-:2@1250', '11110:-:0@2500', '11110:-:1@3699']))
    # the same converter object called again: process(); process(); process(overwrite=True) -- an interrupted run retried on the
    # same object -- a stale check_completed followed by an unfaithful forced re-run -- the object that deleted the original
    # asked again without overwrite -- (cbin only: with overwrite, known finding same-object-rerun-after-delete)
    for kind, n in (('np24', 2), ('np21', 1)):
        base = dict(kind=kind, n=n, ns=1500, w=1200, ov=ov, orig='bin')
        for b in ('110', '000', '010', '100'):
            out.append((base, [f'{b}000:-:-', f'{b}001:-:-', f'{b}101:-:-', f'{b}001:-:-']))
        out.append((base, ['111000:s1:-', '111001:-:-', '111101:-:-']))
        out.append((base, ['111000:c1:-', '111101:c0:-', '111101:-:-']))
        out.append((base, ['111000:m1:-', '111101:v1:-', '111101:-:-']))
        out.append((base, ['111000:d:-', '111101:-:1@0', '111101:-:-', '111001:-:-']))
        out.append((base, ['010000:c0:-', '010101:-:-', '010001:-:-']))
        out.append((dict(base, orig='cbin'), ['101000:-:-', '101001:-:-', '101101:-:-']))
        if kind == 'np24':      # the object that deleted the original is asked again, with overwrite: status 0, nothing touched
            out.append((base, ['101000:-:-', '101101:-:-']))
            out.append((base, ['111000:-:-', '111001:-:-', '111101:-:-']))
    # header not finalised / copy interrupted / trailing partial frame: verify-and-delete must cover every frame on disk
    for kind, n in (('np24', 2), ('np21', 1)):
        for hdr, trail in ((1200, 0), (750, 0), (1499, 0), (1501, 0), (3000, 0), (1500, 77), (1200, 1)):
            b = dict(kind=kind, n=n, ns=1500, w=1200, ov=ov, orig='bin', hdr=hdr, trail=trail)
            out.append((b, ['101000:-:-', '111100:-:-'] if kind == 'np24' else ['010000:-:-', '110100:-:-', '100100:-:-']))
            if not trail:
                out.append((dict(b, orig='cbin'), ['111000:-:-']))
    # the same calls in other spellings
    for form in ('sppip', 'PkkIk', 'Pkpjk', 'skkfp', 'PpkFk', 'Pkkxk'):
        out.append((dict(kind='np24', n=2, ns=1500, w=1200, ov=ov, orig='bin'), [f'110000:-:-:{form}', f'110001:-:-:{form}', f'111100:-:-:{form}']))
        out.append((dict(kind='np21', n=1, ns=1500, w=1200, ov=ov, orig='bin'), [f'010000:-:-:{form}', f'010100:-:-:{form}']))
    # a partial shank selection init_params(nshank=[0] / [2] / [1, 3]) under every option triple: the original must survive (with
    # post_check the verification fails; without it check_completed stays False), also when the same object is forced again
    b4s = dict(kind='np24', n=4, ns=1500, w=1200, ov=ov, orig='bin')
    for sel in ([0], [2], [1, 3]):
        for bits in range(8):
            b = f'{bits >> 2 & 1}{bits >> 1 & 1}{bits & 1}'
            out.append((dict(b4s, sel=sel), [f'{b}000:-:-'] + ([f'{b}101:-:-'] if bits in (5, 7) else [])))
    out.append((dict(b4s, sel=[0, 1, 2, 3]), ['101000:-:-']))
    # scale: a recording longer than one second (fs_ap = 30000 samples, half the default window): an altered sample in the first
    # second must still stop the verified delete
    out.append((dict(kind='np24', n=2, ns=30600, w=30000, ov=ov, orig='bin'), ['101000:-:1@0']))
    # known finding partial-folders-rerun: only some expected folders exist (model and code agree on what happens)
    out.append((dict(kind='np24', n=2, ns=1500, w=1200, ov=ov, orig='bin@1'), ['11000:-:-', '11000:-:-', '11010:-:-']))
    out.append((dict(kind='np24', n=3, ns=1500, w=1200, ov=ov, orig='cbin@2'), ['00100:s1:-', '11110:-:-']))
    return out


def all_points(rec):
    n, nw = rec.nsel, rec.nwin()
    nver = -(-rec.ns // rec.w)
    if rec.kind == 'np24':
        tot = {'s': 2 * nw, 'm': 2 * n, 'v': nver * (1 + n), 'c': 2 * n}
    else:
        tot = {'s': nw, 'm': 1, 'v': 0, 'c': 2}
    pts = ['-', 'd']
    for k, t in tot.items():
        pts += [f'{k}{j}' for j in range(t + 1)]
    return pts


def exhaustive_single_calls(ov):
    out = []
    for kind, n in (('np24', 2), ('np21', 1)):
        cfg = dict(kind=kind, n=n, ns=1500, w=1200, ov=ov, orig='bin')
        rec = Rec.get(kind, n, 1500, 1200, ov)
        for prefix in ([], ['01000:-:-'], ['00000:-:-']):
            for bits in range(16):
                b = f'{bits >> 3 & 1}{bits >> 2 & 1}{bits >> 1 & 1}{bits & 1}0'
                for p in all_points(rec):
                    out.append((cfg, prefix + [f'{b}:{p}:-']))
                if kind == 'np24':
                    out.append((cfg, prefix + [f'{b}:-:1@0']))
                    out.append((cfg, prefix + [f'{b}:-:1@1499']))
    # three verification windows: every option triple x altered sample in the first / middle / last window x shank, and the
    # verified runs again with an exception injected at every read index of check_NP24
    cfg = dict(kind='np24', n=2, ns=2500, w=1200, ov=ov, orig='bin')
    for bits in range(16):
        b = f'{bits >> 3 & 1}{bits >> 2 & 1}{bits >> 1 & 1}{bits & 1}0'
        for row in (0, 1300, 2499):
            for sh in (0, 1):
                out.append((cfg, [f'{b}:-:{sh}@{row}']))
            if bits >> 3 & 1:
                for k in range(0, 10):
                    out.append((cfg, [f'{b}:v{k}:1@{row}']))
    # the same converter object again: every option triple x (rerun, rerun + forced, forced, interrupted + forced / + rerun)
    out.extend(_same_object_sequences(ov))
    return out


# ---------------------------------------------------------------------------------------------
# failing-input search (oracle only, no model)
# ---------------------------------------------------------------------------------------------
def _fails(cfg, call_toks):
    """index of the first call at which the oracle fails, with the verdict; None when the history is fine"""
    rec = Rec.of(cfg)
    try:
        _, toks, ver = run_history(rec, cfg['orig'], calls=[parse_call(c) for c in call_toks])
    except Exception as e:
        return 0, f'the harness could not run the history: {type(e).__name__}: {e}', []
    for i, v in enumerate(ver):
        if v:
            return i, v, toks
    return None


def _shrink(cfg, call_toks):
    r = _fails(cfg, call_toks)
    if r is None:
        return None
    call_toks = call_toks[:r[0] + 1]
    changed = True
    while changed and len(call_toks) > 1:
        changed = False
        for i in range(len(call_toks) - 1):
            cand = call_toks[:i] + call_toks[i + 1:]
            if _fails(cfg, cand) is not None:
                call_toks, changed = cand, True
                break
    for change in (dict(hdr=None), dict(trail=0), dict(ns=1500, w=1200), dict(n=2), dict(n=1), dict(orig='bin')):
        small = dict(cfg, **change)
        if (cfg['kind'] != 'np24' or cfg.get('sel') is not None) and 'n' in change:
            continue
        if 'n' in change and (change['n'] >= cfg['n'] or any(parse_call(c)['cor'] is not None for c in call_toks)):
            continue
        if small != cfg and _fails(small, call_toks) is not None:
            cfg = small
    r = _fails(cfg, call_toks)
    return cfg, call_toks[:r[0] + 1], r[1], r[2]


def _same_object_sequences(ov):
    for kind, n in (('np24', 2), ('np21', 1)):
        cfg = dict(kind=kind, n=n, ns=1500, w=1200, ov=ov, orig='bin')
        for bits in range(8):
            b = f'{bits >> 2 & 1}{bits >> 1 & 1}{bits & 1}'
            yield cfg, [f'{b}000:-:-', f'{b}001:-:-']
            yield cfg, [f'{b}000:-:-', f'{b}001:-:-', f'{b}101:-:-']
            yield cfg, [f'{b}000:-:-', f'{b}101:-:-']
            for p in ('s1', 'm0', 'c0', 'c1', 'v0', 'd'):
                yield cfg, [f'{b}000:{p}:-', f'{b}101:-:-']
                yield cfg, [f'{b}000:{p}:-', f'{b}001:-:-']


def _header_variants(ov):
    for kind, n in (('np24', 2), ('np21', 1)):
        for hdr, trail in ((1200, 0), (750, 0), (1800, 0), (1500, 77)):
            for orig in ('bin', 'cbin'):
                if trail and orig == 'cbin':
                    continue
                cfg = dict(kind=kind, n=n, ns=1500, w=1200, ov=ov, orig=orig, hdr=hdr, trail=trail)
                for b in ('1010', '1110', '0000', '0100', '1011', '1111'):
                    yield cfg, [f'{b}00:-:-']
    for form in ('sppip', 'PkkIk', 'Pkpjk', 'skkfp', 'PpkFk', 'Pkkxk', 'Ppkik', 'Pkkip'):
        for kind, n in (('np24', 2), ('np21', 1)):
            cfg = dict(kind=kind, n=n, ns=1500, w=1200, ov=ov, orig='bin')
            for b in ('1010', '0110', '1100', '0001'):
                yield cfg, [f'{b}00:-:-:{form}']
            yield cfg, [f'110000:-:-:{form}', f'110101:-:-:{form}']


def _systematic(ov):
    """short histories around every clause of the property"""
    for b in ('101000', '111000'):      # longer than one second: altered sample in the first / last second, with verification and delete
        for row in (0, 30599):
            yield dict(kind='np24', n=2, ns=30600, w=30000, ov=ov, orig='bin'), [f'{b}:-:1@{row}']
    for sel in ([0], [2], [1, 3], [0, 1, 2]):        # partial shank selections under every option triple, forced again on the same object
        cfgs = dict(kind='np24', n=4, ns=1500, w=1200, ov=ov, orig='bin', sel=sel)
        for bits in (5, 7, 4, 6, 1, 3, 0, 2):
            b = f'{bits >> 2 & 1}{bits >> 1 & 1}{bits & 1}'
            yield cfgs, [f'{b}000:-:-']
            yield cfgs, [f'{b}000:-:-', f'{b}101:-:-']
    yield from _header_variants(ov)
    yield from _same_object_sequences(ov)
    firsts = [[], ['11000:-:-'], ['00000:-:-'], ['11000:s1:-'], ['11000:m1:-'], ['11000:c0:-'], ['11000:c1:-'], ['01000:-:0@0']]
    for kind, n in (('np24', 2), ('np21', 1), ('np1', 1)):
        for orig in ('bin', 'cbin'):
            cfg = dict(kind=kind, n=n, ns=1500, w=1200, ov=ov, orig=orig)
            for f in firsts:
                for bits in range(16):
                    b = f'{bits >> 3 & 1}{bits >> 2 & 1}{bits >> 1 & 1}{bits & 1}0'
                    yield cfg, f + [f'{b}:-:-']
                for b in ('11100', '11110', '01110'):
                    for p in ('s0', 's3', 'm0', 'm3', 'v0', 'v5', 'c0', 'c1', 'c3', 'd'):
                        yield cfg, f + [f'{b}:{p}:-']
                    if kind == 'np24':
                        for row in (0, 1499):
                            yield cfg, f + [f'{b}:-:1@{row}']
                            yield cfg, f + [f'{b}:-:0@{row}', '11110:-:-']
                        if not f:
                            for row in (0, 1300, 2499):
                                yield dict(cfg, ns=2500), [f'{b}:-:1@{row}']
                if kind == 'np24' and f in (['11000:-:-'], ['00000:-:-']):
                    yield cfg, f + ['11001:-:-']


def search(ctx, reasons):
    ov = int(ctx.consts.get('CONV_OVERLAP', 576))
    t_end = time.time() + 400
    best = None

    def consider(cfg, toks):
        nonlocal best
        r = _shrink(cfg, list(toks))
        if r and (best is None or (len(r[1]), len(json.dumps(r[1]))) < (len(best[1]), len(json.dumps(best[1])))):
            best = r

    seen = set()
    for m in ctx.mismatches[:40]:
        c = m['case']
        if 'cfg' not in c:
            continue
        key = json.dumps([c['cfg'], c['calls']], sort_keys=True)
        if key in seen:
            continue
        seen.add(key)
        consider(c['cfg'], c['calls'])
        if best and len(best[1]) == 1:
            break
        if time.time() > t_end:
            break
    if best is None:
        for cfg, toks in _systematic(ov):
            if time.time() > t_end:
                break
            if _fails(cfg, toks) is not None:
                consider(cfg, toks)
                if best and len(best[1]) <= 2:
                    break
    if best is None:
        return None
    cfg, toks, why, states = best
    return {'input': {'cfg': cfg, 'calls': toks,
                      'legend': 'call = <post_check><compress><delete_original><overwrite><on shank file><same object again>:<interruption s/m/v/c<j> or d, or g<k> = the k-th hook the run passes whatever its kind (s split, m metadata, v verification read, b/c/C entry of / inside / after compress_file, d delete)>:'
                                '<shank>@<row of the AP sample altered before it is written>[:<form: path P/s, ctor k/p, init_params k/p, window i/I/j/f/F/x, process k/p>]; cfg hdr = frames announced by the .meta, trail = bytes of a trailing partial frame, sel = the shank ids handed to init_params(nshank=[...]) (absent: argument not given)'},
            'observed': {'violation': why, 'results_and_disk_after_each_call': states},
            'expected': 'C04: original recoverable byte for byte after every call; removed only after a passed bit-exact verification; '
                        'rerun without overwrite = no change + status 0; first / forced run without fault = status 1 + complete valid set; '
                        'NP1 -> -1, already split -> 0, both untouched',
            'how': 'harness/props/c04.py: run_history(Rec.of(cfg), cfg["orig"], calls=[parse_call(t) for t in calls]) -> '
                   'oracle_step after each call (NP2Converter(file, post_check, delete_original, compress).init_params(nwindow=w[, nshank=sel]).process(overwrite))'}


def _demo_partial_folders():
    """only probe00a of the two expected shank folders exists: process() returns 0 and yet creates probe00b with empty files"""
    rec = Rec.get('np24', 2, 1500, 1200, 576)
    root = Path(tempfile.mkdtemp(prefix='c04f_'))
    try:
        rec.materialise(root, 'bin@1')
        before = snapshot(root)
        res = do_call(root, rec, parse_call('11000:-:-'))
        after = snapshot(root)
        return res == 'ret0' and after != before
    finally:
        shutil.rmtree(root, ignore_errors=True)


def _demo_np21_trailing():
    """NP2.1 .bin with 77 trailing bytes: process() writes the lf file, then raises ValueError from mtscomp instead of returning 1"""
    rec = Rec.get('np21', 1, 1500, 1200, 576, None, 77)
    _, toks, _ = run_history(rec, 'bin', calls=[parse_call('010000:-:-')], oracle=False)
    return toks[0].startswith('raise:valueError@o=bin')


def known_findings(ctx):
    return {'partial-folders-rerun': _demo_partial_folders, 'np21-trailing-bytes-compress': _demo_np21_trailing}


def replay(ctx, rep):
    i = rep['input']
    r = _fails(i['cfg'], i['calls'])
    print('oracle:', None if r is None else r[1])
    return r is not None
